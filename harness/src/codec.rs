pub fn main(_args: &[String]) {
    eprintln!("codec: not built yet");
    std::process::exit(2);
}
