//! `fvh codec` — in-process driver of the REAL `RespParser` / `serialize_resp_frame` (property C20).
//!
//! stdin: one JSON request per line; stdout: JSON lines, flushed after every line, so that a crash
//! (panic, abort on allocation failure, stack overflow) is attributable to the request that got no answer.
//! Nothing is caught here on purpose: a crash of this child IS the observation.
//!
//!   {"op":"parse","hex":H,"chunks":SPEC}
//!       -> {"results":[{"frame":T}|{"err":msg}..],"peak_alloc":n,"left":0|-1}
//!   {"op":"roundtrip","tree":T}
//!       -> {"hex":H,"consumed":n,"results":[..],"peak_alloc":n,"left":0|-1}
//!   {"op":"bytes","hex":H,"chunkings":[SPEC..],"tag":s}      -> one trace event {"k":"bytes",..}
//!   {"op":"rt","tree":T,"tag":s}                              -> one trace event {"k":"rt",..}
//!   {"op":"enum","alphabet":H,"len":n,"mode":"all"|"diff","chunkings":"std"|"all"}
//!       -> a "bytes" event per string (mode all) / per string whose runs differ or exceed the allocation
//!          bound (mode diff), then {"k":"enumsum","strings":..,"runs":..,"emitted":..}
//!
//! SPEC (how the bytes are fed): [] = whole, [n1,n2,..] = chunk sizes (the rest, if any, is a last chunk),
//! "each1" = one byte at a time.  After every feed `parse()` is called until Ok(None) or Err; after an Err
//! nothing more is fed (the server closes the connection).
//! `left`: the private read offset is not observable; 0 means a sentinel frame fed afterwards came out as the
//! very next frame (nothing but white space was left), -1 = unknown / something was left / the run ended in Err.
//! `peak_alloc`: maximum number of heap bytes attributable to the parser (its buffer, temporaries and the frames
//! it returned) during the run, measured by the counting global allocator below.
use crate::jsonx;
use ferrous::protocol::parser::parse_resp_frame;
use ferrous::protocol::{serialize_resp_frame, RespParser};
use ferrous::RespFrame;
use serde_json::{json, Value};
use std::alloc::{GlobalAlloc, Layout, System};
use std::io::{BufRead, Write};
use std::sync::atomic::{AtomicBool, AtomicIsize, Ordering};
use std::sync::Arc;

// ---------------------------------------------------------------------------------------------------------
// Counting allocator.  Inactive (one relaxed load per call) unless `fvh codec` switches it on.
pub struct Counting;
static ON: AtomicBool = AtomicBool::new(false);
static CUR: AtomicIsize = AtomicIsize::new(0);
static PEAK: AtomicIsize = AtomicIsize::new(0);

#[inline]
fn add(n: usize) {
    let c = CUR.fetch_add(n as isize, Ordering::Relaxed) + n as isize;
    PEAK.fetch_max(c, Ordering::Relaxed);
}
#[inline]
fn sub(n: usize) {
    CUR.fetch_sub(n as isize, Ordering::Relaxed);
}

unsafe impl GlobalAlloc for Counting {
    unsafe fn alloc(&self, l: Layout) -> *mut u8 {
        let p = System.alloc(l);
        if !p.is_null() && ON.load(Ordering::Relaxed) {
            add(l.size());
        }
        p
    }
    unsafe fn alloc_zeroed(&self, l: Layout) -> *mut u8 {
        let p = System.alloc_zeroed(l);
        if !p.is_null() && ON.load(Ordering::Relaxed) {
            add(l.size());
        }
        p
    }
    unsafe fn dealloc(&self, p: *mut u8, l: Layout) {
        System.dealloc(p, l);
        if ON.load(Ordering::Relaxed) {
            sub(l.size());
        }
    }
    unsafe fn realloc(&self, p: *mut u8, l: Layout, new: usize) -> *mut u8 {
        let q = System.realloc(p, l, new);
        if !q.is_null() && ON.load(Ordering::Relaxed) {
            if new >= l.size() {
                add(new - l.size());
            } else {
                sub(l.size() - new);
            }
        }
        q
    }
}

#[global_allocator]
static GLOBAL: Counting = Counting;

/// Used by the other in-process drivers (rdbload)
pub fn counting(on: bool) { ON.store(on, Ordering::SeqCst); }
pub fn current() -> isize { CUR.load(Ordering::Relaxed) }
pub fn peak() -> isize { PEAK.load(Ordering::Relaxed) }
pub fn reset_peak() { PEAK.store(CUR.load(Ordering::Relaxed), Ordering::Relaxed); }

/// Accounting of the heap attributable to the code under test: `win` runs a piece of it.
struct Meter {
    retained: isize,
    peak: isize,
}
impl Meter {
    fn new() -> Self {
        Meter { retained: 0, peak: 0 }
    }
    fn win<T>(&mut self, f: impl FnOnce() -> T) -> T {
        let c0 = CUR.load(Ordering::Relaxed);
        PEAK.store(c0, Ordering::Relaxed);
        let r = f();
        let pk = PEAK.load(Ordering::Relaxed) - c0;
        if self.retained + pk > self.peak {
            self.peak = self.retained + pk;
        }
        self.retained += CUR.load(Ordering::Relaxed) - c0;
        r
    }
    fn peak(&self) -> u64 {
        (self.peak.max(0) as u64).min(2_000_000_000) // TLC integers are 32 bit
    }
}

// ---------------------------------------------------------------------------------------------------------
// JSON tree -> RespFrame (inverse of jsonx::frame)
fn unbytes(v: &Value) -> Vec<u8> {
    v.as_array().map(|a| a.iter().map(|x| x.as_u64().unwrap_or(0) as u8).collect()).unwrap_or_default()
}

fn unframe(v: &Value) -> Result<RespFrame, String> {
    let t = v.get("t").and_then(|t| t.as_str()).ok_or("tree without t")?;
    let list = |x: &Value| -> Result<Vec<RespFrame>, String> {
        x.as_array().ok_or("v is not a list")?.iter().map(unframe).collect()
    };
    Ok(match t {
        "st" => RespFrame::SimpleString(Arc::new(unbytes(&v["v"]))),
        "err" => RespFrame::Error(Arc::new(unbytes(&v["v"]))),
        "int" => RespFrame::Integer(
            String::from_utf8(unbytes(&v["v"])).map_err(|e| e.to_string())?.parse::<i64>().map_err(|e| e.to_string())?,
        ),
        "bulk" => RespFrame::BulkString(Some(Arc::new(unbytes(&v["v"])))),
        "nil" => RespFrame::BulkString(None),
        "arr" => RespFrame::Array(Some(list(&v["v"])?)),
        "nilarr" => RespFrame::Array(None),
        "null3" => RespFrame::Null,
        "bool" => RespFrame::Boolean(v["v"].as_i64().unwrap_or(0) != 0),
        "dbl" => {
            let h = String::from_utf8(unbytes(&v["v"])).map_err(|e| e.to_string())?;
            RespFrame::Double(f64::from_bits(u64::from_str_radix(&h, 16).map_err(|e| e.to_string())?))
        }
        "map" => {
            let mut m = Vec::new();
            for p in v["v"].as_array().ok_or("v is not a list")? {
                m.push((unframe(&p[0])?, unframe(&p[1])?));
            }
            RespFrame::Map(m)
        }
        "set3" => RespFrame::Set(list(&v["v"])?),
        _ => return Err(format!("unknown tree type {}", t)),
    })
}

/// nesting depth without recursion (a frame the parser built may be too deep for recursive code)
fn depth(f: &RespFrame) -> usize {
    let mut max = 0;
    let mut stack: Vec<(&RespFrame, usize)> = vec![(f, 1)];
    while let Some((x, d)) = stack.pop() {
        if d > max {
            max = d;
        }
        match x {
            RespFrame::Array(Some(v)) | RespFrame::Set(v) => stack.extend(v.iter().map(|y| (y, d + 1))),
            RespFrame::Map(m) => {
                for (k, v) in m {
                    stack.push((k, d + 1));
                    stack.push((v, d + 1));
                }
            }
            _ => {}
        }
    }
    max
}

const DEEP: usize = 512;

/// JSON of a frame the parser returned; very deep ones are summarised and leaked (rendering and dropping
/// them recursively would overflow the stack of this harness, which is not the parser's fault)
fn render(f: RespFrame) -> Value {
    let d = depth(&f);
    if d > DEEP {
        std::mem::forget(f);
        return json!({"t":"deep","v":d});
    }
    jsonx::frame(&f)
}

/// structural equality; doubles by bit pattern
fn feq(a: &RespFrame, b: &RespFrame) -> bool {
    use RespFrame::*;
    match (a, b) {
        (SimpleString(x), SimpleString(y)) | (Error(x), Error(y)) => x == y,
        (Integer(x), Integer(y)) => x == y,
        (BulkString(x), BulkString(y)) => x == y,
        (Array(None), Array(None)) | (Null, Null) | (NoResponse, NoResponse) => true,
        (Array(Some(x)), Array(Some(y))) | (Set(x), Set(y)) => x.len() == y.len() && x.iter().zip(y).all(|(p, q)| feq(p, q)),
        (Boolean(x), Boolean(y)) => x == y,
        (Double(x), Double(y)) => x.to_bits() == y.to_bits(),
        (Map(x), Map(y)) => x.len() == y.len() && x.iter().zip(y).all(|(p, q)| feq(&p.0, &q.0) && feq(&p.1, &q.1)),
        _ => false,
    }
}

// ---------------------------------------------------------------------------------------------------------
#[derive(Clone)]
enum Spec {
    Sizes(Vec<usize>),
    Each(usize),
}

impl Spec {
    fn from_json(v: &Value) -> Spec {
        match v {
            Value::String(s) if s.starts_with("each") => Spec::Each(s[4..].parse().unwrap_or(1).max(1)),
            Value::Array(a) => Spec::Sizes(a.iter().map(|x| x.as_u64().unwrap_or(0) as usize).collect()),
            _ => Spec::Sizes(vec![]),
        }
    }
    fn to_json(&self) -> Value {
        match self {
            Spec::Sizes(v) => json!(v),
            Spec::Each(n) => json!(format!("each{}", n)),
        }
    }
    fn cuts<'a>(&self, data: &'a [u8]) -> Vec<&'a [u8]> {
        let mut out = Vec::new();
        let mut i = 0;
        match self {
            Spec::Sizes(v) => {
                for &n in v {
                    let j = (i + n).min(data.len());
                    out.push(&data[i..j]);
                    i = j;
                }
                if i < data.len() || out.is_empty() {
                    out.push(&data[i..]);
                }
            }
            Spec::Each(n) => {
                while i < data.len() {
                    let j = (i + n).min(data.len());
                    out.push(&data[i..j]);
                    i = j;
                }
                if out.is_empty() {
                    out.push(data);
                }
            }
        }
        out
    }
}

struct Run {
    results: Vec<Result<RespFrame, String>>,
    peak: u64,
    left: i64,
}

/// one connection's life: feed the chunks to a fresh parser of the code under test
fn run(data: &[u8], spec: &Spec) -> Run {
    let chunks = spec.cuts(data);
    let mut results = Vec::new();
    let mut m = Meter::new();
    let mut p = m.win(RespParser::new);
    let mut dead = false;
    'feed: for c in chunks {
        m.win(|| p.feed(c));
        loop {
            match m.win(|| p.parse()) {
                Ok(Some(f)) => results.push(Ok(f)),
                Ok(None) => break,
                Err(e) => {
                    results.push(Err(e.to_string()));
                    dead = true;
                    break 'feed;
                }
            }
        }
    }
    let peak = m.peak();
    let mut left = -1;
    if !dead {
        p.feed(b"+Z\r\n");
        if let Ok(Some(RespFrame::SimpleString(z))) = p.parse() {
            if z.as_slice() == b"Z" {
                left = 0;
            }
        }
    }
    Run { results, peak, left }
}

fn same_results(a: &Run, b: &Run) -> bool {
    a.results.len() == b.results.len()
        && a.results.iter().zip(&b.results).all(|(x, y)| match (x, y) {
            (Ok(f), Ok(g)) => feq(f, g),
            (Err(_), Err(_)) => true,
            _ => false,
        })
}

/// results in the form of the `parse` op
fn results_plain(r: Vec<Result<RespFrame, String>>) -> Value {
    Value::Array(r.into_iter().map(|x| match x {
        Ok(f) => json!({"frame": render(f)}),
        Err(e) => json!({"err": e}),
    }).collect())
}

/// results in the form of trace events (uniform records for TLC)
fn results_event(r: Vec<Result<RespFrame, String>>) -> Value {
    Value::Array(r.into_iter().map(|x| match x {
        Ok(f) => json!({"k":"f","f": render(f)}),
        Err(e) => json!({"k":"err","m": e}),
    }).collect())
}

fn run_event(spec: &Spec, r: Run) -> Value {
    json!({"chunks": spec.to_json(), "results": results_event(r.results), "peak": r.peak, "left": r.left})
}

/// whole, every single cut (sampled when long), one byte at a time (when not too long)
fn std_chunkings(n: usize) -> Vec<Spec> {
    let mut v = vec![Spec::Sizes(vec![])];
    if n >= 2 {
        if n <= 64 {
            for c in 1..n {
                v.push(Spec::Sizes(vec![c]));
            }
        } else {
            for c in [1, 2, n / 3, n / 2, n - 2, n - 1] {
                v.push(Spec::Sizes(vec![c]));
            }
        }
    }
    if n >= 3 && n <= 4096 {
        v.push(Spec::Each(1));
    }
    v
}

/// all 2^(n-1) chunkings
fn all_chunkings(n: usize) -> Vec<Spec> {
    if n < 2 {
        return vec![Spec::Sizes(vec![])];
    }
    let mut v = Vec::new();
    for mask in 0u32..(1u32 << (n - 1)) {
        let mut sizes = Vec::new();
        let mut last = 0;
        for c in 1..n {
            if mask & (1 << (c - 1)) != 0 {
                sizes.push(c - last);
                last = c;
            }
        }
        v.push(Spec::Sizes(sizes));
    }
    v
}

fn bound(n: usize) -> u64 {
    64 * n as u64 + 65536
}

fn bytes_event(data: &[u8], specs: &[Spec], tag: &str, runs: Vec<Run>) -> Value {
    let mut ev = json!({"k":"bytes","n":data.len(),"tag":tag,
        "runs": Value::Array(specs.iter().zip(runs).map(|(s, r)| run_event(s, r)).collect())});
    if data.len() <= 64 {
        ev["b"] = jsonx::bytes(data);
    }
    if data.len() <= 512 {
        ev["hex"] = json!(jsonx::hex(data));
    }
    ev
}

fn emit(out: &mut impl Write, v: &Value) {
    let _ = writeln!(out, "{}", v);
    let _ = out.flush();
}

/// advance the odometer; false when it wrapped around
fn next_idx(idx: &mut [usize], base: usize) -> bool {
    for i in (0..idx.len()).rev() {
        idx[i] += 1;
        if idx[i] < base {
            return true;
        }
        idx[i] = 0;
    }
    false
}

fn op_enum(req: &Value, out: &mut impl Write) {
    let alpha = jsonx::unhex(req["alphabet"].as_str().unwrap_or(""));
    let maxlen = req["len"].as_u64().unwrap_or(0) as usize;
    let minlen = req["from"].as_u64().unwrap_or(0) as usize;
    let all_mode = req["mode"].as_str().unwrap_or("all") == "all";
    let all_chunks = req["chunkings"].as_str().unwrap_or("std") == "all";
    let (mut strings, mut nruns, mut emitted) = (0u64, 0u64, 0u64);
    for len in minlen..=maxlen {
        let specs = if all_chunks { all_chunkings(len) } else { std_chunkings(len) };
        let mut idx = vec![0usize; len];
        let mut data = vec![0u8; len];
        loop {
            for i in 0..len {
                data[i] = alpha[idx[i]];
            }
            let runs: Vec<Run> = specs.iter().map(|s| run(&data, s)).collect();
            strings += 1;
            nruns += runs.len() as u64;
            let ok = runs.iter().all(|r| same_results(r, &runs[0]) && r.peak <= bound(len));
            if all_mode || !ok {
                emitted += 1;
                emit(out, &bytes_event(&data, &specs, "enum", runs));
            }
            if !next_idx(&mut idx, alpha.len()) {
                break;
            }
        }
    }
    emit(out, &json!({"k":"enumsum","strings":strings,"runs":nruns,"emitted":emitted,"mode": if all_mode {"all"} else {"diff"}}));
}

const SUFFIXES: [&[u8]; 6] = [b"\r\n", b"+", b"$1\r\n", b"*", b"PING", b"\x00\xff"];

fn op_rt(req: &Value) -> Value {
    let tree = &req["tree"];
    let frame = match unframe(tree) {
        Ok(f) => f,
        Err(e) => return json!({"k":"toolerr","what":e}),
    };
    let mut buf = Vec::new();
    if let Err(e) = serialize_resp_frame(&frame, &mut buf) {
        return json!({"k":"rt","tree":tree,"sererr":e.to_string()});
    }
    let specs = std_chunkings(buf.len());
    let runs: Vec<Value> = specs.iter().map(|s| run_event(s, run(&buf, s))).collect();
    let c1 = match parse_resp_frame(&buf) {
        Ok(Some((_, n))) => n as i64,
        Ok(None) => -1,
        Err(_) => -2,
    };
    let mut sfx = Vec::new();
    for s in SUFFIXES {
        let mut b2 = buf.clone();
        b2.extend_from_slice(s);
        sfx.push(match parse_resp_frame(&b2) {
            Ok(Some((f, n))) => json!({"s": jsonx::bytes(s), "c": n, "r": {"k":"f","f": render(f)}}),
            Ok(None) => json!({"s": jsonx::bytes(s), "c": -1, "r": {"k":"none"}}),
            Err(e) => json!({"s": jsonx::bytes(s), "c": -2, "r": {"k":"err","m": e.to_string()}}),
        });
    }
    json!({"k":"rt","tag":req["tag"],"tree":tree,"bytes":jsonx::bytes(&buf),"c1":c1,"runs":runs,"sfx":sfx})
}

pub fn main(_args: &[String]) {
    // absurd allocations must abort this child, not the machine
    unsafe {
        let lim = libc::rlimit { rlim_cur: 2u64 << 30, rlim_max: 2u64 << 30 };
        libc::setrlimit(libc::RLIMIT_AS, &lim);
    }
    ON.store(true, Ordering::SeqCst);
    let stdin = std::io::stdin();
    let stdout = std::io::stdout();
    let mut out = stdout.lock();
    for line in stdin.lock().lines() {
        let line = match line {
            Ok(l) => l,
            Err(_) => break,
        };
        if line.trim().is_empty() {
            continue;
        }
        let req: Value = match serde_json::from_str(&line) {
            Ok(v) => v,
            Err(e) => {
                emit(&mut out, &json!({"k":"toolerr","what":format!("bad request: {}", e)}));
                continue;
            }
        };
        match req["op"].as_str().unwrap_or("") {
            "parse" => {
                let data = jsonx::unhex(req["hex"].as_str().unwrap_or(""));
                let r = run(&data, &Spec::from_json(&req["chunks"]));
                emit(&mut out, &json!({"results": results_plain(r.results), "peak_alloc": r.peak, "left": r.left}));
            }
            "roundtrip" => match unframe(&req["tree"]) {
                Err(e) => emit(&mut out, &json!({"toolerr": e})),
                Ok(f) => {
                    let mut buf = Vec::new();
                    if let Err(e) = serialize_resp_frame(&f, &mut buf) {
                        emit(&mut out, &json!({"sererr": e.to_string()}));
                        continue;
                    }
                    let consumed = match parse_resp_frame(&buf) {
                        Ok(Some((_, n))) => n as i64,
                        Ok(None) => -1,
                        Err(_) => -2,
                    };
                    let r = run(&buf, &Spec::Sizes(vec![]));
                    emit(&mut out, &json!({"hex": jsonx::hex(&buf), "consumed": consumed,
                        "results": results_plain(r.results), "peak_alloc": r.peak, "left": r.left}));
                }
            },
            "bytes" => {
                let data = jsonx::unhex(req["hex"].as_str().unwrap_or(""));
                let specs: Vec<Spec> = match req["chunkings"].as_array() {
                    Some(a) if !a.is_empty() => a.iter().map(Spec::from_json).collect(),
                    _ => std_chunkings(data.len()),
                };
                let runs: Vec<Run> = specs.iter().map(|s| run(&data, s)).collect();
                emit(&mut out, &bytes_event(&data, &specs, req["tag"].as_str().unwrap_or(""), runs));
            }
            "rt" => emit(&mut out, &op_rt(&req)),
            "enum" => op_enum(&req, &mut out),
            _ => emit(&mut out, &json!({"k":"toolerr","what":"unknown op"})),
        }
    }
}
