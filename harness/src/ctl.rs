//! Control port: one text command per line, one reply line (or several ending in ".").
use std::io::{BufRead, BufReader, Write};
use std::net::{TcpListener, TcpStream};
use std::sync::atomic::Ordering;
use std::time::Duration;

use ferrous::verif;
use serde_json::json;

use crate::jsonx;

pub fn spawn(port: u16) {
    let l = TcpListener::bind(("127.0.0.1", port)).expect("bind ctl port");
    std::thread::spawn(move || {
        for s in l.incoming() {
            if let Ok(s) = s {
                std::thread::spawn(move || handle(s));
            }
        }
    });
}

fn handle(s: TcpStream) {
    let _ = s.set_nodelay(true);
    let mut w = s.try_clone().unwrap();
    let r = BufReader::new(s);
    for line in r.lines() {
        let line = match line {
            Ok(l) => l,
            Err(_) => return,
        };
        let parts: Vec<&str> = line.split_whitespace().collect();
        if parts.is_empty() {
            continue;
        }
        let out = exec(&parts);
        if w.write_all(out.as_bytes()).is_err() || w.write_all(b"\n").is_err() {
            return;
        }
        let _ = w.flush();
    }
}

fn exec(p: &[&str]) -> String {
    match p[0] {
        "PING" => "PONG".into(),
        "LOGON" => {
            verif::LOG_ON.store(true, Ordering::SeqCst);
            "OK".into()
        }
        "LOGOFF" => {
            verif::LOG_ON.store(false, Ordering::SeqCst);
            "OK".into()
        }
        "DRAIN" => {
            let evs = verif::drain_log();
            let mut out = String::new();
            for e in evs {
                let v = json!({
                    "seq": e.seq, "kind": e.kind, "conn": e.conn,
                    "frames": e.frames.iter().map(jsonx::frame).collect::<Vec<_>>(),
                    "text": e.text,
                });
                out.push_str(&v.to_string());
                out.push('\n');
            }
            out.push('.');
            out
        }
        "ARM" => {
            verif::arm(p[1]);
            "OK".into()
        }
        "DISARM" => {
            verif::disarm(p[1]);
            "OK".into()
        }
        "WAIT" => {
            let n: u64 = p[2].parse().unwrap_or(1);
            let ms: u64 = p[3].parse().unwrap_or(1000);
            if verif::wait_reached(p[1], n, Duration::from_millis(ms)) { "1".into() } else { "0".into() }
        }
        "RELEASE" => {
            verif::release(p[1]);
            "OK".into()
        }
        "GATE" => {
            verif::gate(p[1] == "on");
            "OK".into()
        }
        "STEP" => {
            let n: u64 = p.get(1).and_then(|x| x.parse().ok()).unwrap_or(1);
            let before = verif::LOOP_ITER.load(Ordering::SeqCst);
            verif::gate_step(n);
            // wait until the iterations have started AND the following loop_top is reached
            // (i.e. the n iterations are complete): the counter advances by n when the n-th
            // iteration starts; it is complete when the loop blocks again at the gate, which we
            // detect by asking for one more permit-less arrival: poll briefly.
            let deadline = std::time::Instant::now() + Duration::from_millis(5000);
            while verif::LOOP_ITER.load(Ordering::SeqCst) < before + n {
                if std::time::Instant::now() > deadline {
                    return "TIMEOUT".into();
                }
                std::thread::sleep(Duration::from_micros(50));
            }
            "OK".into()
        }
        "EXIT" => std::process::exit(0),      // orderly exit (atexit handlers run: coverage builds write their profile)
        "ITER" => verif::LOOP_ITER.load(Ordering::SeqCst).to_string(),
        "SWEEPS" => verif::SWEEP_PASSES.load(Ordering::SeqCst).to_string(),
        "RDBFAIL" => {
            let n: i64 = p[1].parse().unwrap_or(-1);
            verif::RDB_WRITES.store(0, Ordering::SeqCst);
            verif::RDB_FAIL_AT.store(n, Ordering::SeqCst);
            "OK".into()
        }
        "RDBWRITES" => verif::RDB_WRITES.load(Ordering::SeqCst).to_string(),
        "BGSAVING" => match verif::registry().and_then(|r| r.rdb) {
            Some(r) => if r.is_bgsave_in_progress() { "1".into() } else { "0".into() },
            None => "?".into(),
        },
        "BLOCKSNAP" => match verif::registry() {
            Some(r) => {
                let (regs, q) = r.blocking.verif_snapshot();
                let v = json!({
                    "regs": regs.iter().map(|(db, k, ids)| json!({"db": db, "key": jsonx::bytes(k), "conns": ids})).collect::<Vec<_>>(),
                    "wakeq": q,
                });
                v.to_string()
            }
            None => "{}".into(),
        },
        _ => crate::ctl_ext(p),
    }
}
