//! RespFrame -> JSON in the trace representation (bytes are arrays of integers).
use ferrous::RespFrame;
use serde_json::{json, Value};

pub fn bytes(b: &[u8]) -> Value {
    Value::Array(b.iter().map(|x| json!(*x)).collect())
}

pub fn frame(f: &RespFrame) -> Value {
    match f {
        RespFrame::SimpleString(b) => json!({"t":"st","v":bytes(b)}),
        RespFrame::Error(b) => json!({"t":"err","v":bytes(b)}),
        RespFrame::Integer(i) => json!({"t":"int","v":bytes(i.to_string().as_bytes())}),
        RespFrame::BulkString(Some(b)) => json!({"t":"bulk","v":bytes(b)}),
        RespFrame::BulkString(None) => json!({"t":"nil"}),
        RespFrame::Array(Some(v)) => json!({"t":"arr","v":Value::Array(v.iter().map(frame).collect())}),
        RespFrame::Array(None) => json!({"t":"nilarr"}),
        RespFrame::NoResponse => json!({"t":"none"}),
        RespFrame::Null => json!({"t":"null3"}),
        RespFrame::Boolean(b) => json!({"t":"bool","v": if *b {1} else {0}}),
        RespFrame::Double(d) => json!({"t":"dbl","v":bytes(format!("{:016x}", d.to_bits()).as_bytes())}),
        RespFrame::Map(m) => json!({"t":"map","v":Value::Array(m.iter().map(|(k,v)| json!([frame(k), frame(v)])).collect())}),
        RespFrame::Set(v) => json!({"t":"set3","v":Value::Array(v.iter().map(frame).collect())}),
    }
}

pub fn hex(b: &[u8]) -> String {
    let mut s = String::with_capacity(b.len() * 2);
    for x in b {
        s.push_str(&format!("{:02x}", x));
    }
    s
}

pub fn unhex(s: &str) -> Vec<u8> {
    let s = s.as_bytes();
    let mut out = Vec::with_capacity(s.len() / 2);
    let mut i = 0;
    while i + 1 < s.len() {
        let h = (s[i] as char).to_digit(16).unwrap_or(0) as u8;
        let l = (s[i + 1] as char).to_digit(16).unwrap_or(0) as u8;
        out.push(h * 16 + l);
        i += 2;
    }
    out
}
