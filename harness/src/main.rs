//! fvh — verification harness binary for ferrous.
//!
//!   fvh serve --port P --ctl Q --dir D [--requirepass X] [--conf FILE] [--appendonly] [--autosave S,C]
//!       runs the REAL server in-process (hooks compiled in via --cfg ferrous_verif) plus a
//!       line-based control port used by the python driver.
//!   fvh codec   (stdin: json lines)  in-process driver for RespParser / serialize_resp_frame
//!   fvh rdbload <file>               loads an RDB file into a fresh engine and dumps it as json

mod ctl;
mod codec;
mod jsonx;
mod rdbload;

use std::env;

fn arg_val(args: &[String], name: &str) -> Option<String> {
    args.iter().position(|a| a == name).and_then(|i| args.get(i + 1).cloned())
}

fn main() {
    let args: Vec<String> = env::args().collect();
    if args.len() < 2 {
        eprintln!("usage: fvh serve|codec|rdbload ...");
        std::process::exit(2);
    }
    match args[1].as_str() {
        "serve" => serve(&args[2..]),
        "codec" => codec::main(&args[2..]),
        "rdbload" => rdbload::main(&args[2..]),
        _ => {
            eprintln!("unknown sub-command");
            std::process::exit(2);
        }
    }
}

fn serve(args: &[String]) {
    let port: u16 = arg_val(args, "--port").expect("--port").parse().unwrap();
    let ctl_port: u16 = arg_val(args, "--ctl").expect("--ctl").parse().unwrap();
    let dir = arg_val(args, "--dir").expect("--dir");
    // --conf FILE: the configuration comes from a configuration file, read by ferrous' own parser (the way a deployment
    // sets requirepass); port, address and directories are then overridden as for the built-in configuration
    let mut cfg = match arg_val(args, "--conf") {
        Some(path) => match ferrous::Config::from_file(path.as_str()) {
            Ok(c) => c,
            Err(e) => {
                eprintln!("fvh: configuration file refused: {}", e);
                std::process::exit(4);
            }
        },
        None => ferrous::Config::default(),
    };
    cfg.network.port = port;
    cfg.network.bind_addr = "127.0.0.1".to_string();
    if let Some(pw) = arg_val(args, "--requirepass") {
        cfg.network.password = Some(pw);
    }
    cfg.rdb.dir = dir.clone();
    cfg.aof.dir = dir.clone();
    cfg.rdb.auto_save = false;
    if let Some(rule) = arg_val(args, "--autosave") {
        let mut it = rule.split(',');
        let s: u64 = it.next().unwrap().parse().unwrap();
        let c: u64 = it.next().unwrap().parse().unwrap();
        cfg.rdb.auto_save = true;
        cfg.rdb.save_rules = vec![(s, c)];
    }
    if args.iter().any(|a| a == "--appendonly") {
        cfg.aof.enabled = true;
        if let Some(p) = arg_val(args, "--appendfsync") {
            cfg.aof.fsync_policy = match p.as_str() {
                "always" => ferrous::storage::aof::FsyncPolicy::Always,
                "no" => ferrous::storage::aof::FsyncPolicy::No,
                _ => ferrous::storage::aof::FsyncPolicy::EverySecond,
            };
        }
    }
    if args.iter().any(|a| a == "--logon") {
        ferrous::verif::LOG_ON.store(true, std::sync::atomic::Ordering::SeqCst);
    }
    ctl::spawn(ctl_port);
    let mut server = match ferrous::Server::from_config(cfg) {
        Ok(s) => s,
        Err(e) => {
            eprintln!("fvh: server init failed: {}", e);
            std::process::exit(3);
        }
    };
    println!("FVH-READY");
    if let Err(e) = server.run() {
        eprintln!("fvh: server.run returned error: {}", e);
        std::process::exit(4);
    }
}

/// Control commands added by later hooks (structure checkers etc.).
pub fn ctl_ext(p: &[&str]) -> String {
    match p[0] {
        // ZCHECK <db> <hex key>: structural invariants of the skip list behind a sorted set
        "ZCHECK" => {
            let db: usize = p[1].parse().unwrap_or(0);
            let key = jsonx::unhex(p.get(2).copied().unwrap_or(""));
            let reg = match ferrous::verif::registry() {
                Some(r) => r,
                None => return "ERR no registry".into(),
            };
            match reg.storage.get(db, &key) {
                Ok(ferrous::storage::GetResult::Found(ferrous::storage::Value::SortedSet(z))) => {
                    match z.verif_check_invariants() {
                        Ok(()) => "OK".into(),
                        Err(e) => format!("BAD {}", e.replace('\n', " ")),
                    }
                }
                Ok(_) => "NONE".into(),
                Err(e) => format!("ERR {}", e),
            }
        }
        _ => "ERR unknown".into(),
    }
}
