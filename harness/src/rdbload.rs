pub fn main(_args: &[String]) {
    eprintln!("rdbload: not built yet");
    std::process::exit(2);
}
