//! `fvh rdbload <file>`: load an RDB file into a FRESH storage engine through the real loader and print
//! one JSON line: {"result":"ok"|"err","error":..,"peak_alloc":..,"ms":..,"dbs":{db:{hexkey:[type,canon,has_ttl]}}}
//! Runs under RLIMIT_AS with the counting allocator of codec.rs, so an allocation sized by a corrupt length
//! field shows up as peak_alloc (or aborts this child, which the caller records as a crash).
use std::sync::atomic::Ordering;
use std::time::Instant;

use ferrous::storage::{GetResult, RdbConfig, RdbEngine, StorageEngine, Value};
use serde_json::{json, Map, Value as J};

use crate::jsonx::hex;

fn canon(v: &Value) -> (String, J) {
    match v {
        Value::String(b) => ("string".into(), json!(hex(b))),
        Value::List(l) => ("list".into(), J::Array(l.iter().map(|x| json!(hex(x))).collect())),
        Value::Set(s) => {
            let mut m: Vec<String> = s.iter().map(|x| hex(x)).collect();
            m.sort();
            ("set".into(), json!(m))
        }
        Value::Hash(h) => {
            let mut m: Vec<(String, String)> = h.iter().map(|(k, v)| (hex(k), hex(v))).collect();
            m.sort();
            ("hash".into(), json!(m))
        }
        Value::SortedSet(z) => {
            let mut m: Vec<(String, String)> = z.get_all_items().into_iter()
                .map(|(k, s)| (hex(&k), format!("{:016x}", s.to_bits()))).collect();
            m.sort();
            ("zset".into(), json!(m))
        }
        Value::Stream(st) => {
            let r = st.range(&ferrous::storage::stream::StreamId::min(), &ferrous::storage::stream::StreamId::max(), None, false);
            let es: Vec<J> = r.entries.iter().map(|e| {
                let mut f: Vec<(String, String)> = e.fields.iter().map(|(k, v)| (hex(k), hex(v))).collect();
                f.sort();
                json!([e.id.to_string(), f])
            }).collect();
            ("stream".into(), J::Array(es))
        }
    }
}

pub fn main(args: &[String]) {
    let path = std::path::PathBuf::from(args.get(0).expect("file"));
    unsafe {
        let lim = libc::rlimit { rlim_cur: 2 << 30, rlim_max: 2 << 30 };
        libc::setrlimit(libc::RLIMIT_AS, &lim);
    }
    let mut cfg = RdbConfig::default();
    cfg.dir = path.parent().map(|p| p.to_string_lossy().to_string()).unwrap_or_else(|| ".".into());
    cfg.filename = path.file_name().unwrap().to_string_lossy().to_string();
    cfg.auto_save = false;
    let storage = StorageEngine::new_in_memory();
    let engine = RdbEngine::new(cfg);
    crate::codec::counting(true);
    let c0 = crate::codec::current();
    crate::codec::reset_peak();
    let t = Instant::now();
    let res = engine.load(&storage);
    let ms = t.elapsed().as_millis() as u64;
    let peak = (crate::codec::peak() - c0).max(0);
    crate::codec::counting(false);
    let mut dbs = Map::new();
    for db in 0..storage.database_count() {
        let mut m = Map::new();
        for key in storage.get_all_keys(db).unwrap_or_default() {
            let ttl = storage.ttl(db, &key).ok().flatten().is_some();
            if let Ok(GetResult::Found(v)) = storage.get(db, &key) {
                let (t, c) = canon(&v);
                m.insert(hex(&key), json!([t, c, ttl]));
            }
        }
        if !m.is_empty() {
            dbs.insert(db.to_string(), J::Object(m));
        }
    }
    let out = json!({
        "result": if res.is_ok() { "ok" } else { "err" },
        "error": res.err().map(|e| e.to_string()).unwrap_or_default(),
        "peak_alloc": peak, "ms": ms, "dbs": J::Object(dbs),
    });
    println!("{}", out);
    let _ = Ordering::Relaxed;
}
