"""Asynchronous recording for blocking commands (C13): one orchestrator, several sockets, requests are sent
without waiting; replies are collected as they arrive and paired FIFO per connection; the order of execution,
wake-ups and time-outs comes from the server-side log (hooks H3/H4)."""
import os
import select
import time

from client import Client
import resp


class AsyncRun:
    def __init__(self, server, trace):
        self.server = server
        self.trace = trace
        self.cl = {}
        self.recs = {}
        self.closed_at = {}
        self.nonce = os.urandom(4).hex()
        self.t_finish = 0
        server.ctl.cmd('LOGON')
        server.ctl.drain()

    def marker(self, c):
        return ('__conn_%d_%s' % (c, self.nonce)).encode()

    def open(self, c):
        self.cl[c] = Client(self.server.port, timeout=5.0)
        self.recs[c] = []
        self.send(c, [b'ECHO', self.marker(c)])
        self.pump(c, 1.0, want_all=True)

    def send(self, c, *argvs, extra=None):
        """Send one or several requests in ONE write (a pipelined batch).  extra: fields added to the event of the
        (single) request, e.g. the program of a script."""
        t0 = self.trace.now()
        for a in argvs:
            self.recs[c].append({'argv': a, 'r': None, 't0': t0, 't1': None, 'extra': extra})
        self.cl[c].send_raw(b''.join(resp.enc_cmd(a) for a in argvs))

    def pending(self, c):
        return [r for r in self.recs[c] if r['r'] is None]

    def pump(self, c, timeout=0.0, want_all=False):
        """Read replies of c for up to `timeout`; with want_all stop as soon as nothing is pending."""
        cl = self.cl.get(c)
        if cl is None:
            return
        end = time.monotonic() + timeout
        while True:
            pend = self.pending(c)
            if not pend:
                return
            left = end - time.monotonic()
            r = cl.recv(max(left, 0.0))
            if r[0] == 'none':
                return
            if r[0] == 'closed':
                for p in pend:
                    p['r'] = ('closed',)
                    p['t1'] = self.trace.now() + 1
                return
            pend[0]['r'] = r
            pend[0]['t1'] = self.trace.now() + 1
            if not want_all and time.monotonic() >= end:
                return

    def call(self, c, argv, timeout=2.0, extra=None):
        self.send(c, argv, extra=extra)
        self.pump(c, timeout, want_all=True)

    def sync(self, n=3):
        """Let the server's event loop run n iterations (hook H2)."""
        ctl = self.server.ctl
        try:
            start = int(ctl.cmd('ITER'))
            end = time.monotonic() + 3.0
            while time.monotonic() < end and int(ctl.cmd('ITER')) < start + n:
                time.sleep(0.0005)
        except (OSError, ValueError):
            pass

    def sleep(self, ms):
        time.sleep(ms / 1000.0)

    def close(self, c):
        if c in self.cl:
            # everything the server has already sent is read first: a reply in flight must not be mistaken for
            # "never delivered" (the orchestrator is the only source of traffic, so after the sync nothing new comes)
            self.sync(3)
            self.pump(c, 0.02, want_all=True)
            self.cl[c].close()
            del self.cl[c]
            # position of the close relative to the server log: after everything logged so far
            self.closed_at[c] = ('after', len(self.recs[c]), self.trace.now())
            self.sync(3)

    def snapshot(self):
        """Registry snapshot (hook H5) as an event, mapped to client indices at merge time."""
        try:
            import json
            return json.loads(self.server.ctl.cmd('BLOCKSNAP'))
        except Exception:
            return None

    def finish(self, final_wait=0.3):
        for c in list(self.cl):
            self.pump(c, final_wait, want_all=True)
        self.sync(3)
        self.t_finish = self.trace.now()
        snap = self.snapshot() if self.server.alive() else None
        for c in list(self.cl):
            self.cl[c].close()
        self.sync(3)
        log = self.server.ctl.drain() if self.server.alive() else []
        if self.server.alive():
            self.server.ctl.cmd('LOGOFF')
        self.merge(log, snap)

    def merge(self, log, snap):
        tr = self.trace
        conn_of = {}
        for e in log:
            if e['kind'] in ('cmd', 'cmderr') and e['frames']:
                req = e['frames'][0]
                if req.get('t') == 'arr' and len(req['v']) == 2 and bytes(req['v'][0].get('v', [])).upper() == b'ECHO':
                    m = bytes(req['v'][1].get('v', []))
                    for c in self.recs:
                        if m == self.marker(c):
                            conn_of[e['conn']] = c
        nxt = {c: 0 for c in self.recs}
        opened = set()
        closed_emitted = set()
        awaiting = set()       # clients whose last logged request blocked and who DID receive its reply before closing:
                               # their close comes after the server's served/timeout record, not before it

        def maybe_close(c):
            ca = self.closed_at.get(c)
            if ca and c not in closed_emitted and nxt[c] >= ca[1]:
                closed_emitted.add(c)
                tr.emit({'k': 'close', 'c': c, 't': ca[2]})
                tr.emit({'k': 'gone', 'c': c})

        for e in log:
            c = conn_of.get(e['conn'])
            if c is None:
                continue
            if e['kind'] in ('cmd', 'cmderr'):
                recs = self.recs[c]
                if nxt[c] >= len(recs):
                    tr.emit({'k': 'unsent', 'c': c, 'seq': e['seq']})
                    continue
                rec = recs[nxt[c]]
                nxt[c] += 1
                if c not in opened:
                    opened.add(c)
                    tr.emit({'k': 'open', 'c': c})
                r = rec['r'] if rec['r'] is not None else ('none',)
                ev = {'k': 'cmd', 'c': c, 'argv': [list(a) for a in rec['argv']], 'r': resp.to_json(r),
                      't0': rec['t0'], 't1': rec['t1'] if rec['t1'] is not None else tr.now() + 1, 'seq': e['seq']}
                ev['sr'] = e['frames'][1] if e['kind'] == 'cmd' else {'t': 'handler_err'}
                ev.update(rec.get('extra') or {})
                req = e['frames'][0]
                sargv = [x.get('v', []) for x in req['v']] if req.get('t') == 'arr' else None
                if sargv != ev['argv']:
                    ev['sargv'] = sargv
                tr.emit(ev)
                if ev['sr'].get('t') == 'none' and rec['r'] is not None and rec['r'][0] not in ('closed', 'none'):
                    awaiting.add(c)
                else:
                    maybe_close(c)
            elif e['kind'] in ('served', 'timeout'):
                tr.emit({'k': e['kind'], 'c': c, 'frames': e['frames'], 'seq': e['seq']})
                if c in awaiting:
                    awaiting.discard(c)
                    maybe_close(c)
            # 'wake' records (the pop attempt) are diagnostic only
        for c, recs in self.recs.items():
            for rec in recs[nxt[c]:]:
                if c not in opened:
                    opened.add(c)
                    tr.emit({'k': 'open', 'c': c})
                r = rec['r'] if rec['r'] is not None else ('none',)
                ev = {'k': 'unlogged', 'c': c, 'argv': [list(a) for a in rec['argv']], 'r': resp.to_json(r),
                      't0': rec['t0'], 't1': rec['t1'] or tr.now()}
                ev.update(rec.get('extra') or {})
                tr.emit(ev)
        if snap is not None:
            regs = []
            for r in snap.get('regs', []):
                regs.append({'db': r['db'], 'key': r['key'], 'conns': [conn_of.get(x, -1) for x in r['conns']]})
            tr.emit({'k': 'blocksnap', 'regs': regs, 'wakeq': snap.get('wakeq', 0)})
        for c in sorted(opened):
            if c not in closed_emitted:
                tr.emit({'k': 'close', 'c': c, 't': self.t_finish})
                tr.emit({'k': 'gone', 'c': c})
