"""A small blocking RESP client used by the drivers."""
import socket
import time
import select
from resp import Reader, enc_cmd, ProtocolError


class Client:
    def __init__(self, port, timeout=5.0):
        self.s = socket.create_connection(('127.0.0.1', port), timeout=timeout)
        self.s.setsockopt(socket.IPPROTO_TCP, socket.TCP_NODELAY, 1)
        self.r = Reader()
        self.closed = False
        self.timeout = timeout

    def send_raw(self, data):
        try:
            self.s.sendall(data)
            return True
        except OSError:
            self.closed = True
            return False

    def send(self, argv):
        return self.send_raw(enc_cmd(argv))

    def recv(self, timeout=None):
        """One reply, ('closed',) if the peer closed, ('none',) on time-out, ('garbage', b) on bad bytes."""
        if timeout is None:
            timeout = self.timeout
        deadline = time.monotonic() + timeout
        while True:
            try:
                v = self.r.next()
            except ProtocolError:
                g = bytes(self.r.buf)
                self.r.buf.clear()
                return ('garbage', g[:200])
            if v is not None:
                return v
            if self.closed:
                return ('closed',)
            left = deadline - time.monotonic()
            if left <= 0:
                return ('none',)
            rd, _, _ = select.select([self.s], [], [], left)
            if not rd:
                return ('none',)
            try:
                data = self.s.recv(65536)
            except OSError:
                data = b''
            if not data:
                self.closed = True
                continue
            self.r.feed(data)

    def call(self, argv, timeout=None):
        if not self.send(argv):
            return ('closed',)
        return self.recv(timeout)

    def close(self):
        try:
            self.s.close()
        except OSError:
            pass
        self.closed = True
