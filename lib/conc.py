"""Concurrent recording: several client threads drive the server; the total order of execution is taken
from the server-side command log (hook H3, one record per executed request, sequence number assigned on the
command thread) and merged with what each client sent and received."""
import threading
import time
import os

from client import Client
import resp


class ConcRun:
    def __init__(self, server, trace):
        self.server = server
        self.trace = trace
        self.records = {}      # client index -> list of dict(argv, r, t0, t1)
        self.closed_after = {}
        self.nonce = os.urandom(4).hex()

    def marker(self, ci):
        return ('__conn_%d_%s' % (ci, self.nonce)).encode()

    def _client(self, ci, steps, start_evt):
        recs = self.records[ci]
        try:
            cl = Client(self.server.port, timeout=10.0)
        except OSError:
            return
        def one(argv, timeout=None, extra=None):
            t0 = self.trace.now()
            r = cl.call(argv, timeout)
            rec = {'argv': argv, 'r': r, 't0': t0, 't1': self.trace.now() + 1}
            if extra:
                rec['extra'] = extra
            recs.append(rec)
            return r
        one([b'ECHO', self.marker(ci)])
        start_evt.wait()
        for st in steps:
            if cl.closed:
                break
            kind = st[0]
            if kind == 'cmd':
                one(st[1], st[2] if len(st) > 2 else None)
            elif kind == 'eval':      # ('eval', argv, {'prog':..., 'sha':...}): a script of the DSL, program recorded for the spec
                one(st[1], None, st[2])
            elif kind == 'pipe':
                t0 = self.trace.now()
                cl.send_raw(b''.join(resp.enc_cmd(a) for a in st[1]))
                for a in st[1]:
                    r = cl.recv()
                    recs.append({'argv': a, 'r': r, 't0': t0, 't1': self.trace.now() + 1})
            elif kind == 'sleep':
                time.sleep(st[1] / 1000.0)
            elif kind == 'close':
                break
        cl.close()

    def run(self, scripts):
        """scripts: {client index: [steps]}. Returns True when the merge was consistent."""
        self.server.ctl.cmd('LOGON')
        self.server.ctl.drain()
        start = threading.Event()
        ths = []
        for ci, steps in scripts.items():
            self.records[ci] = []
            t = threading.Thread(target=self._client, args=(ci, steps, start))
            t.start()
            ths.append(t)
        time.sleep(0.05)
        start.set()
        for t in ths:
            t.join()
        # every client has closed its socket: let the event loop make full passes so that it has seen the EOFs
        try:
            it0 = int(self.server.ctl.cmd('ITER'))
            deadline = time.monotonic() + 3.0
            while time.monotonic() < deadline and int(self.server.ctl.cmd('ITER')) < it0 + 3:
                time.sleep(0.001)
        except (OSError, ValueError, AttributeError):
            pass
        log = self.server.ctl.drain() if self.server.alive() else []
        self.server.ctl.cmd('LOGOFF') if self.server.alive() else None
        return self.merge(log)

    def merge(self, log):
        conn_of = {}
        # identify connections by their ECHO marker
        for e in log:
            if e['kind'] in ('cmd', 'cmderr') and e['frames']:
                req = e['frames'][0]
                if req.get('t') == 'arr' and len(req['v']) == 2 and bytes(req['v'][0].get('v', [])).upper() == b'ECHO':
                    m = bytes(req['v'][1].get('v', []))
                    for ci in self.records:
                        if m == self.marker(ci):
                            conn_of[e['conn']] = ci
        nxt = {ci: 0 for ci in self.records}
        opened = set()
        consistent = True
        for e in log:
            ci = conn_of.get(e['conn'])
            if ci is None:
                continue
            if e['kind'] in ('cmd', 'cmderr'):
                recs = self.records[ci]
                if nxt[ci] >= len(recs):
                    consistent = False
                    self.trace.emit({'k': 'unsent', 'c': ci, 'seq': e['seq']})
                    continue
                rec = recs[nxt[ci]]
                nxt[ci] += 1
                if ci not in opened:
                    opened.add(ci)
                    self.trace.emit({'k': 'open', 'c': ci})
                req = e['frames'][0]
                sargv = [x.get('v', []) for x in req['v']] if req.get('t') == 'arr' else None
                ev = {'k': 'cmd', 'c': ci, 'argv': [list(a) for a in rec['argv']], 'r': resp.to_json(rec['r']),
                      't0': rec['t0'], 't1': rec['t1'], 'seq': e['seq']}
                if 'extra' in rec:
                    ev.update(rec['extra'])
                if e['kind'] == 'cmd':
                    ev['sr'] = e['frames'][1]
                else:
                    ev['sr'] = {'t': 'handler_err'}
                if sargv != ev['argv']:
                    ev['sargv'] = sargv
                self.trace.emit(ev)
                if rec['r'][0] == 'closed':
                    self.trace.emit({'k': 'dropped', 'c': ci})
            else:
                ev = {'k': e['kind'], 'c': ci, 'frames': e['frames'], 'text': e['text'], 'seq': e['seq']}
                self.trace.emit(ev)
        # requests the server never logged
        for ci, recs in self.records.items():
            for rec in recs[nxt[ci]:]:
                if ci not in opened:
                    opened.add(ci)
                    self.trace.emit({'k': 'open', 'c': ci})
                ev = {'k': 'unlogged', 'c': ci, 'argv': [list(a) for a in rec['argv']],
                      'r': resp.to_json(rec['r']), 't0': rec['t0'], 't1': rec['t1']}
                ev.update(rec.get('extra') or {})
                self.trace.emit(ev)
        for ci in sorted(opened):
            self.trace.emit({'k': 'close', 'c': ci})
            self.trace.emit({'k': 'gone', 'c': ci})
        return consistent
