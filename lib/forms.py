"""The forms catalogue: every syntactic form (command x option combination x argument class) of the data commands the
specification prescribes, over one fixed pre-state with a key of every type.  The server parses and executes a
command on several independent paths (direct dispatch, redis.call inside scripts, queued in MULTI, re-read from the
append-only file, addressed to a numbered database); the per-path checks (C12, C07/C05, C11, C18) run this one
catalogue through their path and let TLC validate reply and dataset, so a path that reads one option differently
from the direct path is a rejection."""


def B(*xs):
    return [x if isinstance(x, bytes) else str(x).encode() for x in xs]


# one key of every type; kt carries a time to live
PRE = [B('SET', 'ks', '10'), B('SET', 'kt', 'text', 'EX', '1000'), B('RPUSH', 'kl', 'a', 'b', 'c', 'b'), B('SADD', 'kS', 'a', 'b', 'c'),
       B('SADD', 'kS2', 'b', 'c', 'd'), B('HSET', 'kh', 'f', '1', 'g', 'x'), B('ZADD', 'kz', '1', 'a', '2', 'b', '3', 'c'),
       B('ZADD', 'kzi', 'inf', 'p', '-inf', 'm', '0', 'z'),
       B('XADD', 'kx', '1-1', 'f', 'v'), B('XADD', 'kx', '2-0', 'g', 'w'),
       # a consumer group on kx positioned at the start, 1-1 delivered to (and pending for) consumer c1
       B('XGROUP', 'CREATE', 'kx', 'grp', '0-0'), B('XREADGROUP', 'GROUP', 'grp', 'c1', 'COUNT', '1', 'STREAMS', 'kx', '>')]

PRE_KEYS = [b'ks', b'kt', b'kl', b'kS', b'kS2', b'kh', b'kz', b'kzi', b'kx']

FORMS = [B(*f) for f in [
    # strings
    ('SET', 'ks', 'v'), ('SET', 'new', 'v'), ('SET', 'kl', 'v'), ('SET', 'kt', 'v'), ('SET', 'ks', 'v', 'EX', '100'), ('SET', 'ks', 'v', 'PX', '90000'),
    ('set', 'ks', 'v', 'ex', '100'), ('SET', 'ks', 'v', 'px', '90000'), ('SET', 'ks', 'v', 'NX'), ('SET', 'new', 'v', 'NX'), ('SET', 'ks', 'v', 'XX'),
    ('SET', 'new', 'v', 'XX'), ('SET', 'new', 'v', 'EX', '100', 'NX'), ('SET', 'new', 'v', 'NX', 'PX', '90000'), ('SET', 'ks', 'v', 'PX', '90000', 'XX'),
    ('SET', 'kt', 'v', 'XX'), ('SET', 'ks', 'v', 'EX', '0'), ('SET', 'ks', 'v', 'PX', '-1'), ('SET', 'ks', 'v', 'EX', 'x'), ('SET', 'ks', 'v', 'NX', 'XX'),
    ('SET', 'ks', 'v', 'EX'), ('SET', 'ks', 'v', 'BOGUS'), ('SET', 'ks'), ('SET', 'ks', ''), ('SET', '', 'v'),
    ('GET', 'ks'), ('GET', 'nokey'), ('GET', 'kl'), ('GET',), ('GET', 'ks', 'kt'),
    ('GETSET', 'ks', 'v'), ('GETSET', 'new', 'v'), ('GETSET', 'kt', 'v'), ('GETSET', 'kl', 'v'),
    ('SETNX', 'ks', 'v'), ('SETNX', 'new', 'v'), ('SETEX', 'ks', '100', 'v'), ('SETEX', 'new', '100', 'v'), ('SETEX', 'ks', '0', 'v'), ('SETEX', 'ks', '-5', 'v'),
    ('SETEX', 'ks', 'x', 'v'), ('PSETEX', 'ks', '90000', 'v'), ('PSETEX', 'new', '90000', 'v'), ('PSETEX', 'ks', '0', 'v'),
    ('APPEND', 'ks', 'xyz'), ('APPEND', 'new', 'xyz'), ('APPEND', 'kt', '!'), ('APPEND', 'kl', 'x'), ('APPEND', 'ks', ''),
    ('STRLEN', 'ks'), ('STRLEN', 'nokey'), ('STRLEN', 'kl'),
    ('INCR', 'ks'), ('INCR', 'new'), ('INCR', 'kt'), ('INCR', 'kl'), ('DECR', 'ks'), ('DECR', 'new'), ('INCRBY', 'ks', '5'), ('INCRBY', 'ks', '-15'),
    ('INCRBY', 'new', '7'), ('INCRBY', 'ks', 'x'), ('INCRBY', 'ks', '9223372036854775807'), ('DECRBY', 'ks', '5'), ('DECRBY', 'ks', '-5'),
    ('DECRBY', 'new', '3'), ('DECRBY', 'ks', '9223372036854775807'),
    ('GETRANGE', 'kt', '0', '-1'), ('GETRANGE', 'kt', '1', '2'), ('GETRANGE', 'kt', '-3', '-2'), ('GETRANGE', 'kt', '2', '1'), ('GETRANGE', 'kt', '0', '100'),
    ('GETRANGE', 'nokey', '0', '-1'), ('GETRANGE', 'kl', '0', '-1'), ('GETRANGE', 'kt', 'x', '1'),
    ('SETRANGE', 'kt', '2', 'XY'), ('SETRANGE', 'kt', '6', 'XY'), ('SETRANGE', 'new', '3', 'x'), ('SETRANGE', 'kt', '0', ''), ('SETRANGE', 'new', '0', ''),
    ('SETRANGE', 'kt', '-1', 'x'), ('SETRANGE', 'kl', '0', 'x'),
    ('MSET', 'ks', '1', 'new', '2'), ('MSET', 'kt', 'x'), ('MSET', 'kl', 'x', 'kl', 'y'), ('MSET', 'ks'), ('MSET', 'ks', '1', 'new'),
    ('MGET', 'ks', 'kt', 'nokey', 'kl'), ('MGET', 'ks'), ('MGET',),
    # keys
    ('DEL', 'ks'), ('DEL', 'ks', 'kl', 'nokey', 'ks'), ('DEL', 'nokey'), ('DEL',), ('EXISTS', 'ks'), ('EXISTS', 'ks', 'ks', 'nokey', 'kl'), ('EXISTS', 'nokey'),
    ('EXPIRE', 'ks', '100'), ('EXPIRE', 'kt', '200'), ('EXPIRE', 'kl', '100'), ('EXPIRE', 'nokey', '100'), ('EXPIRE', 'ks', '0'), ('EXPIRE', 'kl', '-1'),
    ('EXPIRE', 'ks', 'x'), ('PEXPIRE', 'ks', '90000'), ('PEXPIRE', 'kh', '90000'), ('PEXPIRE', 'ks', '0'), ('PEXPIRE', 'nokey', '5'),
    ('TTL', 'kt'), ('TTL', 'ks'), ('TTL', 'nokey'), ('PTTL', 'kt'), ('PTTL', 'ks'), ('PTTL', 'nokey'), ('PERSIST', 'kt'), ('PERSIST', 'ks'), ('PERSIST', 'nokey'),
    ('TYPE', 'ks'), ('TYPE', 'kl'), ('TYPE', 'kS'), ('TYPE', 'kh'), ('TYPE', 'kz'), ('TYPE', 'kx'), ('TYPE', 'nokey'),
    ('RENAME', 'ks', 'new'), ('RENAME', 'ks', 'kl'), ('RENAME', 'kt', 'new'), ('RENAME', 'ks', 'kt'), ('RENAME', 'kl', 'new'), ('RENAME', 'nokey', 'new'),
    ('RENAME', 'ks', 'ks'), ('RENAME', 'kz', 'ks'), ('RENAMENX', 'ks', 'new'), ('RENAMENX', 'ks', 'kl'), ('RENAMENX', 'kt', 'new'), ('RENAMENX', 'nokey', 'new'),
    ('RENAMENX', 'ks', 'ks'),
    ('KEYS', '*'), ('KEYS', 'k?'), ('KEYS', 'k[lS]'), ('KEYS', 'nomatch*'), ('KEYS',),
    # patterns without a glob character (a fast path may take them for one exact name)
    ('KEYS', 'ks'), ('KEYS', 'kt'), ('KEYS', 'kl'), ('KEYS', 'kh'), ('KEYS', 'nokey'), ('KEYS', 'k\\s'), ('SCAN', '0', 'MATCH', 'kt', 'COUNT', '100'), ('SCAN', '0', 'MATCH', 'kz', 'COUNT', '100'), ('DBSIZE',), ('RANDOMKEY',), ('FLUSHDB',), ('FLUSHALL',),
    ('SCAN', '0'), ('SCAN', '0', 'COUNT', '100'), ('SCAN', '0', 'MATCH', 'k?', 'COUNT', '100'), ('SCAN', '0', 'match', 'kS*', 'count', '100'), ('SCAN', 'x'),
    ('ECHO', 'hello'), ('PING',), ('PING', 'msg'),
    # lists
    ('LPUSH', 'kl', 'x'), ('LPUSH', 'kl', 'x', 'y', 'z'), ('LPUSH', 'new', 'x', 'y'), ('LPUSH', 'ks', 'x'), ('LPUSH', 'kl'), ('RPUSH', 'kl', 'x'),
    ('RPUSH', 'kl', 'x', 'y', 'z'), ('RPUSH', 'new', 'x', 'y'), ('RPUSH', 'kS', 'x'), ('LPOP', 'kl'), ('LPOP', 'nokey'), ('LPOP', 'ks'), ('RPOP', 'kl'),
    ('RPOP', 'nokey'), ('RPOP', 'kh'), ('LLEN', 'kl'), ('LLEN', 'nokey'), ('LLEN', 'ks'),
    ('LRANGE', 'kl', '0', '-1'), ('LRANGE', 'kl', '1', '2'), ('LRANGE', 'kl', '-2', '-1'), ('LRANGE', 'kl', '2', '1'), ('LRANGE', 'kl', '-100', '100'),
    ('LRANGE', 'nokey', '0', '-1'), ('LRANGE', 'ks', '0', '-1'), ('LRANGE', 'kl', 'x', '1'),
    ('LINDEX', 'kl', '0'), ('LINDEX', 'kl', '-1'), ('LINDEX', 'kl', '3'), ('LINDEX', 'kl', '4'), ('LINDEX', 'kl', '-5'), ('LINDEX', 'nokey', '0'), ('LINDEX', 'ks', '0'),
    ('LSET', 'kl', '1', 'z'), ('LSET', 'kl', '-1', 'z'), ('LSET', 'kl', '4', 'z'), ('LSET', 'kl', '-5', 'z'), ('LSET', 'nokey', '0', 'z'), ('LSET', 'ks', '0', 'z'),
    ('LTRIM', 'kl', '1', '2'), ('LTRIM', 'kl', '0', '-1'), ('LTRIM', 'kl', '-2', '-1'), ('LTRIM', 'kl', '5', '9'), ('LTRIM', 'kl', '2', '1'), ('LTRIM', 'nokey', '0', '1'),
    ('LTRIM', 'ks', '0', '1'), ('LREM', 'kl', '0', 'b'), ('LREM', 'kl', '1', 'b'), ('LREM', 'kl', '-1', 'b'), ('LREM', 'kl', '0', 'zz'), ('LREM', 'kl', '5', 'b'),
    ('LREM', 'nokey', '0', 'b'), ('LREM', 'ks', '0', 'b'),
    # sets
    ('SADD', 'kS', 'x'), ('SADD', 'kS', 'a', 'x', 'x', 'y'), ('SADD', 'kS', 'a'), ('SADD', 'new', 'x'), ('SADD', 'kl', 'x'), ('SADD', 'kS'),
    ('SREM', 'kS', 'a'), ('SREM', 'kS', 'a', 'zz', 'a'), ('SREM', 'kS', 'a', 'b', 'c'), ('SREM', 'nokey', 'a'), ('SREM', 'kl', 'a'),
    ('SMEMBERS', 'kS'), ('SMEMBERS', 'nokey'), ('SMEMBERS', 'kl'), ('SISMEMBER', 'kS', 'a'), ('SISMEMBER', 'kS', 'zz'), ('SISMEMBER', 'nokey', 'a'),
    ('SISMEMBER', 'kl', 'a'), ('SCARD', 'kS'), ('SCARD', 'nokey'), ('SCARD', 'kl'), ('SPOP', 'kS'), ('SPOP', 'kS', '2'), ('SPOP', 'kS', '5'), ('SPOP', 'kS', '0'),
    ('SPOP', 'nokey'), ('SPOP', 'kl'), ('SRANDMEMBER', 'kS'), ('SRANDMEMBER', 'kS', '2'), ('SRANDMEMBER', 'kS', '-5'), ('SRANDMEMBER', 'kS', '9'),
    ('SRANDMEMBER', 'nokey'), ('SUNION', 'kS', 'kS2'), ('SUNION', 'kS', 'nokey'), ('SUNION', 'kS', 'kl'), ('SINTER', 'kS', 'kS2'), ('SINTER', 'kS', 'nokey'),
    ('SINTER', 'kS'), ('SDIFF', 'kS', 'kS2'), ('SDIFF', 'kS2', 'kS'), ('SDIFF', 'kS', 'nokey'), ('SDIFF', 'nokey', 'kS'), ('SSCAN', 'kS', '0'),
    ('SSCAN', 'kS', '0', 'MATCH', 'a*', 'COUNT', '100'),
    # hashes
    ('HSET', 'kh', 'h', '1'), ('HSET', 'kh', 'f', '2'), ('HSET', 'kh', 'a', '1', 'b', '2', 'f', '3'), ('HSET', 'new', 'f', 'v'), ('HSET', 'kl', 'f', 'v'),
    ('HSET', 'kh', 'f'), ('HSET', 'kh', 'a', '1', 'b'), ('HMSET', 'kh', 'a', '1', 'f', '9'), ('HMSET', 'new', 'a', '1'), ('HMSET', 'kh', 'a'),
    ('HGET', 'kh', 'f'), ('HGET', 'kh', 'nof'), ('HGET', 'nokey', 'f'), ('HGET', 'kl', 'f'), ('HMGET', 'kh', 'f', 'nof', 'g', 'f'), ('HMGET', 'nokey', 'f'),
    ('HMGET', 'kl', 'f'), ('HGETALL', 'kh'), ('HGETALL', 'nokey'), ('HGETALL', 'ks'), ('HKEYS', 'kh'), ('HVALS', 'kh'), ('HLEN', 'kh'), ('HLEN', 'nokey'),
    ('HEXISTS', 'kh', 'f'), ('HEXISTS', 'kh', 'nof'), ('HEXISTS', 'nokey', 'f'), ('HDEL', 'kh', 'f'), ('HDEL', 'kh', 'f', 'nof', 'f'), ('HDEL', 'kh', 'f', 'g'),
    ('HDEL', 'nokey', 'f'), ('HDEL', 'kl', 'f'), ('HINCRBY', 'kh', 'f', '5'), ('HINCRBY', 'kh', 'f', '-5'), ('HINCRBY', 'kh', 'newf', '3'), ('HINCRBY', 'new', 'f', '3'),
    ('HINCRBY', 'kh', 'g', '1'), ('HINCRBY', 'kh', 'f', 'x'), ('HINCRBY', 'kl', 'f', '1'), ('HSCAN', 'kh', '0'), ('HSCAN', 'kh', '0', 'MATCH', 'f*', 'COUNT', '100'),
    # sorted sets
    ('ZADD', 'kz', '4', 'd'), ('ZADD', 'kz', '5', 'a'), ('ZADD', 'kz', '1', 'a'), ('ZADD', 'kz', '1.5', 'e', '2.5', 'f', '0', 'a'), ('ZADD', 'kz', 'inf', 'g'),
    ('ZADD', 'kz', '-inf', 'h'), ('ZADD', 'kz', '-0.25', 'n'), ('ZADD', 'new', '1', 'a'), ('ZADD', 'kl', '1', 'a'), ('ZADD', 'kz', 'x', 'a'), ('ZADD', 'kz', 'nan', 'a'),
    ('ZADD', 'kz', '1'), ('ZADD', 'kz', '1', 'p', '2'), ('ZADD', 'kz', '7', 'same', '8', 'same'),
    ('ZREM', 'kz', 'a'), ('ZREM', 'kz', 'a', 'zz', 'a'), ('ZREM', 'kz', 'a', 'b', 'c'), ('ZREM', 'nokey', 'a'), ('ZREM', 'kl', 'a'),
    ('ZSCORE', 'kz', 'a'), ('ZSCORE', 'kz', 'zz'), ('ZSCORE', 'nokey', 'a'), ('ZSCORE', 'kl', 'a'), ('ZCARD', 'kz'), ('ZCARD', 'nokey'), ('ZCARD', 'kl'),
    ('ZRANK', 'kz', 'b'), ('ZRANK', 'kz', 'zz'), ('ZRANK', 'nokey', 'a'), ('ZREVRANK', 'kz', 'a'), ('ZREVRANK', 'kz', 'zz'),
    ('ZINCRBY', 'kz', '2.5', 'a'), ('ZINCRBY', 'kz', '-10', 'b'), ('ZINCRBY', 'kz', '1', 'newm'), ('ZINCRBY', 'new', '1', 'm'), ('ZINCRBY', 'kz', 'x', 'a'),
    ('ZINCRBY', 'kl', '1', 'a'), ('ZINCRBY', 'kz', 'inf', 'a'),
    ('ZRANGE', 'kz', '0', '-1'), ('ZRANGE', 'kz', '0', '-1', 'WITHSCORES'), ('ZRANGE', 'kz', '1', '1', 'withscores'), ('ZRANGE', 'kz', '-2', '-1'),
    ('ZRANGE', 'kz', '2', '1'), ('ZRANGE', 'nokey', '0', '-1'), ('ZRANGE', 'kl', '0', '-1'), ('ZRANGE', 'kz', 'x', '1'),
    ('ZREVRANGE', 'kz', '0', '-1'), ('ZREVRANGE', 'kz', '0', '1', 'WITHSCORES'), ('ZREVRANGE', 'kz', '-1', '-1'), ('ZREVRANGE', 'nokey', '0', '-1'),
    ('ZRANGEBYSCORE', 'kz', '1', '2'), ('ZRANGEBYSCORE', 'kz', '-inf', '+inf'), ('ZRANGEBYSCORE', 'kz', '-inf', 'inf', 'WITHSCORES'), ('ZRANGEBYSCORE', 'kz', '2.5', '10'),
    ('ZRANGEBYSCORE', 'kz', '3', '1'), ('ZRANGEBYSCORE', 'nokey', '0', '1'), ('ZRANGEBYSCORE', 'kl', '0', '1'), ('ZRANGEBYSCORE', 'kz', 'x', '1'),
    ('ZREVRANGEBYSCORE', 'kz', '3', '1'), ('ZREVRANGEBYSCORE', 'kz', '+inf', '-inf', 'WITHSCORES'), ('ZREVRANGEBYSCORE', 'kz', '1', '3'), ('ZREVRANGEBYSCORE', 'nokey', '1', '0'),
    ('ZCOUNT', 'kz', '1', '2'), ('ZCOUNT', 'kz', '-inf', '+inf'), ('ZCOUNT', 'kz', '5', '9'), ('ZCOUNT', 'nokey', '0', '1'), ('ZCOUNT', 'kl', '0', '1'),
    ('ZPOPMIN', 'kz'), ('ZPOPMIN', 'kz', '2'), ('ZPOPMIN', 'kz', '9'), ('ZPOPMIN', 'nokey'), ('ZPOPMIN', 'kl'), ('ZPOPMAX', 'kz'), ('ZPOPMAX', 'kz', '2'),
    ('ZPOPMAX', 'kz', '3'), ('ZPOPMAX', 'nokey'), ('ZSCAN', 'kz', '0'), ('ZSCAN', 'kz', '0', 'MATCH', 'a*', 'COUNT', '100'),
    # streams
    ('XADD', 'kx', '5-1', 'f', 'v'), ('XADD', 'kx', '2-0', 'f', 'v'), ('XADD', 'kx', '1-0', 'f', 'v'), ('XADD', 'new', '1-1', 'a', '1', 'b', '2'), ('XADD', 'kx', '*', 'f', 'v'),
    ('XADD', 'kl', '9-9', 'f', 'v'), ('XADD', 'kx', '9-9', 'f'), ('XADD', 'kx', '0-0', 'f', 'v'), ('XLEN', 'kx'), ('XLEN', 'nokey'), ('XLEN', 'kl'),
    ('XRANGE', 'kx', '-', '+'), ('XRANGE', 'kx', '1-1', '1-1'), ('XRANGE', 'kx', '-', '+', 'COUNT', '1'), ('XRANGE', 'kx', '2-0', '+'), ('XRANGE', 'nokey', '-', '+'),
    ('XRANGE', 'kl', '-', '+'), ('XREVRANGE', 'kx', '+', '-'), ('XREVRANGE', 'kx', '+', '-', 'COUNT', '1'), ('XREVRANGE', 'kx', '1-1', '-'),
    ('XDEL', 'kx', '1-1'), ('XDEL', 'kx', '1-1', '7-7', '1-1'), ('XDEL', 'kx', '1-1', '2-0'), ('XDEL', 'nokey', '1-1'), ('XDEL', 'kl', '1-1'),
    ('XTRIM', 'kx', 'MAXLEN', '1'), ('XTRIM', 'kx', 'MAXLEN', '0'), ('XTRIM', 'kx', 'MAXLEN', '5'), ('XTRIM', 'nokey', 'MAXLEN', '1'),
    ('XRANGE', 'kx', '-', '+', 'COUNT', '2147483647'), ('XRANGE', 'kx', '-', '+', 'COUNT', '9223372036854775807'), ('XREVRANGE', 'kx', '+', '-', 'COUNT', '4294967296'),
    ('XREVRANGE', 'kx', '+', '-', 'COUNT', '9223372036854775807'), ('XREAD', 'COUNT', '9223372036854775807', 'STREAMS', 'kx', '0-0'),
    ('XREAD', 'STREAMS', 'kx', '0-0'), ('XREAD', 'COUNT', '1', 'STREAMS', 'kx', '0-0'), ('XREAD', 'STREAMS', 'kx', '2-0'), ('XREAD', 'STREAMS', 'kx', '1-1'),
    # consumer groups (group grp on kx: 1-1 pending for c1, 2-0 not yet delivered)
    ('XREADGROUP', 'GROUP', 'grp', 'c2', 'STREAMS', 'kx', '>'), ('XREADGROUP', 'GROUP', 'grp', 'c2', 'COUNT', '1', 'STREAMS', 'kx', '>'),
    ('XREADGROUP', 'GROUP', 'grp', 'c2', 'NOACK', 'STREAMS', 'kx', '>'), ('XREADGROUP', 'GROUP', 'grp', 'c1', 'COUNT', '5', 'NOACK', 'STREAMS', 'kx', '>'),
    ('XREADGROUP', 'group', 'grp', 'c2', 'count', '1', 'noack', 'streams', 'kx', '>'), ('XREADGROUP', 'GROUP', 'grp', 'c1', 'STREAMS', 'kx', '0-0'),
    ('XREADGROUP', 'GROUP', 'grp', 'c2', 'STREAMS', 'kx', '0-0'), ('XREADGROUP', 'GROUP', 'nogroup', 'c1', 'STREAMS', 'kx', '>'),
    ('XREADGROUP', 'GROUP', 'grp', 'c1', 'STREAMS', 'nokey', '>'), ('XREADGROUP', 'GROUP', 'grp', 'c1', 'STREAMS', 'kl', '>'), ('XREADGROUP', 'GROUP', 'grp', 'c1', 'STREAMS', 'kx'),
    ('XACK', 'kx', 'grp', '1-1'), ('XACK', 'kx', 'grp', '1-1', '1-1', '2-0'), ('XACK', 'kx', 'grp', '9-9'), ('XACK', 'kx', 'nogroup', '1-1'), ('XACK', 'nokey', 'grp', '1-1'),
    ('XACK', 'kl', 'grp', '1-1'), ('XACK', 'kx', 'grp'), ('XACK', 'kx', 'grp', 'x'),
    ('XCLAIM', 'kx', 'grp', 'c2', '0', '1-1'), ('XCLAIM', 'kx', 'grp', 'c2', '0', '1-1', 'JUSTID'), ('XCLAIM', 'kx', 'grp', 'c2', '0', '1-1', 'justid'),
    ('XCLAIM', 'kx', 'grp', 'c2', '0', '2-0'), ('XCLAIM', 'kx', 'grp', 'c2', '0', '2-0', 'FORCE'), ('XCLAIM', 'kx', 'grp', 'c2', '0', '2-0', 'FORCE', 'JUSTID'),
    ('XCLAIM', 'kx', 'grp', 'c1', '0', '1-1'), ('XCLAIM', 'kx', 'grp', 'c2', '0', '1-1', '2-0', '9-9'), ('XCLAIM', 'kx', 'grp', 'c2', '999999999', '1-1'),
    ('XCLAIM', 'kx', 'nogroup', 'c2', '0', '1-1'), ('XCLAIM', 'nokey', 'grp', 'c2', '0', '1-1'), ('XCLAIM', 'kx', 'grp', 'c2', 'x', '1-1'), ('XCLAIM', 'kx', 'grp', 'c2', '0'),
    ('XPENDING', 'kx', 'grp'), ('XPENDING', 'kx', 'grp', '-', '+', '10'), ('XPENDING', 'kx', 'grp', '-', '+', '10', 'c1'), ('XPENDING', 'kx', 'grp', '-', '+', '10', 'c2'),
    ('XPENDING', 'kx', 'grp', '2-0', '+', '10'), ('XPENDING', 'kx', 'grp', '-', '+', '0'), ('XPENDING', 'kx', 'nogroup'), ('XPENDING', 'nokey', 'grp'), ('XPENDING', 'kl', 'grp'),
    ('XPENDING', 'kx', 'grp', '-', '+'), ('XPENDING', 'kx', 'grp', '-', '+', 'x'), ('XPENDING', 'kx'),
    ('XGROUP', 'CREATE', 'kx', 'g2', '$'), ('XGROUP', 'CREATE', 'kx', 'g2', '0-0'), ('XGROUP', 'CREATE', 'kx', 'g2', '1-1'), ('XGROUP', 'CREATE', 'kx', 'grp', '$'),
    ('XGROUP', 'CREATE', 'new', 'g2', '$'), ('XGROUP', 'CREATE', 'new', 'g2', '$', 'MKSTREAM'), ('XGROUP', 'create', 'new', 'g2', '0-0', 'mkstream'), ('XGROUP', 'CREATE', 'kl', 'g2', '$'),
    ('XGROUP', 'CREATE', 'kx', 'g2', 'bad'), ('XGROUP', 'DESTROY', 'kx', 'grp'), ('XGROUP', 'DESTROY', 'kx', 'nogroup'), ('XGROUP', 'DESTROY', 'nokey', 'grp'),
    ('XGROUP', 'SETID', 'kx', 'grp', '$'), ('XGROUP', 'SETID', 'kx', 'grp', '0-0'), ('XGROUP', 'SETID', 'kx', 'nogroup', '$'), ('XGROUP', 'DELCONSUMER', 'kx', 'grp', 'c1'),
    ('XGROUP', 'DELCONSUMER', 'kx', 'grp', 'c9'), ('XGROUP', 'CREATECONSUMER', 'kx', 'grp', 'c2'), ('XGROUP', 'CREATECONSUMER', 'kx', 'grp', 'c1'), ('XGROUP', 'BOGUS', 'kx', 'grp'),
    ('XGROUP',), ('XDEL', 'kx', '1-1'), ('XADD', 'kx', '7-7', 'h', 'x'),
    # counts of exactly one (an array, where the form without a count answers a bulk string), popping a set / sorted set empty
    ('SPOP', 'kS', '1'), ('SRANDMEMBER', 'kS', '1'), ('SRANDMEMBER', 'kS', '-1'), ('SPOP', 'kS', '3'), ('ZPOPMIN', 'kz', '1'), ('ZPOPMAX', 'kz', '1'), ('SRANDMEMBER', 'nokey', '1'),
    ('SPOP', 'nokey', '1'),
    # infinite scores: sums that are not a number are refused on every path, sums that stay infinite are not
    ('ZINCRBY', 'kzi', '-inf', 'p'), ('ZINCRBY', 'kzi', 'inf', 'm'), ('ZINCRBY', 'kzi', 'inf', 'p'), ('ZINCRBY', 'kzi', '-inf', 'm'), ('ZINCRBY', 'kzi', 'inf', 'z'),
    ('ZINCRBY', 'kzi', '5', 'p'), ('ZADD', 'kzi', '-inf', 'p'), ('ZRANGEBYSCORE', 'kzi', '-inf', '+inf', 'WITHSCORES'), ('ZCOUNT', 'kzi', '-inf', '+inf'), ('ZREM', 'kzi', 'p'),
    # trailing arguments of range reads
    ('XRANGE', 'kx', '-', '+', 'COUNT'), ('XRANGE', 'kx', '-', '+', 'JUNK', '1'), ('XREVRANGE', 'kx', '+', '-', 'COUNT'), ('XRANGE', 'kx', '-', '+', 'COUNT', 'x'),
    # blocking pops: answered at once when a list has something, nil at once inside EXEC, refused in scripts, nil after the time-out directly
    ('BLPOP', 'kl', '0.01'), ('BRPOP', 'kl', '0.02'), ('BLPOP', 'nokey', 'kl', '0.01'), ('BRPOP', 'nokey', 'new', 'kl', '0.01'), ('BLPOP', 'nokey', '0.01'), ('BRPOP', 'nokey', 'new', '0.01'),
    ('BLPOP', 'ks', '0.01'), ('BLPOP', 'nokey', 'ks', '0.01'), ('BLPOP', 'kl', '-1'), ('BLPOP', 'kl', 'x'), ('BLPOP', 'kl'),
]]

# commands only the script executor implements (spec/Extras.tla): run through the script paths (and directly, where the
# reference — and ferrous — answer "unknown command")
EXTRA_FORMS = [B(*f) for f in [
    ('GETBIT', 'ks', '0'), ('GETBIT', 'ks', '2'), ('GETBIT', 'ks', '7'), ('GETBIT', 'ks', '15'), ('GETBIT', 'ks', '16'), ('GETBIT', 'ks', '100'), ('GETBIT', 'nokey', '0'),
    ('GETBIT', 'kl', '0'), ('GETBIT', 'ks', '-1'), ('GETBIT', 'ks', 'x'), ('GETBIT', 'ks', '4294967296'), ('GETBIT', 'ks', '4294967295'), ('GETBIT', 'ks'),
    ('SETBIT', 'ks', '7', '1'), ('SETBIT', 'ks', '7', '0'), ('SETBIT', 'ks', '0', '1'), ('SETBIT', 'ks', '2', '0'), ('SETBIT', 'ks', '20', '1'), ('SETBIT', 'ks', '39', '0'),
    ('SETBIT', 'new', '9', '1'), ('SETBIT', 'new', '0', '0'), ('SETBIT', 'kt', '6', '1'), ('SETBIT', 'kl', '0', '1'), ('SETBIT', 'ks', '-1', '1'), ('SETBIT', 'ks', '0', '2'),
    ('SETBIT', 'ks', 'x', '1'), ('SETBIT', 'ks', '4294967296', '1'), ('SETBIT', 'ks', '7'), ('SETBIT', 'ks', '0', ''),
    ('BITCOUNT', 'ks'), ('BITCOUNT', 'kt'), ('BITCOUNT', 'nokey'), ('BITCOUNT', 'kl'), ('BITCOUNT', 'kt', '0', '0'), ('BITCOUNT', 'kt', '1', '2'), ('BITCOUNT', 'kt', '-2', '-1'),
    ('BITCOUNT', 'kt', '2', '1'), ('BITCOUNT', 'kt', '0', '100'), ('BITCOUNT', 'kt', '-100', '-50'), ('BITCOUNT', 'kt', '0'), ('BITCOUNT', 'kt', 'x', '1'), ('BITCOUNT', 'kt', '3', '1'),
    ('BITCOUNT', 'kt', '-1', '0'), ('BITCOUNT', 'kt', '-1', '-2'), ('BITCOUNT', 'nokey', '0', '-1'), ('BITCOUNT', 'kt', '0', '-1'),
    ('ZREMRANGEBYRANK', 'kz', '0', '0'), ('ZREMRANGEBYRANK', 'kz', '0', '-1'), ('ZREMRANGEBYRANK', 'kz', '1', '1'), ('ZREMRANGEBYRANK', 'kz', '-1', '-1'),
    ('ZREMRANGEBYRANK', 'kz', '2', '1'), ('ZREMRANGEBYRANK', 'kz', '5', '9'), ('ZREMRANGEBYRANK', 'kz', '-100', '0'), ('ZREMRANGEBYRANK', 'nokey', '0', '-1'),
    ('ZREMRANGEBYRANK', 'kl', '0', '-1'), ('ZREMRANGEBYRANK', 'kz', 'x', '1'), ('ZREMRANGEBYRANK', 'kz', '0'),
    ('ZREMRANGEBYSCORE', 'kz', '1', '2'), ('ZREMRANGEBYSCORE', 'kz', '-inf', '+inf'), ('ZREMRANGEBYSCORE', 'kz', '2.5', '10'), ('ZREMRANGEBYSCORE', 'kz', '3', '1'),
    ('ZREMRANGEBYSCORE', 'kz', '2', '2'), ('ZREMRANGEBYSCORE', 'nokey', '0', '1'), ('ZREMRANGEBYSCORE', 'kl', '0', '1'), ('ZREMRANGEBYSCORE', 'kz', 'x', '1'),
    ('ZREMRANGEBYSCORE', 'kz', 'nan', '1'), ('ZREMRANGEBYSCORE', 'kz', '1'),
]]


def form_name(a):
    return b' '.join(a)[:60].decode('latin1')
