"""Run the forms catalogue (lib/forms.py) through one execution path of the server, one independent segment per form:
  direct      the command as sent by a client
  script-lit  redis.call with literal arguments          script-keys  redis.call with KEYS[1] / ARGV[i]
  script-pcall redis.pcall with literal arguments        multi        MULTI / form / EXEC
  script-sha  SCRIPT LOAD, then EVALSHA with KEYS[1] / ARGV[i]
  multi-script MULTI / EVAL of the form / EXEC
  script-pcall-then / script-call-then   the form through redis.pcall / redis.call followed by a second statement
Every segment: fresh dataset (forms.PRE, in database `db`; the same key names with other values in database `odb`),
the form through the path, a dump of both databases.  The segments of a trace are validated independently by TLC."""
import time
import forms
import luadsl as L
import workloads
from session import ServerDied

OTHER = [[b'SET', b'ks', b'other'], [b'RPUSH', b'kl', b'o1'], [b'SET', b'new', b'other-new'], [b'SADD', b'kS', b'o'], [b'ZADD', b'kz', b'9', b'o'],
         [b'HSET', b'kh', b'f', b'o'], [b'SET', b'kt', b'other-t']]


def eval_prog(s, c, prog, keys, args, bysha=False):
    """EVAL (or SCRIPT LOAD + EVALSHA) of a DSL program; the program is recorded next to the request."""
    src = L.render(prog)
    prev = s.enrich

    def enrich(ev):
        ev['prog'] = L.clean(prog)
        ev['sha'] = list(L.sha1hex(src))
        if prev:
            prev(ev)
    s.enrich = enrich
    try:
        if bysha:
            s.cmd(c, [b'SCRIPT', b'LOAD', src])
            return s.cmd(c, [b'EVALSHA', L.sha1hex(src), str(len(keys)).encode()] + keys + args)
        return s.cmd(c, [b'EVAL', src, str(len(keys)).encode()] + keys + args)
    finally:
        s.enrich = prev


def eval_form(s, c, a, style, pcall, bysha=False):
    if style == 'lit' or len(a) < 2:
        prog, keys, args = [L.call([L.arg_lit(x) for x in a], ret=1, pcall=pcall)], [], []
    else:
        keys, args = [a[1]], list(a[2:])
        prog = [L.call([L.arg_lit(a[0]), L.arg_key(1)] + [L.arg_arg(i + 1) for i in range(len(args))], ret=1, pcall=pcall)]
    return eval_prog(s, c, prog, keys, args, bysha)


def run_forms(s, path, db=0, odb=None, subset=None, prefix='form', reset=True, ttl=None):
    """Emit one segment per form into the session's trace; returns the number of segments."""
    n = 0
    for a in (subset if subset is not None else forms.FORMS):
        if path.endswith('-then') and a[0].upper() == b'XADD' and len(a) > 2 and a[2] == b'*':
            continue      # an auto-generated id is only learnt from the reply of the returning call
        for cid in list(s.clients):
            s.close(cid)
        if reset:
            s.trace.emit({'k': 'reset'})
        s.note('%s/%s%s/db%d/%s' % (prefix, path, '+ttl-' + ttl if ttl else '', db, forms.form_name(a)))
        c = s.open()
        s.cmd(c, [b'FLUSHALL'])
        if odb is not None:
            s.cmd(c, [b'SELECT', str(odb).encode()])
            for p in OTHER:
                s.cmd(c, p)
        if db or odb is not None:
            s.cmd(c, [b'SELECT', str(db).encode()])
        for p in forms.PRE:
            s.cmd(c, p)
        if ttl == 'live':         # every key carries a time to live that lies far ahead
            for k in forms.PRE_KEYS:
                s.cmd(c, [b'PEXPIRE', k, b'100000'])
        elif ttl == 'passed':     # every key's deadline has passed by the time the form runs (swept or not)
            for k in forms.PRE_KEYS:
                s.cmd(c, [b'PEXPIRE', k, b'25'])
            time.sleep(0.04)
        watcher = None
        if path.startswith('watched'):
            # C08: another connection watches the keys of the pre-state (plus names the forms create) before the form runs —
            # 'watched-others-*': only the keys the form does NOT name — and then tries a transaction of its own
            watcher = s.open()
            if db:
                s.cmd(watcher, [b'SELECT', str(db).encode()])
            names = forms.PRE_KEYS + [b'new', b'nokey', b'']
            if path.startswith('watched-others'):
                names = [k for k in names if k not in a[1:]]
                if a[0].upper() in (b'FLUSHDB', b'FLUSHALL', b'RANDOMKEY', b'KEYS', b'SCAN', b'DBSIZE'):
                    names = [b'never-created']
            s.cmd(watcher, [b'WATCH'] + names)
            how = path.split('-')[-1]
            if how == 'direct':
                s.cmd(c, a)
            elif how == 'multi':
                s.cmd(c, [b'MULTI'])
                s.cmd(c, a)
                s.cmd(c, [b'EXEC'])
            else:
                eval_form(s, c, a, 'lit', how == 'pcall')
            if watcher in s.clients:
                s.cmd(watcher, [b'MULTI'])
                s.cmd(watcher, [b'SET', b'marker', b'1'])
                s.cmd(watcher, [b'EXEC'])
                s.cmd(watcher, [b'EXISTS', b'marker'])
        elif path == 'direct':
            s.cmd(c, a)
        elif path == 'multi':
            s.cmd(c, [b'MULTI'])
            s.cmd(c, a)
            s.cmd(c, [b'EXEC'])
        elif path == 'script-pcall-then':
            # a failing redis.pcall must not end the script: the statement behind it runs and its reply comes back
            prog = [L.call([L.arg_lit(x) for x in a], ret=0, pcall=True),
                    L.call([L.arg_lit(b'SET'), L.arg_lit(b'marker'), L.arg_lit(b'1')], ret=1)]
            eval_prog(s, c, prog, [], [])
        elif path == 'script-call-then':
            # a failing redis.call ends the script: the statement behind it does not run
            prog = [L.call([L.arg_lit(x) for x in a], ret=0, pcall=False),
                    L.call([L.arg_lit(b'SET'), L.arg_lit(b'marker'), L.arg_lit(b'1')], ret=1)]
            eval_prog(s, c, prog, [], [])
        elif path == 'multi-script':
            s.cmd(c, [b'MULTI'])
            eval_form(s, c, a, 'keys', False)
            s.cmd(c, [b'EXEC'])
        elif path.startswith('script-'):
            eval_form(s, c, a, 'keys' if path in ('script-keys', 'script-sha') else 'lit', path == 'script-pcall', path == 'script-sha')
        else:
            raise ValueError(path)
        if c not in s.clients:
            c = s.open()
            if db:
                s.cmd(c, [b'SELECT', str(db).encode()])
        workloads.dump_db(s, c)
        if a and a[0][:1].upper() == b'X' and c in s.clients:
            # the consumer-group side of the stream is not part of the dump: read back the pending entries
            s.cmd(c, [b'XPENDING', b'kx', b'grp'])
            s.cmd(c, [b'XPENDING', b'kx', b'grp', b'-', b'+', b'100'])
            s.cmd(c, [b'XREADGROUP', b'GROUP', b'grp', b'audit', b'COUNT', b'10', b'STREAMS', b'kx', b'>'])
        if odb is not None:
            s.cmd(c, [b'SELECT', str(odb).encode()])
            workloads.dump_db(s, c)
        n += 1
    return n
