"""Behaviour generation (spec -> implementation): run a bounded instance with Gen = TRUE and
collect the command paths TLC prints, one per transition of the state graph."""
import json
import os
import re
import tlc

GEN_RE = re.compile(r'<<\s*"GEN",\s*"(.*?)"\s*>>', re.S)


def generate_paths(ctx, module, cfg, timeout=900, limit=None, conn_paths=False):
    cfgp = os.path.join(tlc.SPEC, 'mc', cfg + '.cfg')
    wd = os.path.join(ctx.out, 'gen-' + cfg)
    rc, out, wall = tlc.run_tlc(os.path.join('mc', module), cfgp, wd, workers=1, timeout=timeout, xmx='8g')
    if 'No error has been found' not in out:
        open(os.path.join(wd, 'tlc.out'), 'w').write(out)
        raise RuntimeError('generation run of %s failed (rc=%s): %s' % (cfg, rc, out[-1500:]))
    gen, dist = tlc.parse_stats(out)
    ctx.mc_states += dist
    ctx.mc_transitions += gen
    ctx.mc_runs.append({'module': module, 'cfg': cfg, 'states': dist, 'transitions': gen, 'wall_s': round(wall, 1),
                        'purpose': 'behaviour generation'})
    paths = []
    for m in GEN_RE.finditer(out):
        p = json.loads(m.group(1).replace('\\"', '"'))
        if conn_paths:
            paths.append([(st[0], [bytes(x) for x in st[1]]) for st in p])
        else:
            paths.append([[bytes(x) for x in cmd] for cmd in p])
    if limit and len(paths) > limit:
        step = len(paths) / float(limit)
        paths = [paths[int(i * step)] for i in range(limit)]
    return paths
