"""Random command generators for streams (C15) and consumer groups (C16).

The two inputs that used to kill the server process (XADD key * at the greatest possible id; XPENDING with
start > end) are generated like any other since their repair (known_findings F070, F082).
"""
from workloads import Pool

U64 = '18446744073709551615'
MAXID = (U64 + '-' + U64).encode()


def idkey(b):
    """sortable value of an id / bound given as bytes (None if it is not of the plain ms-seq form)"""
    if b == b'-':
        return (-1, -1)
    if b == b'+':
        return (1 << 70, 0)
    try:
        ms, seq = b.split(b'-')
        return (int(ms), int(seq))
    except ValueError:
        return None


class StreamGen(Pool):
    """C15 traffic: explicit ids from a small colliding set, auto ids, bounds below / inside / between / above the
    stored ids, COUNT, XDEL / XTRIM down to emptied streams, wrong types, a few malformed ids and arities."""

    def __init__(self, rnd):
        Pool.__init__(self, rnd)
        self.keys = [b's1', b's1', b's1', b's2', b's\xff', b'str', b'nokey']
        self.ids = [b'0-1', b'1-0', b'1-1', b'2-0', b'5-3', MAXID]
        self.bounds = [b'-', b'+', b'0-0', b'0-1', b'0-2', b'1-0', b'1-1', b'1-2', b'2-0', b'3-0', b'5-2', b'5-3', b'5-4',
                       b'9-9', b'1700000000000-0', b'9999999999999-0', MAXID, U64.encode() + b'-0']
        self.badids = [b'abc', b'1-x', b'', b'1-', b'-1', b'18446744073709551616-0', b'x-1']
        self.fs = [b'a', b'b', b'c', b'', b'f\xff', b'temp']
        self.vs = [b'1', b'2', b'', b'x y', b'\x00\xff', b'v' * 20, b'-1']
        self.n = 0
        self.nostar = set()      # keys whose last id may be the greatest possible id
        self.t = 0

    def fields(self):
        r = self.rnd
        n = r.choice([1, 1, 1, 2, 2, 3])
        out = []
        for _ in range(n):
            out += [r.choice(self.fs), r.choice(self.vs)]
        if n > 1 and r.random() < 0.15:      # a repeated field name
            out[2] = out[0]
        return out

    def xid(self):
        r = self.rnd
        x = r.random()
        if x < 0.04:
            return r.choice(self.badids)
        if x < 0.07:
            return MAXID
        if x < 0.12:      # ahead of the wall clock: later auto ids must continue from it
            return self.rnd.choice([b'9999999999999-0', b'9999999999999-5', b'18446744073709551615-3'])
        if x < 0.30:      # ascending ids so that streams actually grow
            self.t += r.choice([0, 0, 1, 1, 2])
            return b'%d-%d' % (6 + self.t // 3, self.t % 3)
        return r.choice(self.ids[:5])

    def bound(self):
        if self.rnd.random() < 0.03:
            return self.rnd.choice(self.badids)
        return self.rnd.choice(self.bounds)

    def count(self):
        # legal counts far beyond any stream's length too: a count is a limit, never a size to reserve
        return self.rnd.choice([b'0', b'1', b'1', b'2', b'2', b'3', b'10', b'100', b'-1', b'x', b'65536', b'2147483647', b'4294967296', b'9223372036854775807'])

    def next(self):
        r = self.rnd
        self.n += 1
        if self.n == 1:
            return [b'SET', b'str', b'v']
        k = self.key()
        c = r.randrange(60)
        if c < 12:
            i = self.xid()
            if i == MAXID:
                self.nostar.add(k)
            return [b'XADD', k, i] + self.fields()
        if c < 19:
            return [b'XADD', k, b'*'] + self.fields()
        if c < 22:
            return [b'XLEN', k]
        if c < 34:
            a = [r.choice([b'XRANGE', b'XREVRANGE', b'xrange']), k, self.bound(), self.bound()]
            if r.random() < 0.2:
                a[2:4] = [b'-', b'+'] if a[0].upper() == b'XRANGE' else [b'+', b'-']
            if r.random() < 0.4:
                a += [r.choice([b'COUNT', b'count']), self.count()]
            return a
        if c < 42:
            a = [b'XREAD']
            if r.random() < 0.4:
                a += [b'COUNT', self.count()]
            ks = [k] + [self.key() for _ in range(r.choice([0, 0, 0, 1, 2]))]
            ids = [r.choice([b'$', b'0-0', self.bound(), self.bound()]) for _ in ks]
            ids = [b'0-0' if i in (b'-', b'+') else i for i in ids]
            return a + [r.choice([b'STREAMS', b'streams'])] + ks + ids
        if c < 47:
            return [b'XDEL', k] + [r.choice(self.ids + self.bounds[2:] + self.badids[:1]) for _ in range(r.randrange(1, 4))]
        if c < 51:
            return [b'XTRIM', k, r.choice([b'MAXLEN', b'maxlen']), r.choice([b'0', b'1', b'2', b'3', b'5', b'100', b'-1', b'x'])]
        if c == 51:
            if r.random() < 0.5:
                self.nostar.discard(k)
                return [b'DEL', k]
            return [b'XDEL', k, b'1-0', b'1-0']
        if c == 52:
            return [r.choice([b'TYPE', b'EXISTS']), k]
        if c == 53:
            return r.choice([[b'XADD', k, b'1-0'], [b'XADD', k, b'1-0', b'a'], [b'XADD', k], [b'XLEN'], [b'XLEN', k, k],
                             [b'XRANGE', k, b'-'], [b'XRANGE', k, b'-', b'+', b'COUNT'], [b'XREAD', b'STREAMS', k],
                             [b'XREAD', b'COUNT', b'1', k, b'0-0'], [b'XDEL', k], [b'XTRIM', k, b'MAXLEN'],
                             [b'XTRIM', k, b'BOGUS', b'1'], [b'XREAD', b'STREAMS', k, k, b'0-0'],
                             [b'XRANGE', k, b'-', b'+', b'BOGUS', b'1']])
        if c == 54:
            return [b'XREAD', b'STREAMS', k, r.choice([b'$', b'0-0'])]
        if c == 55:
            return [b'XRANGE', k, b'-', b'+']
        if c == 56:
            return [b'XREVRANGE', k, b'+', b'-', b'COUNT', r.choice([b'1', b'2'])]
        if c == 57:
            return [b'XTRIM', k, b'MAXLEN', b'0']
        return [b'XADD', k, b'*'] + self.fields()


class GroupGen(Pool):
    """C16 traffic: several consumers in several groups reading with and without COUNT / NOACK, acknowledging
    (repeatedly, unknown ids), claiming, deleting consumers, entries added and deleted in between."""

    def __init__(self, rnd):
        Pool.__init__(self, rnd)
        self.keys = [b's1', b's1', b's1', b's2']
        self.groups = [b'g1', b'g1', b'g2', b'g3']
        self.cons = [b'c1', b'c2', b'c3']
        if rnd.random() < 0.3:      # binary names that differ only in bytes that are not valid UTF-8
            self.groups += [b'g\xff', b'g\xfe']
            self.cons.append(b'c\xff')
        self.next_id = {}
        self.n = 0
        # half of the histories never read history nor re-position a group: the known defects on those paths
        # (xreadgroup_history_redelivers, xreadgroup_redelivery_skews_counters) put the implementation's pending
        # accounting into a state the model cannot follow, after which XPENDING is no longer checked for that group
        self.pure = rnd.random() < 0.5

    def sid(self, k):
        """an id near the ones added to k so far (often present, sometimes unknown)"""
        hi = self.next_id.get(k, 1)
        return b'%d-0' % self.rnd.randrange(1, hi + 2)

    def next(self):
        r = self.rnd
        self.n += 1
        if self.n == 1:
            return [b'SET', b'str', b'v']
        k = r.choice(self.keys)
        g = r.choice(self.groups)
        cn = r.choice(self.cons)
        if self.n < 8 and self.n % 2 == 0:
            return [b'XGROUP', b'CREATE', k, g, r.choice([b'0-0', b'$']), b'MKSTREAM']
        c = r.randrange(100)
        if c < 18:
            n = self.next_id.get(k, 1)
            self.next_id[k] = n + 1
            return [b'XADD', k, b'%d-0' % n, b'f', b'%d' % n]
        if c < 21:
            return [b'XADD', k, b'*', b'f', b'auto']
        if c < 28:
            a = [b'XGROUP', r.choice([b'CREATE', b'create']), k, g, r.choice([b'$', b'$', b'0-0', b'0-0', self.sid(k), b'bad'])]
            if r.random() < 0.4:
                a.append(b'MKSTREAM')
            return a
        if c < 52:
            a = [b'XREADGROUP', b'GROUP', g, cn]
            if r.random() < 0.5:
                a += [b'COUNT', r.choice([b'1', b'1', b'2', b'3', b'10'])]
            if r.random() < 0.15:
                a.append(b'NOACK')
            return a + [b'STREAMS', k, b'>']
        if c < 55 and self.pure:
            return [b'XPENDING', k, g, b'-', b'+', b'10']
        if c < 55:      # the consumer's own history
            a = [b'XREADGROUP', b'GROUP', g, cn]
            if r.random() < 0.3:
                a += [b'COUNT', r.choice([b'1', b'2'])]
            if r.random() < 0.35:
                a.append(r.choice([b'NOACK', b'noack']))       # without meaning for a read of the consumer's own history
            return a + [b'STREAMS', k, r.choice([b'0-0', self.sid(k)])]
        if c < 64:
            return [b'XACK', k, g] + [self.sid(k) for _ in range(r.randrange(1, 4))]
        if c < 71:
            a = [b'XCLAIM', k, g, cn, b'0'] + [self.sid(k) for _ in range(r.randrange(1, 4))]
            if r.random() < 0.3:
                a.append(r.choice([b'JUSTID', b'justid']))
            return a
        if c < 78:
            return [b'XPENDING', k, g]
        if c < 86:
            lo, hi = r.choice([b'-', b'-', self.sid(k)]), r.choice([b'+', b'+', self.sid(k)])
            a = [b'XPENDING', k, g, lo, hi, r.choice([b'10', b'10', b'1', b'2', b'0'])]
            if r.random() < 0.3:
                a.append(cn)
            return a
        if c < 89:
            return [b'XDEL', k] + [self.sid(k) for _ in range(r.randrange(1, 3))]
        if c == 89:
            return [b'XGROUP', b'DELCONSUMER', k, g, cn]
        if c == 90:
            return [b'XGROUP', b'CREATECONSUMER', k, g, cn]
        if c == 91:
            return [b'XGROUP', b'DESTROY', k, g] if r.random() < 0.5 else [b'XGROUP', b'DELCONSUMER', k, g, cn]
        if c == 92 and self.pure:
            return [b'XPENDING', k, g]
        if c == 92:
            return [b'XGROUP', b'SETID', k, g, r.choice([b'$', b'0-0', self.sid(k)])]
        if c == 93:
            return r.choice([[b'XINFO', b'GROUPS', k], [b'XINFO', b'STREAM', k], [b'XINFO', b'CONSUMERS', k, g]])
        if c == 94:
            k2 = r.choice([b'nokey', b'str'])
            return r.choice([[b'XGROUP', b'DESTROY', k2, g], [b'XGROUP', b'DELCONSUMER', k2, g, cn], [b'XPENDING', k2, g],
                             [b'XREADGROUP', b'GROUP', g, cn, b'STREAMS', k2, b'>'], [b'XACK', k2, g, b'1-0'],
                             [b'XCLAIM', k2, g, cn, b'0', b'1-0'], [b'XGROUP', b'CREATE', k2, g, b'$'],
                             [b'XGROUP', b'SETID', k2, g, b'$'], [b'XGROUP', b'CREATECONSUMER', k2, g, cn]])
        if c == 95:
            return r.choice([[b'XPENDING', k, b'nogroup'], [b'XGROUP', b'DELCONSUMER', k, b'nogroup', cn],
                             [b'XACK', k, b'nogroup', b'1-0'], [b'XCLAIM', k, b'nogroup', cn, b'0', b'1-0'],
                             [b'XREADGROUP', b'GROUP', b'nogroup', cn, b'STREAMS', k, b'>'],
                             [b'XGROUP', b'SETID', k, b'nogroup', b'$'], [b'XGROUP', b'DESTROY', k, b'nogroup']])
        if c == 96:
            return r.choice([[b'XACK', k, g], [b'XACK', k, g, b'x'], [b'XCLAIM', k, g, cn, b'0'], [b'XCLAIM', k, g, cn, b'x', b'1-0'],
                             [b'XPENDING', k], [b'XPENDING', k, g, b'-', b'+'], [b'XGROUP', b'CREATE', k, g],
                             [b'XREADGROUP', b'GROUP', g, cn, b'STREAMS', k], [b'XREADGROUP', b'GROUP', g, cn, b'STREAMS', k, b'$'],
                             [b'XGROUP', b'BOGUS', k, g], [b'XGROUP'], [b'XPENDING', k, g, b'-', b'+', b'x']])
        if c == 97:
            if r.random() < 0.3:
                self.next_id.pop(k, None)
                return [b'DEL', k]
            return [b'XTRIM', k, b'MAXLEN', r.choice([b'0', b'1', b'2'])]
        if c == 98:
            return [b'XLEN', k]
        return [b'XRANGE', k, b'-', b'+']


class GroupStoryGen(Pool):
    """C16, the pending-entry accounting under hand-overs: ONE stream, ONE group, three consumers; deliveries in small
    batches, claims in both directions (a consumer that holds newer entries takes over an older one and vice versa),
    acknowledgements of the lowest / highest / a middle pending id, consumers deleted while they hold a bound of the
    pending set, entries deleted under pending ids.  Meant to be driven with an audit after EVERY command (XPENDING
    summary: total, lowest and highest id, per-consumer counts; extended form: every row)."""

    def __init__(self, rnd):
        Pool.__init__(self, rnd)
        self.keys = [b's1']
        self.groups = [b'g1']
        self.cons = [b'c1', b'c2', b'c3']
        self.next = self._next
        self.n = 0
        self.top = 0
        self.history = rnd.random() < 0.5      # half of the stories read a consumer's own history (known defects live there)

    def anid(self):
        return b'%d-0' % self.rnd.randrange(1, self.top + 2)

    def _next(self):
        r = self.rnd
        self.n += 1
        k, g = b's1', b'g1'
        cn = r.choice(self.cons)
        if self.n == 1:
            return [b'XGROUP', b'CREATE', k, g, b'0-0', b'MKSTREAM']
        c = r.randrange(100)
        if c < 16 or self.top < 3:
            self.top += 1
            return [b'XADD', k, b'%d-0' % self.top, b'f', b'%d' % self.top]
        if c < 38:
            return [b'XREADGROUP', b'GROUP', g, cn, b'COUNT', r.choice([b'1', b'1', b'2', b'3']), b'STREAMS', k, b'>']
        if c < 60:
            a = [b'XCLAIM', k, g, cn, b'0'] + sorted(set(self.anid() for _ in range(r.choice([1, 1, 2, 3]))), key=idkey)
            if r.random() < 0.2:
                a.append(b'JUSTID')
            return a
        if c < 74:
            return [b'XACK', k, g] + [self.anid() for _ in range(r.choice([1, 1, 2]))]
        if c < 84:
            return [b'XGROUP', b'DELCONSUMER', k, g, cn]
        if c < 88:
            return [b'XDEL', k, self.anid()]
        if c < 91:
            return [b'XGROUP', b'CREATECONSUMER', k, g, cn]
        if c < 94:
            return [b'XPENDING', k, g, self.anid(), b'+', r.choice([b'1', b'2', b'10']), cn]
        if c < 96:
            return [b'XREADGROUP', b'GROUP', g, cn, b'NOACK', b'COUNT', b'1', b'STREAMS', k, b'>']
        if c < 97 and self.history:
            a = [b'XREADGROUP', b'GROUP', g, cn]
            if r.random() < 0.5:
                a += [b'COUNT', b'1']
            if r.random() < 0.6:
                a.append(b'NOACK')
            return a + [b'STREAMS', k, r.choice([b'0-0', self.anid()])]
        if c < 98:
            return [b'XINFO', b'CONSUMERS', k, g]
        return [b'XPENDING', k, g, b'-', self.anid(), b'10']


# ---------------------------------------------------------------------------
# drivers
# ---------------------------------------------------------------------------
def crashes_server(path):
    """kept for callers: no generated path is withheld any more (F070, F082 are repaired)"""
    return False


def audit_streams(s, cid, keys):
    for k in keys:
        s.cmd(cid, [b'XLEN', k])
        s.cmd(cid, [b'XRANGE', k, b'-', b'+'])
        s.cmd(cid, [b'XREVRANGE', k, b'+', b'-', b'COUNT', b'2'])
        s.cmd(cid, [b'XREAD', b'STREAMS', k, b'0-0'])


def audit_groups(s, cid, keys, groups, cons):
    """read back everything the server reports about pending entries: total, bounds, per-consumer counts, rows"""
    for k in keys:
        for g in groups:
            r = s.cmd(cid, [b'XPENDING', k, g])
            if r[0] != 'arr':
                continue
            s.cmd(cid, [b'XPENDING', k, g, b'-', b'+', b'1000'])
            for c in cons:
                s.cmd(cid, [b'XPENDING', k, g, b'-', b'+', b'1000', c])


def stream_history(ctx, srv, g, n, label, every=12, groups=False):
    """seeded random history with a full read-back (audit) every few commands and at the end"""
    import workloads
    from session import ServerDied
    s = workloads.fresh_session(ctx, srv, label)
    keys = sorted(set(k for k in g.keys if k not in (b'str', b'nokey')))
    try:
        cid = s.open()
        s.cmd(cid, [b'FLUSHALL'])
        for j in range(n):
            cid = workloads.ensure_conn(s, cid)
            s.cmd(cid, g.next())
            if (j + 1) % every == 0:
                cid = workloads.ensure_conn(s, cid)
                if groups:
                    audit_groups(s, cid, keys, sorted(set(g.groups)), g.cons)
                else:
                    audit_streams(s, cid, keys)
        cid = workloads.ensure_conn(s, cid)
        if groups:
            audit_groups(s, cid, keys, sorted(set(g.groups)), g.cons)
        workloads.dump_db(s, cid)
    except (ServerDied, OSError):
        if not srv.alive():
            s.trace.emit({'k': 'crash', 'status': srv.exit_status()})
    s.close_all()
    ok = ctx.validate(s.trace, label=label)
    if not srv.alive():
        srv.restart()
    return ok
