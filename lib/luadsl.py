"""The script DSL (see spec/Ferrous.tla, SCRIPTS): programs are generated here, rendered to Lua source for the real
server and recorded as JSON next to the request for the specification."""
import hashlib


def lua_str(b):
    return '"' + ''.join('\\%03d' % x for x in b) + '"'


def arg_lit(b): return {'l': list(b)}
def arg_key(i): return {'key': i}
def arg_arg(i): return {'arg': i}


def call(args, ret=0, pcall=False):
    return {'k': 'pcall' if pcall else 'call', 'a': args, 'ret': ret}


def const(v):
    return {'k': 'const', 'v': v}


def render_arg(a):
    if 'l' in a:
        return lua_str(bytes(a['l']))
    if 'key' in a:
        return 'KEYS[%d]' % a['key']
    return 'ARGV[%d]' % a['arg']


def render_val(v):
    t = v['t']
    if t == 'nil': return 'nil'
    if t == 'true': return 'true'
    if t == 'false': return 'false'
    if t == 'int': return v.get('src', bytes(v['v']).decode())
    if t == 'str': return lua_str(bytes(v['v']))
    if t == 'ok': return '{ok=%s}' % lua_str(bytes(v['v']))
    if t == 'err': return '{err=%s}' % lua_str(bytes(v['v']))
    if t == 'tab': return '{' + ', '.join(render_val(x) for x in v['v']) + '}'
    raise ValueError(t)


def render(prog):
    lines = []
    for st in prog:
        if st['k'] == 'const':
            lines.append('return ' + render_val(st['v']))
        else:
            f = 'redis.pcall' if st['k'] == 'pcall' else 'redis.call'
            e = '%s(%s)' % (f, ', '.join(render_arg(a) for a in st['a']))
            lines.append(('return ' if st['ret'] else '') + e)
    return '\n'.join(lines).encode()


def clean(prog):
    """JSON for the trace (drop rendering hints)."""
    def cv(v):
        if v['t'] == 'tab':
            return {'t': 'tab', 'v': [cv(x) for x in v['v']]}
        return {k: x for k, x in v.items() if k != 'src'}
    out = []
    for st in prog:
        if st['k'] == 'const':
            out.append({'k': 'const', 'v': cv(st['v'])})
        else:
            out.append(st)
    return out


def sha1hex(src):
    return hashlib.sha1(src).hexdigest().encode()
