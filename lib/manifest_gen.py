#!/usr/bin/env python3
"""Regenerate MANIFEST.json from the table below (kept in one place so it stays valid)."""
import json, os, subprocess
VERIF = os.path.dirname(os.path.dirname(os.path.abspath(__file__)))

CHECKS = {
 'C01': ('model_checking', 'TLC model checking of the command semantics (MC_Data/MC_C01) + TLC-generated per-transition tests and seeded random histories replayed on the real server + TLC trace validation (FerrousTrace.tla)',
         'Every reply and the dataset after every command of the explored histories equal what the TLA+ reference relation allows; laws of the relation itself are model-checked on a bounded instance. Conformance holds for the recorded executions only.'),
 'C03': ('model_checking', 'TLC model checking of spec/Colls.tla (MC_Data/MC_C03) + TLC-generated per-transition tests and seeded random histories on the real server + TLC trace validation',
         'As C01 for lists, sets and hashes.'),
 'C04': ('model_checking', 'TLC model checking of spec/ZSets.tla order laws (MC_Data/MC_C04) + generated tests and random histories + skip-list invariant hook + TLC trace validation',
         'Every sorted-set reply of the explored histories agrees with the (score, member) order derived in the spec; the skip list is structurally checked after every mutation; the order laws are model-checked on a bounded instance.'),
 'C07': ('model_checking', 'TLC model checking of all interleavings of 2 connections over the transaction catalogue (MC_Txn) + generated tests + concurrent client threads (transactions of up to thousands of commands, scripts, pipelines, readers) ordered by the server-side command log + pushes inside EXEC with blocked waiters + CLIENT KILL / close inside MULTI + the forms catalogue queued in transactions + TLC trace validation',
         'EXEC is one atomic step of the spec; every reply of concurrently running clients must be explained by the sequential spec in the logged execution order, so an interleaving inside EXEC, a lost slot or reordering is rejected.'),
 'C14': ('model_checking', 'TLC model checking of pub/sub (MC_PubSub: exactly-once per subscription, ack counts) + generated tests and seeded multi-client histories on the real server + TLC trace validation of every ack, PUBLISH count and push frame',
         'Every acknowledgement, PUBLISH count and push frame of the explored histories is matched against the per-subscriber inbox of the spec; a final quiesce requires that nothing owed is missing.'),
 'C05': ('model_checking', 'enumerated pipelines x segmentations (incl. 100 ... 10 000 requests in one write and several MiB of outstanding replies) written to the real server (each chunk a separate read via the loop-iteration hook), i-th reply paired with i-th request and with the server-side command log, TLC trace validation; TLC model checking of the transcribed parser for chunking independence (shared with C20)',
         'For every explored (pipeline, segmentation) the sequence of reply frames read by an independent RESP reader is, request by request, what the spec allows and what the server computed; hostile bytes are placed in every argument position; protocol violations must be answered by an error.'),
 'C08': ('model_checking', 'TLC model checking of the implementation-shaped WATCH mechanism (spec/impl/ImplWatch.tla: registration counts, per-key counters, fast path, lazy expiry and sweeper stamps; pinned and wrong designs as controls that must fail) with behaviours sampled from it (TLC -simulate) replayed on the real server + TLC model checking of WATCH dirtiness against a ghost over all interleavings of 2 connections (MC_Txn) + enumerated scenarios <pre-state x write command x path x target>, two-watcher scenarios, random four-connection WATCH histories and the forms catalogue run by another connection (directly, inside EXEC, from a script) under a watcher of the named / of the other keys, on the real server + TLC trace validation',
         'For every enumerated scenario the EXEC reply (nil vs array) and the dataset afterwards are what the spec requires: abort when a watched entry changed by any listed means, no abort when nothing addressed it.'),
 'C17': ('model_checking', 'passwords with characters special to configuration syntaxes set through a configuration file read by the parser of ferrous itself (fvh serve --conf), every truncation refused + TLC model checking of the authentication gate (MC_Txn with Password) + generated tests + every dispatched command name (also names outside the spec table, probed as unknown commands) sent unauthenticated on a requirepass server with a canary request behind it, unauthenticated connections killed while their pipeline is in flight in the same event-loop pass (loop gate hook) + TLC trace validation incl. the view of an authenticated control connection',
         'Every command name the server dispatches is refused with one error reply and no effect for unauthenticated connections in the explored states; only the exact password authenticates.'),
 'C18': ('model_checking', 'scripts that try to SELECT (refused, or valid until the script ends - never beyond) in every way a script can end + TLC model checking of the database frame property (MC_Txn/MC_C18) + generated tests + random multi-database histories with 16-way dumps + TLC trace validation',
         'Every reply and the dump of all 16 databases after the explored histories match a 16-way model in which a command touches only the database selected on its connection at that time.'),
 'C02': ('model_checking', 'TLC model checking of the implementation-shaped expiry mechanism (spec/impl/ImplSweeper.tla) + an inductive invariant of that mechanism discharged by Apalache for unbounded time (spec/impl/ImplSweeperInd.tla, with the pinned design as a control that must fail) + random TTL histories, the forms catalogue over live and passed deadlines through direct / MULTI / script paths, stale-index scenarios (two sweeper passes) and the forced collect/delete race (sync-point hook) on the real server + TLC trace validation with deadline intervals on the observer clock',
         'Every read of the explored histories, through every command family, sees a key with a TTL exactly until its deadline (interval reasoning on the observer clock), and no key without a due deadline is ever deleted, including in the sweeper race window that the hook forces.'),
 'C13': ('model_checking', 'TLC model checking of the implementation-shaped mechanism (spec/impl/ImplBlocking.tla: registry queues, wake queue, event-loop phases, serve loop; pinned design behind switches) and of the blocking-pop reference relation with ghost conservation bags (MC_Blocking) + directed (incl. re-blocking after a multi-key serve, pushes inside EXEC / scripts, same key name in several databases in one pass, CLIENT KILL of waiters) and seeded random asynchronous schedules on the real server ordered by the server-side log of commands, wake-ups and time-outs (hooks H3/H4), registry snapshot (H5) at quiescent points + TLC trace validation',
         'For every explored schedule every reply, every served/time-out event, the final lists and the registry snapshot are what the reference relation allows: elements conserved, FIFO service per key, nobody stranded at quiescence, no leftover registration, time-outs not early and not missing.'),
 'C09': ('model_checking', 'SAVE - changes of one kind - SAVE - restart histories for twelve kinds of change + TLC trace validation of SAVE / kill / restart round trips of command-built datasets against the persistence relation of the spec (CmdSAVE/Restarted in spec/Ferrous.tla); the bounded instance is trivial, the states reported are those of the trace validation',
         'For every explored dataset (every type, sizes around the length-encoding boundaries, all 16 databases, TTLs shorter and longer than the downtime, marker strings, infinite scores) the dump of all databases after the restart equals Restart(dump before SAVE), deadlines to clock granularity.'),
 'C19': ('model_checking', 'TLC model checking of the cursor mechanism (spec/impl/ImplScan.tla, repaired design; pinned design kept as a switch) + an inductive invariant of it discharged by Apalache for any number of mutations and any COUNT (spec/impl/ImplScanInd.tla) + full cursor iterations with interleaved additions/deletions on the real server + TLC trace validation of the iteration guarantee (stable/ever/returned sets per open iteration)',
         'For every explored full iteration of SCAN/HSCAN/SSCAN/ZSCAN (all COUNTs from 1, MATCH, TYPE, interleaved modifications) the union of returned elements contains every element present and matching throughout, contains nothing that never existed, and the iteration terminates.'),
 'C20': ('model_checking', 'TLC model checking of a TLA+ transcription of RespParser (spec/impl/ImplParser.tla: totality, prefix stability => chunking independence, for all byte strings over a 17-symbol alphabet up to length 5/6) + the same enumeration, frame trees, absurd lengths and deep nesting run through the real parser/serializer in a child process (fvh codec, counting allocator) + TLC validation of the recorded results against Ser (spec/RespCodec.tla, CodecTrace.tla)',
         'Round trip through the real serializer and parser equals the TLA+ Ser for every enumerated frame tree; for every enumerated byte string the real parser is total, gives the same frames/errors for every chunking, and its peak allocation is bounded by the bytes received.'),
 'C11': ('model_checking', 'TLC trace validation of the redo-log relation (spec/Ferrous.tla AofApply/AofStep): after every request the frames appended to the real AOF, re-executed with the reference semantics, must deterministically reproduce the live dataset; plus re-execution of the whole file on an empty real server with dump comparison',
         'For every explored history (all value types, direct and MULTI/EXEC, several databases) the AOF consists of complete frames after every request and replays, request by request and as a whole on a real empty server, to the live dataset (values; TTL presence); an entry whose replay is not deterministic is rejected.'),
 'C12': ('model_checking', 'TLC trace validation of scripts generated from a DSL: the spec runs the recorded program through the same Exec1 as direct commands, as one step, with the standard RESP<->Lua conversions (spec/Ferrous.tla RunProg); every generator command wrapped in redis.call/pcall, return-value shapes, error flow, EVALSHA twins, sandbox probes — each an independent segment; the forms catalogue (incl. consumer-group forms and the commands only the executor implements, spec/Extras.tla) through every script path; atomicity through concurrent client threads running script transfers, ordered by the server-side command log',
         'For every explored segment the reply of the script and the dataset afterwards equal what the direct command semantics prescribe after conversion; forbidden globals and commands are unreachable; known non-standard conversions and the UTF-8 restriction are listed findings.'),
 'C15': ('model_checking', 'TLC model checking of spec/Streams.tla laws (MC_Data/MC_C15: XLEN, strictly increasing ids, last id monotone, XRANGE - + = all) + generated per-transition tests and seeded random histories on the real server + TLC trace validation',
         'Every stream reply of the explored histories (XADD auto/explicit ids incl. colliding and maximal ids, XDEL, XTRIM, range reads with all bound positions and COUNT) and the dataset afterwards are those of the ordered-log model; listed deviations are open findings.'),
 'C16': ('model_checking', 'TLC model checking of consumer-group laws (MC_Data/MC_C16: XPENDING summary = PEL, per-consumer counts) + generated tests and seeded random multi-group histories + TLC trace validation',
         'Every XREADGROUP/XACK/XCLAIM/XPENDING/XGROUP reply of the explored histories matches a model of group cursor + pending map; listed deviations are open findings.'),
 'C10': ('model_checking', 'TLC model checking of the snapshot discipline (spec/impl/ImplBgsave.tla) + fault enumeration of every n-th write of a save (hook) and of writes refused by the operating system (RLIMIT_FSIZE at block boundaries and the last bytes) + BGSAVE and the auto-save monitor parked at each per-key step by sync points while a client mutates the key, dump loaded by restart and validated by TLC against the per-key history the spec keeps during the save (BgTrack) + background saves of large structured values under pipelined writers (no sync point), each dump loaded by the real loader and checked by the harness + every prefix / byte corruptions (header-complete) of valid dumps loaded by the real loader in a child under RLIMIT_AS with a counting allocator',
         'For every enumerated failing write the previous dump is byte-identical and later saves work; for every forced schedule the loaded entry of every key (value and deadline together) is one the key held during the save and the file is loadable; for every enumerated truncated/corrupted file the loader ends with an error or a key-wise equal partial load within allocation and time bounds.'),
 'C06': ('exploration', 'enumerated boundary values in every numeric argument position of every command against keys of every type, directly and through redis.call / redis.pcall (incl. the commands only the script executor implements), scripts with hostile return values / error objects / call arguments, a multi-key x key-state x shard-placement matrix, snapshots of the state the hostile commands leave behind + all short byte strings over the protocol alphabet, absurd lengths, deep nesting, truncations on fresh connections; each followed by a probe (PING + sentinel dataset on a fresh connection) validated by the TLA+ trace spec, in which a crash has no action',
         'No enumerated input made the server exit, hang or lose the sentinel data. Exploration level: the spec contributes the input space and the acceptance rule, nothing is decided outside the enumeration (a coverage-guided fuzzer would be the natural complement; it is outside this technique family).'),
}
NOT_YET = {}

def main():
    repo_commits = subprocess.run(['git', '-C', '/repo', 'log', '--format=%h %s'], stdout=subprocess.PIPE).stdout.decode().splitlines()
    hook_commits = [l.split()[0] for l in repo_commits if l.split(' ', 1)[1].startswith('verif:')]
    props = [json.loads(l) for l in open(os.path.join(VERIF, 'properties.jsonl'))]
    checks, na = [], []
    for p in props:
        pid = p['id']
        if pid in CHECKS:
            cat, tech, text = CHECKS[pid]
            checks.append({
                'property_id': pid,
                'quick_cmd': './check %s quick' % pid,
                'thorough_cmd': './check %s thorough' % pid,
                'evidence_file': 'evidence/%s.json' % pid,
                'replay_cmd_template': './check %s --replay {path}' % pid,
                'engine': 'tla-trace',
                'level_claimed': {'category': cat, 'text': text, 'design_ref': 'DESIGN.md section 6 (%s)' % pid},
                'level_note': 'Trusted: harness RESP reader / trace writer / dump projection, cfg-guarded hooks, TLC. The reference semantics are those written in spec/*.tla (Redis 6.2/7.0 as decided in DESIGN Appendix B). Bounded: TLC constants as in spec/mc/*.cfg; conformance only for recorded executions.',
                'technique': tech,
            })
        else:
            na.append({'property_id': pid, 'reason': NOT_YET.get(pid, 'not yet built in this round: the spec module and driver for this property are still to come (see DESIGN.md section 8); not a limit of the technique')})
    m = {
        'version': 1,
        'setup_cmd': 'cd harness && cp -n /repo/Cargo.lock Cargo.lock; CARGO_NET_OFFLINE=true cargo build --offline --quiet && cd .. && python3 tools/genlit.py && python3 tools/gencat.py && cd spec && tla-sany FerrousTrace.tla > /dev/null',
        'hooks': {
            'guard': 'ferrous_verif',
            'enable': 'rustflags --cfg ferrous_verif in /verif/harness/.cargo/config.toml (the harness depends on /repo by path, so every check rebuilds ferrous with hooks on)',
            'baseline_off_cmd': 'cd /repo && cargo test --workspace --no-fail-fast --offline',
            'source_commits': hook_commits,
            'add_only': True,
        },
        'engines': [{'name': 'tla-trace', 'path': 'check', 'serves_properties': [c['property_id'] for c in checks],
                     'kind_free_text': 'TLC (tla2tools 1.8.0) model checking of spec/*.tla + python drivers of the real server (harness/fvh serve) + TLC trace validation of every recorded execution'}],
        'checks': checks,
        'not_applicable': na,
        'notes': 'See DESIGN.md. known_findings.json lists open findings (deviations) and fixed ones.',
    }
    json.dump(m, open(os.path.join(VERIF, 'MANIFEST.json'), 'w'), indent=1)

if __name__ == '__main__':
    main()
