"""C01 — string and key-space commands follow the reference semantics."""
import workloads
import gen

LEVEL = 'model_checking'
RULE = ('TLC checks failure atomicity, type invariant, read-only and cross-command laws on the bounded '
        'instance MC_Data/MC_C01; TLC prints one test per transition of that state graph (shortest path to each '
        'state + each catalogue command) which are replayed on the real server; seeded random histories over '
        'binary keys/values are added; every recorded trace is validated event by event against '
        'FerrousTrace.tla. A case is non-trivial/distinct if it is a distinct command path or a distinct random history.')
ASSUMPTIONS = ['harness RESP reader and trace writer are correct',
               'reference semantics = Redis 6.2/7.0 documentation as encoded in spec/Strings.tla (DESIGN Appendix B)',
               'expiry decisions use the observer clock with 2 ms granularity']


def run(ctx):
    ctx.model_check('MC_Data', 'MC_C01' if ctx.quick else 'MC_C01_full', workers=12, timeout=1500)
    paths = gen.generate_paths(ctx, 'MC_Data', 'MC_C01_gen', limit=3000 if ctx.quick else None)
    ctx.extra_cov['generated_paths'] = len(paths)
    srv = ctx.new_server()
    workloads.replay_paths(ctx, srv, paths, label='gen')
    n_hist = 4 if ctx.quick else 30
    for i in range(n_hist):
        workloads.random_history(ctx, srv, workloads.StringsGen(ctx.rnd), n=1500 if ctx.quick else 5000,
                                 label='rand%d' % i)
    # the forms catalogue, directly (every option combination and argument class over keys of every type)
    import forms, formspaths
    from session import Session, ServerDied
    tr = ctx.new_trace('forms')
    s = Session(srv, tr)
    nf = 0
    try:
        nf = formspaths.run_forms(s, 'direct', 0)
    except ServerDied:
        tr.emit({'k': 'crash', 'status': srv.exit_status()})
    s.close_all()
    ctx.validate_segments(tr, 'forms')
    # KEYS over the glob matrix: every pattern against every key name
    pats, names = workloads.glob_matrix(ctx.quick)
    s = workloads.fresh_session(ctx, srv, 'globs')
    try:
        c = s.open()
        s.cmd(c, [b'FLUSHALL'])
        for i in range(0, len(names), 20):
            s.cmd(c, [b'MSET'] + [x for k in names[i:i + 20] for x in (k, b'v')])
        for p in pats:
            s.cmd(c, [b'KEYS', p])
    except ServerDied:
        pass
    s.close_all()
    ctx.validate(s.trace, label='globs')
    if not srv.alive():
        srv.restart()
    # key-space views (DBSIZE, KEYS, RANDOMKEY, EXISTS, TYPE, SCAN) right after the deadline of a time to live that a later
    # command discarded, moved away or outlived — before the sweeper's next pass can repair any index or cache
    import time
    s = workloads.fresh_session(ctx, srv, 'ttlviews')
    views = [[b'DBSIZE'], [b'KEYS', b'*'], [b'EXISTS', b'k', b'other'], [b'TYPE', b'k'], [b'RANDOMKEY'], [b'SCAN', b'0', b'COUNT', b'100'],
             [b'KEYS', b'k'], [b'KEYS', b'other'], [b'SCAN', b'0', b'MATCH', b'k', b'COUNT', b'100'], [b'GET', b'k'], [b'PTTL', b'k'], [b'DBSIZE']]
    mk = [[b'SET', b'k', b'v', b'PX', b'60']]
    stories = [mk + [[b'SET', b'k', b'v2']], mk + [[b'GETSET', b'k', b'v2']], mk + [[b'MSET', b'k', b'v2', b'other', b'x']], mk + [[b'PERSIST', b'k']],
               mk + [[b'PEXPIRE', b'k', b'600000']], mk + [[b'RENAME', b'k', b'other']], mk + [[b'RENAME', b'k', b'other'], [b'SET', b'k', b'fresh']],
               mk + [[b'DEL', b'k'], [b'SET', b'k', b'v3']], mk + [[b'APPEND', b'k', b'x'], [b'INCR', b'n']], mk + [[b'SET', b'k', b'v2', b'PX', b'600000']],
               mk + [[b'SET', b'k', b'v2', b'XX']], mk + [[b'SETRANGE', b'k', b'0', b'V']], mk, [[b'SETEX', b'k', b'1', b'v'], [b'PEXPIRE', b'k', b'60'], [b'SET', b'k', b'w']],
               [[b'PSETEX', b'k', b'60', b'v'], [b'SETNX', b'k', b'w'], [b'SET', b'other', b'o', b'PX', b'60'], [b'SET', b'other', b'o2']]]
    try:
        c = s.open()
        for st in stories:
            s.cmd(c, [b'FLUSHALL'])
            s.cmd(c, [b'SET', b'stays', b'1'])
            for a in st:
                s.cmd(c, a)
            for a in views[:3]:
                s.cmd(c, a)
            time.sleep(0.075)
            for a in views:
                s.cmd(c, a)
        # the same stories side by side on names of their own, then two full passes of the sweeper: whatever an index or a cache
        # still holds about a discarded deadline must not cost a key that has none (or a later one) any more
        s.cmd(c, [b'FLUSHALL'])
        names = []
        for i, st in enumerate(stories):
            ren = lambda x: x + b'%d' % i if x in (b'k', b'other', b'n') else x
            for a in st:
                s.cmd(c, [a[0]] + [ren(x) for x in a[1:]])
            names += [b'k%d' % i, b'other%d' % i]
        start = int(srv.ctl.cmd('SWEEPS'))
        t_end = time.time() + 5
        while int(srv.ctl.cmd('SWEEPS')) < start + 2 and time.time() < t_end:
            time.sleep(0.05)
        s.cmd(c, [b'DBSIZE'])
        s.cmd(c, [b'KEYS', b'*'])
        for k in names:
            s.cmd(c, [b'GET', k])
            s.cmd(c, [b'PTTL', k])
        s.cmd(c, [b'DBSIZE'])
    except ServerDied:
        pass
    s.close_all()
    ctx.validate(s.trace, label='ttlviews')
    if not srv.alive():
        srv.restart()
    # integer positions written in spellings the reference refuses ('+5', '007', '-0'): open finding lenient_int
    workloads.lenient_int_history(ctx, srv, 'strings')
    ctx.extra_cov['form_segments'] = nf
    ctx.extra_cov['glob_pairs'] = len(pats) * len(names)
    ctx.extra_cov['distinct_cases'] = len(paths) + n_hist + nf + len(pats)


def replay(ctx, path):
    workloads.replay_file(ctx, path)
