"""C02 — expiration is exact: never early, never observable late, never spurious."""
import time
import workloads
from session import Session, ServerDied

LEVEL = 'model_checking'
RULE = ('TLC checks NeverEarlyNorSpurious / NeverObservableLate / NoSpuriousDelete on the implementation-shaped model of the '
        'expiry mechanism (spec/impl/ImplSweeper.tla: stored deadline + index hint + two-phase sweeper interleaved with '
        'SET/EXPIRE/PERSIST/RENAME/empty-and-recreate/observe) in its repaired form up to MaxTime 4, and Apalache discharges an inductive invariant of that model '
        '(spec/impl/ImplSweeperInd.tla: what is stored and not past its own deadline is exactly what the reference holds live, with equal value and deadline) for '
        'unbounded time and arbitrary deadlines, with the pinned design as a control that must fail; the reference semantics (deadline '
        'intervals on the observer clock, spec/KS.tla PurgeChoices) are then checked against the REAL server: seeded random '
        'histories with 30-400 ms TTLs on all value types read through every command family before/around/after the '
        'deadlines, directed stale-index scenarios that wait for two completed sweeper passes (hook counter), and the '
        'collect/delete race forced with the sweeper sync point (hook H6). Distinct = distinct history or scenario.')
ASSUMPTIONS = ['observer clock: a request bracketed by [t0,t1] must see a key whose deadline lies after t1+2ms and must not see '
               'one whose deadline lies before t0-2ms; in between either answer is accepted',
               'ImplSweeper switches Recheck/LazyAll describe the repaired code; the binding is by the forced schedules']


def wait_sweeps(srv, n, timeout=6.0):
    start = int(srv.ctl.cmd('SWEEPS'))
    end = time.monotonic() + timeout
    while time.monotonic() < end:
        if int(srv.ctl.cmd('SWEEPS')) >= start + n:
            return True
        time.sleep(0.02)
    return False


def stale_index_scenarios():
    K = b'sk'
    mk = [[b'SET', K, b'v', b'PX', b'60']]
    return [
        ('overwrite-clears', mk + [[b'SET', K, b'v2']], [[b'GET', K], [b'PTTL', K]]),
        ('getset-clears', mk + [[b'GETSET', K, b'v2']], [[b'GET', K], [b'TTL', K]]),
        ('mset-clears', mk + [[b'MSET', K, b'v2']], [[b'GET', K]]),
        ('persist', mk + [[b'PERSIST', K]], [[b'GET', K], [b'TTL', K]]),
        ('extend', mk + [[b'PEXPIRE', K, b'600000']], [[b'GET', K]]),
        ('rename-away-recreate', mk + [[b'RENAME', K, b'other'], [b'SET', K, b'fresh']], [[b'GET', K], [b'GET', b'other'], [b'EXISTS', b'other']]),
        ('rename-carries-ttl', mk + [[b'RENAME', K, b'other']], [[b'EXISTS', b'other'], [b'TYPE', b'other'], [b'DBSIZE']]),
        ('list-emptied-recreated', [[b'RPUSH', K, b'a'], [b'PEXPIRE', K, b'60'], [b'LPOP', K], [b'RPUSH', K, b'b']], [[b'LRANGE', K, b'0', b'-1'], [b'TTL', K]]),
        ('set-emptied-recreated', [[b'SADD', K, b'a'], [b'PEXPIRE', K, b'60'], [b'SREM', K, b'a'], [b'SADD', K, b'b']], [[b'SMEMBERS', K], [b'TTL', K]]),
        ('hash-emptied-recreated', [[b'HSET', K, b'f', b'1'], [b'PEXPIRE', K, b'60'], [b'HDEL', K, b'f'], [b'HSET', K, b'g', b'2']], [[b'HGETALL', K]]),
        ('zset-emptied-recreated', [[b'ZADD', K, b'1', b'a'], [b'PEXPIRE', K, b'60'], [b'ZREM', K, b'a'], [b'ZADD', K, b'2', b'b']], [[b'ZRANGE', K, b'0', b'-1']]),
        ('del-recreate', mk + [[b'DEL', K], [b'SET', K, b'v3']], [[b'GET', K]]),
        ('expired-then-all-types', mk, [[b'TYPE', K], [b'INCR', K], [b'DEL', K], [b'LPUSH', K, b'x'], [b'LLEN', K], [b'KEYS', b'*'], [b'DBSIZE']]),
        ('in-place-keeps-ttl', [[b'SET', K, b'1', b'PX', b'60'], [b'INCR', K], [b'APPEND', K, b'0']], [[b'GET', K], [b'EXISTS', K]]),
        ('expire-on-expired', mk + [('sleep', 90), [b'PEXPIRE', K, b'600000']], [[b'GET', K], [b'EXISTS', K]]),
    ]


def run_stale(ctx, srv):
    s = workloads.fresh_session(ctx, srv, 'stale')
    n = 0
    try:
        c = s.open()
        for name, setup, reads in stale_index_scenarios():
            s.cmd(c, [b'FLUSHALL'])
            s.note(name)
            for a in setup:
                if isinstance(a, tuple):
                    time.sleep(a[1] / 1000.0)
                else:
                    s.cmd(c, a)
            wait_sweeps(srv, 2)
            for a in reads:
                s.cmd(c, a)
            n += 1
    except ServerDied:
        pass
    s.close_all()
    ctx.validate(s.trace, label='stale-index')
    return n


def run_race(ctx, srv, rounds):
    """Force the window between the sweeper's collect and delete phases."""
    K = b'rk'
    actions = [
        ('reset-with-ttl', [[b'SET', K, b'new', b'EX', b'100']]),
        ('reset-no-ttl', [[b'SET', K, b'new']]),
        ('recreate-list', [[b'RPUSH', K, b'a']]),
        ('incr-recreates', [[b'INCR', K]]),
        ('rename-onto', [[b'SET', b'src', b'moved'], [b'RENAME', b'src', K]]),
        ('setnx', [[b'SETNX', K, b'nx']]),
    ]
    s = workloads.fresh_session(ctx, srv, 'race')
    n = 0
    forced = 0
    try:
        c = s.open()
        for r in range(rounds):
            name, acts = actions[r % len(actions)]
            s.cmd(c, [b'FLUSHALL'])
            s.note(name)
            srv.ctl.cmd('ARM sweep_between')
            s.cmd(c, [b'SET', K, b'old', b'PX', b'30'])
            reached = srv.ctl.cmd('WAIT sweep_between 1 3000') == '1'
            if reached:
                forced += 1
            for a in acts:
                s.cmd(c, a)
            srv.ctl.cmd('DISARM sweep_between')
            wait_sweeps(srv, 1)
            for a in ([b'TYPE', K], [b'EXISTS', K], [b'TTL', K], [b'KEYS', b'*']):
                s.cmd(c, a)
            n += 1
    except ServerDied:
        pass
    finally:
        if srv.alive():
            srv.ctl.cmd('DISARM sweep_between')
    s.close_all()
    ctx.validate(s.trace, label='sweeper-race')
    ctx.extra_cov['sweeper_windows_forced'] = forced
    if forced == 0 and n > 0:
        import runner
        raise runner.ToolError('the sweeper sync point was never reached: the race was not exercised')
    return n


def run(ctx):
    # an inductive invariant of the repaired mechanism, discharged by Apalache for unbounded time (runs in the background)
    common = ['--cinit=CInit']
    apa = ctx.apalache_start('ImplSweeperInd', [
        ('init-implies-inv', common + ['--init=Init', '--inv=IndInv', '--length=0'], 'ok'),
        ('inv-is-inductive', common + ['--init=IndInit', '--inv=IndInv', '--length=1'], 'ok'),
        ('inv-implies-safety', common + ['--init=IndInit', '--inv=Safety', '--length=0'], 'ok'),
        ('control-pinned-design-is-not-inductive', ['--cinit=CInitPinned', '--init=IndInit', '--inv=IndInv', '--length=1'], 'violated')])
    ctx.model_check('ImplSweeper', 'MC_Sweeper_fixed', workers=12, timeout=1500, subdir='impl')
    srv = ctx.new_server()
    n_hist = 5 if ctx.quick else 40
    for i in range(n_hist):
        workloads.random_history(ctx, srv, workloads.ExpiryGen(ctx.rnd), n=400 if ctx.quick else 1500, label='ttl%d' % i)
    n1 = run_stale(ctx, srv)
    n2 = run_race(ctx, srv, 6 if ctx.quick else 36)
    # the forms catalogue over keys that all carry a TTL: far ahead (in-place changes keep it, overwrites drop it, RENAME
    # moves it) and already passed (every key is absent to every command, swept or not), through direct dispatch,
    # MULTI/EXEC and scripts
    import forms, formspaths
    from session import Session
    tr = ctx.new_trace('forms')
    s = Session(srv, tr)
    n3 = 0
    F = forms.FORMS
    try:
        if ctx.quick:
            n3 += formspaths.run_forms(s, 'direct', 0, subset=F[ctx.seed % 2::2], ttl='live')
            n3 += formspaths.run_forms(s, 'direct', 0, subset=F[(ctx.seed + 1) % 2::2], ttl='passed')
            n3 += formspaths.run_forms(s, 'script-lit', 0, subset=F[ctx.seed % 4::4], ttl='passed')
            n3 += formspaths.run_forms(s, 'multi', 0, subset=F[(ctx.seed + 2) % 4::4], ttl='live')
            n3 += formspaths.run_forms(s, 'script-lit', 0, subset=F[(ctx.seed + 1) % 4::4], ttl='live')
            # the commands only the script executor implements (in-place modifications keep the deadline, absent keys stay absent)
            n3 += formspaths.run_forms(s, 'script-lit', 0, subset=forms.EXTRA_FORMS[ctx.seed % 2::2], ttl='live')
            n3 += formspaths.run_forms(s, 'script-lit', 0, subset=forms.EXTRA_FORMS[(ctx.seed + 1) % 2::2], ttl='passed')
        else:
            for ttl in ('live', 'passed'):
                n3 += formspaths.run_forms(s, 'script-lit', 0, subset=forms.EXTRA_FORMS, ttl=ttl)
            for path in ('direct', 'multi', 'script-lit'):
                for ttl in ('live', 'passed'):
                    n3 += formspaths.run_forms(s, path, 0, ttl=ttl)
    except ServerDied:
        tr.emit({'k': 'crash', 'status': srv.exit_status()})
    s.close_all()
    ctx.validate_segments(tr, 'forms')
    ctx.apalache_wait(apa)
    ctx.extra_cov['form_segments'] = n3
    ctx.extra_cov['distinct_cases'] = n_hist + n1 + n2 + n3


def replay(ctx, path):
    workloads.replay_file(ctx, path)
