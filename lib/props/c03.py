"""C03 — list, set and hash commands follow the reference semantics."""
import workloads
import gen

LEVEL = 'model_checking'
RULE = ('as C01, for spec/Colls.tla: bounded instance MC_Data/MC_C03 (laws: type invariant, failure atomicity, read-only, '
        'empty collection ceases to exist), one test per transition replayed on the real server, seeded random '
        'histories with duplicate-prone elements and all index forms; SUNION/SINTER/SDIFF over every sequence of up to three (thorough: four) keys drawn from a set, '
        'a disjoint, an overlapping and a contained set, a missing key and keys of other types; LREM with every count on every list over two elements up to length 4/5 '
        '(adjacent repetitions, runs at either end); every trace validated by TLC.')
ASSUMPTIONS = ['harness RESP reader and trace writer are correct',
               'reference semantics = Redis 6.2/7.0 documentation as encoded in spec/Colls.tla']


def run(ctx):
    ctx.model_check('MC_Data', 'MC_C03_full', workers=8, timeout=1200)
    paths = gen.generate_paths(ctx, 'MC_Data', 'MC_C03_gen', limit=3000 if ctx.quick else 40000)
    ctx.extra_cov['generated_paths'] = len(paths)
    srv = ctx.new_server()
    workloads.replay_paths(ctx, srv, paths, label='gen')
    n_hist = 4 if ctx.quick else 30
    for i in range(n_hist):
        workloads.random_history(ctx, srv, workloads.CollsGen(ctx.rnd), n=1500 if ctx.quick else 5000, label='rand%d' % i)
    ctx.extra_cov['set_algebra_cases'] = workloads.set_algebra_history(ctx, srv)
    ctx.extra_cov['list_shape_cases'] = workloads.list_shape_history(ctx, srv)
    ctx.extra_cov['lifecycle_cases'] = workloads.lifecycle_history(ctx, srv)
    # integer positions written in spellings the reference refuses ('+5', '007', '-0'): open finding lenient_int
    workloads.lenient_int_history(ctx, srv, 'colls')
    ctx.extra_cov['distinct_cases'] = len(paths) + n_hist


def replay(ctx, path):
    workloads.replay_file(ctx, path)
