"""C04 — sorted sets stay totally ordered and consistent under every update."""
import workloads
import gen

LEVEL = 'model_checking'
RULE = ('TLC checks on MC_Data/MC_C04 that every rank/score query of spec/ZSets.tla agrees with the derived '
        '(score, member) order in every reachable state (ZLaws), plus failure atomicity (a refused ZADD adds nothing, NaN '
        'never stored); its transitions are replayed on the real server; seeded random histories with colliding scores '
        'are validated; after every mutating command the skip list is walked by the cfg-guarded invariant checker (H8) '
        'and its verdict is an event the trace spec requires to be ok.')
ASSUMPTIONS = ['scores are exact decimals in units of 1/1000 in the spec; generators stay inside that domain',
               'score text in replies is compared numerically (rounded to 1/1000), not textually']


def run(ctx):
    ctx.model_check('MC_Data', 'MC_C04_full', workers=8, timeout=1200)
    paths = gen.generate_paths(ctx, 'MC_Data', 'MC_C04_gen', limit=3000 if ctx.quick else 40000)
    ctx.extra_cov['generated_paths'] = len(paths)
    srv = ctx.new_server()
    workloads.replay_paths(ctx, srv, paths, label='gen')
    n_hist = 6 if ctx.quick else 40
    for i in range(n_hist):
        workloads.zset_history(ctx, srv, workloads.ZSetGen(ctx.rnd), n=600 if ctx.quick else 3000, label='zrand%d' % i)
    # the sorted-set forms of the catalogue (every option, infinite scores, sums that are not a number) through the paths that have their
    # own copy of the command: redis.call / redis.pcall, and queued in a transaction
    import forms, formspaths
    from session import Session, ServerDied
    Z = [a for a in forms.FORMS if a[0][:1].upper() == b'Z']
    tr = ctx.new_trace('forms')
    s = Session(srv, tr)
    nf = 0
    try:
        nf += formspaths.run_forms(s, 'script-lit', 0, subset=Z)
        nf += formspaths.run_forms(s, 'script-pcall', 0, subset=Z[ctx.seed % 2::2] if ctx.quick else Z)
        nf += formspaths.run_forms(s, 'multi', 0, subset=Z[(ctx.seed + 1) % 2::2] if ctx.quick else Z)
        nf += formspaths.run_forms(s, 'direct', 0, subset=Z)
    except ServerDied:
        tr.emit({'k': 'crash', 'status': srv.exit_status()})
    s.close_all()
    ctx.validate_segments(tr, 'forms')
    ctx.extra_cov['form_segments'] = nf
    # integer positions written in spellings the reference refuses ('+5', '007', '-0'): open finding lenient_int
    workloads.lenient_int_history(ctx, srv, 'zsets')
    ctx.extra_cov['distinct_cases'] = len(paths) + n_hist


def replay(ctx, path):
    workloads.replay_file(ctx, path)
