"""C05 — every request gets exactly one reply, in order, and errors are replies."""
import time
import resp
import workloads
from client import Client
from session import Session

LEVEL = 'model_checking'
RULE = ('TLC checks chunking independence of the transcribed parser + connection step on all byte strings / segmentations '
        'of a bounded alphabet (MC_Parser, shared with C20). Pipelines of valid and invalid commands (unknown, wrong arity, '
        'wrong type, bad argument, missing key, hostile CR/LF bytes in every argument position, transactions, pub/sub) are '
        'written to the real server under enumerated segmentations (whole, every single cut position, one byte at a time, '
        'random cuts; each chunk is a separate read because the driver waits for event-loop iterations, hook H2); the trace '
        'pairs the i-th reply frame read by an independent RESP reader with the i-th request and with the reply the server '
        'computed for it (hook H3); TLC validates every pair against the spec. Pipelines whose replies add up to several MiB '
        '(1 MiB strings, 60 000-element lists, mixed with errors and nils) and deep pipelines (100 to 10 000 short requests in one write, around 128/256/512/1024) are sent before anything is read, so that the '
        'server must resume partial socket writes; their payloads are compared by the harness (chk event; too large for TLC). '
        'Distinct = distinct (pipeline, segmentation).')
ASSUMPTIONS = ['the i-th reply on a connection answers the i-th request (that pairing is the property)',
               'large-reply pipelines: replies are compared byte for byte by the harness, not by TLC; the client starts reading within 50 ms',
               'a protocol violation must be answered by an error frame; closing the connection afterwards is allowed']

MULTI_FRAME = (b'SUBSCRIBE', b'PSUBSCRIBE', b'UNSUBSCRIBE', b'PUNSUBSCRIBE')


def frames_expected(argv, in_multi):
    name = argv[0].upper() if argv else b''
    if name in MULTI_FRAME and not in_multi:
        return max(1, len(argv) - 1)
    return 1


def run_pipeline(ctx, srv, tr, cid, reqs, cuts, raw_tail=None):
    """reqs: list of argv. raw_tail: (bytes, kind) appended after the requests. cuts: sorted byte offsets."""
    srv.ctl.cmd('LOGON')
    srv.ctl.drain()
    data = b''.join(resp.enc_cmd(a) for a in reqs)
    if raw_tail:
        data += raw_tail[0]
    cl = Client(srv.port, timeout=3.0)
    tr.emit({'k': 'open', 'c': cid})
    helper = Session(srv, tr)
    t0 = tr.now()
    prev = 0
    for c in list(cuts) + [len(data)]:
        if c <= prev or c > len(data):
            continue
        cl.send_raw(data[prev:c])
        prev = c
        if c < len(data):
            helper.wait_loop(2)
    # read everything the server sends
    want = 0
    in_multi = False
    for a in reqs:
        want += frames_expected(a, in_multi)
        n = a[0].upper() if a else b''
        if n == b'MULTI':
            in_multi = True
        elif n in (b'EXEC', b'DISCARD'):
            in_multi = False
    frames = []
    closed = False
    while True:
        r = cl.recv(1.0 if len(frames) < want else 0.05)
        if r[0] == 'closed':
            closed = True
            break
        if r[0] == 'none':
            break
        frames.append(r)
        if r[0] == 'garbage':
            break
    t1 = tr.now() + 1
    try:        # a server process that is just ending may still look alive
        log = [e for e in srv.ctl.drain() if e['kind'] in ('cmd', 'cmderr')] if srv.alive() else []
        srv.ctl.cmd('LOGOFF') if srv.alive() else None
    except OSError:
        log = []
        time.sleep(0.2)
    # this connection's server records: it is the only client besides none => all records are ours
    pos = 0
    in_multi = False
    for i, a in enumerate(reqs):
        k = frames_expected(a, in_multi)
        n = a[0].upper() if a else b''
        got = frames[pos:pos + k]
        if got and got[0][0] == 'err' and k > 1:
            got = got[:1]
        if n in (b'UNSUBSCRIBE', b'PUNSUBSCRIBE') and len(a) == 1 and not in_multi:
            # one frame per current subscription: take every following frame of that kind
            kind = n.lower()
            j = pos
            while j < len(frames) and frames[j][0] == 'arr' and frames[j][1] and frames[j][1][0] == ('bulk', kind):
                j += 1
            got = frames[pos:max(j, pos + 1)]
        pos += len(got)
        if n in MULTI_FRAME and not in_multi and got and got[0][0] != 'err':
            rj = {'t': 'multi', 'v': [resp.to_json(f) for f in got]}
        elif got:
            rj = resp.to_json(got[0])
        else:
            rj = {'t': 'closed'} if closed else {'t': 'none'}
        ev = {'k': 'cmd', 'c': cid, 'argv': [list(x) for x in a], 'r': rj, 't0': t0, 't1': t1}
        if i < len(log):
            e = log[i]
            ev['sr'] = e['frames'][1] if e['kind'] == 'cmd' else {'t': 'handler_err'}
            req = e['frames'][0]
            sargv = [x.get('v', []) for x in req['v']] if req.get('t') == 'arr' else None
            if sargv != ev['argv']:
                ev['sargv'] = sargv
        else:
            ev['unexecuted'] = 1
        tr.emit(ev)
        if n == b'MULTI':
            in_multi = True
        elif n in (b'EXEC', b'DISCARD'):
            in_multi = False
    extra = frames[pos:]
    if raw_tail:
        tr.emit({'k': 'raw', 'c': cid, 'kind': raw_tail[1], 'bytes': list(raw_tail[0][:64]),
                 'rs': [resp.to_json(f) for f in extra], 'closed': 1 if closed else 0})
    elif extra:
        tr.emit({'k': 'extra', 'c': cid, 'rs': [resp.to_json(f) for f in extra]})
    if len(log) > len(reqs) and not raw_tail:
        tr.emit({'k': 'unsent', 'c': cid, 'n': len(log) - len(reqs)})
    cl.close()
    if closed:
        tr.emit({'k': 'dropped', 'c': cid})
    else:
        tr.emit({'k': 'close', 'c': cid})
        if helper.wait_loop(3):
            tr.emit({'k': 'gone', 'c': cid})


HOSTILE = [b'\r\n', b'a\r\nb', b'\n', b'\r', b'+OK\r\n', b'$-1\r\n', b'*1\r\n$4\r\nPING\r\n', b'\x00', b'\xff\xfe', b"'", b' ', b'']


class PipeGen:
    def __init__(self, rnd):
        self.rnd = rnd
        self.m = 0

    def marker(self):
        self.m += 1
        return b'm%d' % self.m

    def req(self):
        r = self.rnd
        h = r.choice(HOSTILE)
        c = r.randrange(24)
        if c == 0: return [b'ECHO', self.marker()]
        if c == 1: return [b'SET', b'k', self.marker()]
        if c == 2: return [b'GET', b'k']
        if c == 3: return [b'INCR', b'n']
        if c == 4: return [b'LPUSH', b'l', self.marker()]
        if c == 5: return [b'GET', b'l']                       # wrong type
        if c == 6: return [b'NOSUCH' + h, b'x']                # unknown command, hostile bytes in the name
        if c == 7: return [b'GET']                             # wrong arity
        if c == 8: return [b'INCRBY', b'n', b'x' + h]          # bad argument
        if c == 9: return [b'RENAME', b'nokey' + h, b'x']      # missing key
        if c == 10: return [b'ECHO', h]
        if c == 11: return [b'SET', h + b'k', h]
        if c == 12: return [b'LRANGE', b'l', b'0', b'-1']
        if c == 13: return [b'ZADD', b'l', b'1', b'a']         # wrong type through a server.rs handler
        if c == 14: return [b'HSET', b'h' + h, h, h]
        if c == 15: return [b'PING']
        if c == 16: return [b'LSET', b'l', b'99', b'x']        # index out of range
        if c == 17: return [b'XGROUP', b'CREATE', b'nostream', b'g' + h, b'$']
        if c == 18: return [b'EVAL', b"return redis.error_reply('x" + h.replace(b"'", b'') + b"')", b'0']
        if c == 19: return [b'PUBLISH', b'c' + h, h]
        if c == 20: return [b'SELECT', b'99']
        if c == 21: return [b'EXEC']                           # without MULTI
        if c == 22: return [b'TYPE', h]
        return [b'MGET', b'k', b'l', h]

    def pipeline(self, n):
        reqs = [self.req() for _ in range(n)]
        k = self.rnd.random()
        if k < 0.08:
            # a blocking pop queued in a transaction never blocks: its slot holds a nil (or the element), and the requests behind EXEC get their own replies
            i = self.rnd.randrange(len(reqs))
            reqs[i:i] = [[b'MULTI'], [self.rnd.choice([b'BLPOP', b'BRPOP']), b'nolist:' + self.marker()[:4], b'0'], [b'INCR', b'n'],
                         [b'BLPOP', b'nolist2', b'nolist3', b'0.5'], [b'ECHO', self.marker()], [b'EXEC'], [b'ECHO', self.marker()]]
        elif k < 0.15:
            i = self.rnd.randrange(len(reqs))
            reqs[i:i] = [[b'MULTI'], [b'INCR', b'n'], [b'GET', b'l'], [b'NOSUCH'], [b'EXEC']]
        elif k < 0.25:
            reqs.append([b'SUBSCRIBE', b'ch1', b'ch' + self.rnd.choice(HOSTILE)])
            reqs.append([b'UNSUBSCRIBE'])
        elif k < 0.3:
            reqs.append([b'UNSUBSCRIBE'])
            reqs.append([b'PUNSUBSCRIBE', b'p*'])
        return reqs


VIOLATIONS = [(b'?what\r\n', 'violation'), (b'*x\r\n', 'violation'), (b'*1\r\n$x\r\n', 'violation'), (b'*1\r\n$-5\r\n', 'violation'),
              (b'*1\r\n:5\r\n', 'badcommand'), (b'*1\r\n+PING\r\n', 'badcommand'), (b'$4\r\nPING\r\n', 'badcommand'),
              (b'*2\r\n$4\r\nECHO\r\n$3\r\nabcde\r\n', 'violation'), (b'PING\r\n', 'inline'), (b'SET k v\r\n', 'inline'),
              (b'*1\r\n$4\r\nPINGXX', 'violation'), (b'*-5\r\n', 'violation'), (b':5\r\n', 'badcommand')]


def cut_sets(rnd, n, tier_quick):
    yield []
    if n <= 1:
        return
    if n <= 400:
        yield list(range(1, n))                     # one byte at a time
    for _ in range(2 if tier_quick else 6):
        k = rnd.randrange(1, 6)
        yield sorted(set(rnd.randrange(1, n) for _ in range(k)))


def large_replies(ctx, srv, tr):
    """Several MiB of replies outstanding at once (the server has to resume partial socket writes): N pipelined requests
    with large replies are sent before anything is read; the harness' own RESP reader then demands exactly the N
    replies, byte for byte, followed by the reply of a trailing ECHO.  The payloads are too large to be carried through
    TLC, so the comparison is made by the harness and recorded as a chk event (which the trace spec requires to be ok)."""
    import time
    cases = 0
    big = bytes((i * 7 + i // 251) % 256 for i in range(1 << 20))
    setup = Client(srv.port, timeout=20.0)
    ok = setup.call([b'SET', b'big:1m', big])[0] == 'st'
    ok = ok and setup.call([b'SET', b'big:300k', big[:300000]])[0] == 'st'
    for i in range(0, 60000, 2000):
        ok = ok and setup.call([b'RPUSH', b'big:list'] + [b'element-%06d' % j for j in range(i, i + 2000)])[0] == 'int'
    setup.close()
    tr.emit({'k': 'note', 'text': 'large replies: setup %s' % ('ok' if ok else 'FAILED')})
    biglist = [('bulk', b'element-%06d' % j) for j in range(60000)]
    plans = [([[b'GET', b'big:1m']] * 8, [('bulk', big)] * 8, 0.05),
             ([[b'GET', b'big:1m']] * 12, [('bulk', big)] * 12, 0.0),
             ([[b'GET', b'big:300k'], [b'GET', b'big:1m']] * 5, [('bulk', big[:300000]), ('bulk', big)] * 5, 0.02),
             ([[b'LRANGE', b'big:list', b'0', b'-1']] * 6, [('arr', biglist)] * 6, 0.05),
             ([[b'GET', b'big:1m'], [b'NOSUCHCMD'], [b'LRANGE', b'big:list', b'0', b'-1'], [b'GET', b'nokey']] * 3,
              [('bulk', big), 'err', ('arr', biglist), ('nil',)] * 3, 0.03)]
    if not ctx.quick:
        plans = plans * 3
    for reqs, want, pause in plans:
        cl = Client(srv.port, timeout=30.0)
        cl.send_raw(b''.join(resp.enc_cmd(a) for a in reqs) + resp.enc_cmd([b'ECHO', b'end-of-pipeline']))
        time.sleep(pause)
        detail = ''
        for i, w in enumerate(want + [('bulk', b'end-of-pipeline')]):
            r = cl.recv(20.0)
            good = (r[0] == 'err') if w == 'err' else (r == w)
            if not good:
                detail = 'reply %d of %d: expected %s, got %s' % (i + 1, len(want) + 1, w if w == 'err' else (w[0], len(w[1]) if len(w) > 1 else 0),
                                                                   (r[0], (len(r[1]) if len(r) > 1 and hasattr(r[1], '__len__') else r[1:]), str(r[1][:60]) if r[0] == 'garbage' else ''))
                break
        if not detail:
            extra = cl.recv(0.05)
            if extra[0] != 'none':
                detail = 'unsolicited frame after the last reply: %s' % (extra[0],)
        cl.close()
        tr.emit({'k': 'chk', 'name': 'large-replies', 'ok': 0 if detail else 1,
                 'detail': detail or '%d replies, %d bytes requested at once' % (len(want), sum(len(w[1]) if w != 'err' and len(w) > 1 and isinstance(w[1], bytes) else 0 for w in want))})
        cases += 1
        if not srv.alive():
            tr.emit({'k': 'crash', 'status': srv.exit_status()})
            break
    cl = Client(srv.port, timeout=10.0)
    cl.call([b'DEL', b'big:1m', b'big:300k', b'big:list'])
    cl.close()
    return cases


def run(ctx):
    ctx.model_check('MC_Parser', 'MC_Parser_fixed_N5' if ctx.quick else 'MC_Parser_fixed_N6', workers=12, timeout=1500, subdir='impl')
    srv = ctx.new_server()
    rnd = ctx.rnd
    g = PipeGen(rnd)
    cases = 0
    tr = ctx.new_trace('pipe')
    s0 = Session(srv, tr)
    c0 = s0.open()
    s0.cmd(c0, [b'FLUSHALL'])
    s0.close(c0)
    cid = 10
    n_pipes = 40 if ctx.quick else 400
    for p in range(n_pipes):
        reqs = g.pipeline(rnd.randrange(1, 9))
        n = sum(len(resp.enc_cmd(a)) for a in reqs)
        for cuts in cut_sets(rnd, n, ctx.quick):
            cid += 1
            run_pipeline(ctx, srv, tr, cid, reqs, cuts)
            cases += 1
            if not srv.alive():
                tr.emit({'k': 'crash', 'status': srv.exit_status()})
                break
        if tr.n > 20000 or not srv.alive():
            ctx.validate(tr, label='pipe')
            if not srv.alive():
                srv.restart()
            tr = ctx.new_trace('pipe')
            s0 = Session(srv, tr)
            c0 = s0.open(); s0.cmd(c0, [b'FLUSHALL']); s0.close(c0)
    # hostile bytes in every argument position of commands whose replies echo request content
    templates = [lambda h: [b'NOSUCH' + h, b'x'], lambda h: [b'ECHO', h], lambda h: [b'GET' + h], lambda h: [b'SET', h, h],
                 lambda h: [b'XGROUP', b'CREATE', b'nostream', b'g' + h, b'$'], lambda h: [b'XGROUP', b'BOGUS' + h, b'k', b'g'],
                 lambda h: [b'CONFIG', b'GET', h], lambda h: [b'CLIENT', b'SETNAME', b'n' + h], lambda h: [b'SUBSCRIBE', b'c' + h],
                 lambda h: [b'SCRIPT', b'LOAD' + h], lambda h: [b'EVAL', b"return redis.error_reply(ARGV[1])", b'0', h],
                 lambda h: [b'EVAL', b"return {ok=ARGV[1]}", b'0', h], lambda h: [b'INFO', h], lambda h: [b'OBJECT' + h, h],
                 lambda h: [b'HSET', b'hh', h, h], lambda h: [b'HGETALL', b'hh'], lambda h: [b'TYPE', h], lambda h: [b'AUTH', h]]
    for h in HOSTILE:
        for tpl in templates:
            cid += 1
            run_pipeline(ctx, srv, tr, cid, [tpl(h), [b'ECHO', g.marker()], [b'UNSUBSCRIBE']], [])
            cases += 1
    # LONG names and arguments whose multi-byte or invalid UTF-8 sequences straddle the lengths at which a reply might shorten
    # what it echoes (64, 128, 256 ... bytes): whatever the error text does with the request's bytes, one error reply comes back
    # and the next request is answered
    echoing = [templates[i] for i in (0, 1, 2, 5, 6, 7, 9, 12, 13)]
    tails = [b'\xe2\x82\xac', b'\xff', b'\xc3\xa9', b'\xf0\x9f\x98\x80']
    lens = [128] if ctx.quick else [32, 64, 128, 256, 512, 1024, 4096]
    nlong = 0
    for L in lens:
        for off in range(L - 9, L + 1):
            for t in (tails[(ctx.seed + off) % 4::2] if ctx.quick else tails):
                h = b'N' * off + t + b'zz'
                for tpl in echoing:
                    if not srv.alive():
                        break
                    cid += 1
                    run_pipeline(ctx, srv, tr, cid, [tpl(h), [b'ECHO', g.marker()]], [])
                    cases += 1
                    nlong += 1
                if not srv.alive():
                    break
            if not srv.alive():
                break
        if not srv.alive():
            break
    ctx.extra_cov['long_hostile_pipelines'] = nlong
    if not srv.alive():
        tr.emit({'k': 'crash', 'status': srv.exit_status()})
        ctx.validate(tr, label='pipe-long')
        srv.restart()
        tr = ctx.new_trace('pipe')
        s0 = Session(srv, tr)
        c0 = s0.open(); s0.cmd(c0, [b'FLUSHALL']); s0.close(c0)
    # exhaustive single cut positions of one fixed pipeline
    fixed = [[b'SET', b'k', b'v1'], [b'GET', b'l'], [b'NOSUCH'], [b'ECHO', b'a\r\nb'], [b'GET', b'k']]
    n = sum(len(resp.enc_cmd(a)) for a in fixed)
    step = 1 if not ctx.quick else 3
    for cut in range(1, n, step):
        cid += 1
        run_pipeline(ctx, srv, tr, cid, fixed, [cut])
        cases += 1
    # protocol violations and inline commands, alone and behind valid requests
    for raw, kind in VIOLATIONS:
        for prefix in ([], [[b'ECHO', b'before'], [b'GET', b'k']]):
            cid += 1
            run_pipeline(ctx, srv, tr, cid, prefix, [], raw_tail=(raw, kind))
            cases += 1
    # deep pipelines: hundreds to thousands of short requests in ONE write (many frames per read, several 8 KiB reads per
    # pipeline, requests straddling the read-buffer boundary), whole and cut in two inside a request
    depths = [100, 127, 128, 129, 130, 255, 256, 257, 400, 1000, 3000] if ctx.quick else [100, 127, 128, 129, 130, 200, 255, 256, 257, 300, 400, 511, 512, 513, 1000, 1023, 1024, 1025, 2000, 3000, 5000, 10000]
    nd = 0
    for depth in depths:
        reqs = []
        for i in range(depth):
            k = (i + depth) % 5
            reqs.append([[b'PING'], [b'ECHO', g.marker()], [b'INCR', b'deep:n'], [b'GET', b'nokey'], [b'NOSUCH']][k])
        n = sum(len(resp.enc_cmd(a)) for a in reqs)
        for cuts in ([], [n - 7], [rnd.randrange(1, n), n - 1]):
            cid += 1
            run_pipeline(ctx, srv, tr, cid, reqs, sorted(set(cuts)))
            cases += 1
            nd += 1
            if not srv.alive():
                tr.emit({'k': 'crash', 'status': srv.exit_status()})
                break
        if tr.n > 20000 and srv.alive():
            ctx.validate(tr, label='pipe-deep')
            tr = ctx.new_trace('pipe')
            s0 = Session(srv, tr)
            c0 = s0.open(); s0.cmd(c0, [b'FLUSHALL']); s0.close(c0)
    ctx.extra_cov['deep_pipelines'] = nd
    if srv.alive():
        nl = large_replies(ctx, srv, tr)
        cases += nl
        ctx.extra_cov['large_reply_pipelines'] = nl
    ctx.validate(tr, label='pipe-last')
    ctx.extra_cov['distinct_cases'] = cases
    ctx.extra_cov['pipelines'] = n_pipes


def replay(ctx, path):
    workloads.replay_file(ctx, path)
