"""C06 — no client input can crash, hang or wedge the server."""
import itertools
import socket
import time
import resp
import workloads
from client import Client
from session import Session, ServerDied

LEVEL = 'exploration'
RULE = ('Enumerated hostile inputs, each followed by a probe that the trace spec validates (PING and the sentinel dataset of '
        'database 15 read on a FRESH connection; a crash event has no spec action and a probe without the right reply is a '
        'rejection): (a) every supported command with every numeric/size/time argument position replaced by every boundary value '
        '(0, +-1, i64/u64/usize/isize min and max and neighbours, huge digit strings, 1e308, nan, inf, empty) against keys of '
        'every type; (b) malformed frames: all byte strings up to a bounded length over the protocol alphabet, absurd declared '
        'lengths, deep nesting, every truncation of valid frames, each on its own connection; (c) scripts and transactions '
        'carrying the same. The spec contributes the acceptance rule only: nothing is decided about inputs outside the '
        'enumeration (no coverage feedback). Excluded on purpose: SHUTDOWN, SLEEP, CLIENT PAUSE/KILL, DEBUG, REPLICAOF/SLAVEOF '
        'to unreachable hosts, non-terminating scripts. Non-trivial = a hostile input; distinct = distinct input.')
ASSUMPTIONS = ['hostile commands run in database 0; the sentinel lives in database 15, which no enumerated command addresses',
               'a probe waits up to 5 s for its replies (a hang is a probe without reply)']

I64 = 2 ** 63
BOUND = [b'0', b'1', b'-1', b'2', b'-2', str(I64 - 1).encode(), str(I64).encode(), str(-I64).encode(), str(-I64 - 1).encode(),
         str(2 ** 64 - 1).encode(), str(2 ** 64).encode(), str(2 ** 32).encode(), str(2 ** 31 - 1).encode(), str(-2 ** 31).encode(),
         b'4294967295', b'536870912', b'536870911', b'999999999999999999999999999999', b'-999999999999999999999999999999',
         b'1e308', b'-1e308', b'1e309', b'nan', b'-nan', b'inf', b'-inf', b'', b' ', b'0x10', b'1.5', b'-0', b'+1', b'9' * 100]

K = b'K'
# command -> (template, positions that carry a number/size/index/count/time/cursor/score)
N = object()
CMDS = [
    ([b'SET', K, b'v', b'EX', N], [4]), ([b'SET', K, b'v', b'PX', N], [4]), ([b'SETEX', K, N, b'v'], [2]), ([b'PSETEX', K, N, b'v'], [2]),
    ([b'EXPIRE', K, N], [2]), ([b'PEXPIRE', K, N], [2]), ([b'INCRBY', K, N], [2]), ([b'DECRBY', K, N], [2]),
    ([b'GETRANGE', K, N, N], [2, 3]), ([b'SETRANGE', K, N, b'x'], [2]), ([b'SELECT', N], [1]),
    ([b'LRANGE', K, N, N], [2, 3]), ([b'LTRIM', K, N, N], [2, 3]), ([b'LINDEX', K, N], [2]), ([b'LSET', K, N, b'x'], [2]), ([b'LREM', K, N, b'x'], [2]),
    ([b'SPOP', K, N], [2]), ([b'SRANDMEMBER', K, N], [2]), ([b'HINCRBY', K, b'f', N], [3]),
    ([b'ZADD', K, N, b'm'], [2]), ([b'ZINCRBY', K, N, b'm'], [2]), ([b'ZRANGE', K, N, N], [2, 3]), ([b'ZREVRANGE', K, N, N, b'WITHSCORES'], [2, 3]),
    ([b'ZRANGEBYSCORE', K, N, N], [2, 3]), ([b'ZREVRANGEBYSCORE', K, N, N], [2, 3]), ([b'ZCOUNT', K, N, N], [2, 3]),
    ([b'ZPOPMIN', K, N], [2]), ([b'ZPOPMAX', K, N], [2]),
    ([b'BLPOP', K, N], [2]), ([b'BRPOP', K, b'nokey', N], [3]),
    ([b'SCAN', N], [1]), ([b'SCAN', b'0', b'COUNT', N], [3]), ([b'HSCAN', K, N, b'COUNT', N], [2, 4]), ([b'SSCAN', K, N], [2]), ([b'ZSCAN', K, b'0', b'COUNT', N], [4]),
    ([b'XADD', K, N, b'f', b'v'], [2]), ([b'XRANGE', K, N, N], [2, 3]), ([b'XRANGE', K, b'-', b'+', b'COUNT', N], [5]), ([b'XREVRANGE', K, N, N], [2, 3]),
    ([b'XREAD', b'COUNT', N, b'STREAMS', K, b'0'], [2]), ([b'XREAD', b'STREAMS', K, N], [3]), ([b'XTRIM', K, b'MAXLEN', N], [3]), ([b'XDEL', K, N], [2]),
    ([b'XGROUP', b'CREATE', K, b'g', N], [4]), ([b'XGROUP', b'SETID', K, b'g', N], [4]),
    ([b'XREADGROUP', b'GROUP', b'g', b'c', b'COUNT', N, b'STREAMS', K, b'>'], [5]), ([b'XACK', K, b'g', N], [3]),
    ([b'XCLAIM', K, b'g', b'c', N, b'1-1'], [4]), ([b'XPENDING', K, b'g', N, N, N], [3, 4, 5]), ([b'XPENDING', K, b'g', b'-', b'+', N], [5]),
    ([b'EVAL', b'return 1', N], [2]), ([b'EVAL', b'return redis.call("LRANGE", KEYS[1], ARGV[1], ARGV[2])', b'1', K, N, N], [4, 5]),
    ([b'EVAL', b'return redis.call("SETRANGE", KEYS[1], ARGV[1], "x")', b'1', K, N], [4]),
    ([b'EVAL', b'return redis.call("INCRBY", KEYS[1], ARGV[1])', b'1', K, N], [4]),
    ([b'MEMORY', b'USAGE', K, b'SAMPLES', N], [4]), ([b'SLOWLOG', b'GET', N], [2]), ([b'CONFIG', b'SET', b'slowlog-max-len', N], [3]),
    ([b'CLIENT', b'LIST'], []), ([b'INFO', N], [1]), ([b'OBJECT', b'ENCODING', K], []), ([b'LASTSAVE'], []), ([b'COMMAND'], []), ([b'DBSIZE'], []),
    ([b'APPEND', K, b'x'], []), ([b'STRLEN', K], []), ([b'SADD', K, N], [2]), ([b'RPUSH', K, N], [2]), ([b'PUBLISH', b'ch', N], [2]),
]
TYPES = [None, [b'SET', K, b'10'], [b'RPUSH', K, b'a', b'b', b'c'], [b'SADD', K, b'a', b'b', b'c'], [b'HSET', K, b'f', b'1'],
         [b'ZADD', K, b'1', b'a', b'2', b'b'], [b'XADD', K, b'1-1', b'f', b'v']]

ALPHA = [b'*', b'$', b'+', b'-', b':', b'0', b'1', b'2', b'\r', b'\n', b'P', b'G', b'%', b'~', b'_', b'#', b',']


class Probe:
    def __init__(self, ctx, srv, tr):
        self.ctx, self.srv, self.tr = ctx, srv, tr
        self.s = Session(srv, tr, reply_timeout=5.0)
        self.n = 0

    def setup(self):
        c = self.s.open()
        self.s.cmd(c, [b'FLUSHALL'])
        self.s.cmd(c, [b'SELECT', b'15'])
        self.s.cmd(c, [b'SET', b'sentinel', b'intact'])
        self.s.cmd(c, [b'RPUSH', b'sentinel-list', b'a', b'b'])
        self.s.close(c)

    def probe(self):
        """A fresh connection is served normally and the stored data is intact."""
        self.n += 1
        c = self.s.open()
        self.s.cmd(c, [b'PING'])
        self.s.cmd(c, [b'SELECT', b'15'])
        self.s.cmd(c, [b'GET', b'sentinel'])
        self.s.cmd(c, [b'LRANGE', b'sentinel-list', b'0', b'-1'])
        if c in self.s.clients:
            self.s.close(c)


ANCHOR = [b'0', b'-1', b'1', str(I64 - 1).encode(), str(-I64).encode()]


def fillings(tmpl, pos, values):
    """Argument vectors of a template: every position in turn ranges over `values` while the other numeric positions
    hold each combination of anchor values (so LRANGE k 0 <max> and LRANGE k <min> -1 are both enumerated), plus the
    same value at every position."""
    if not pos:
        return [list(tmpl)]
    seen, out = set(), []
    def add(assign):
        a = [assign.get(i, x) if x is N else x for i, x in enumerate(tmpl)]
        t = tuple(a)
        if t not in seen:
            seen.add(t)
            out.append(a)
    for v in values:
        add({p: v for p in pos})
    if len(pos) > 1:
        for p in pos:
            others = [q for q in pos if q != p]
            for combo in itertools.product(ANCHOR, repeat=len(others)):
                for v in values:
                    d = dict(zip(others, combo))
                    d[p] = v
                    add(d)
    return out


def hostile_commands(ctx, srv, tr, pr):
    rnd = ctx.rnd
    cases = 0
    cl = None
    every = 25
    for tmpl, pos in CMDS:
        values = BOUND if pos else [b'']
        for ty in TYPES:
            vs = values if not ctx.quick else [x for i, x in enumerate(values) if i % 3 == cases % 3 or len(x) > 18 or x in (b'nan', b'1e308', b'') or x in ANCHOR]
            for argv in fillings(tmpl, pos, vs):
                if cl is None or cl.closed:
                    cl = Client(srv.port, timeout=3.0)
                    cl.call([b'DEL', K], 3.0)
                    if ty:
                        cl.call(ty, 3.0)
                name = argv[0].upper()
                r = cl.call(argv, 1.5 if name in (b'BLPOP', b'BRPOP') else 5.0)
                tr.emit({'k': 'hostile', 'argv': [list(a[:80]) for a in argv], 'r': resp.to_json(r) if r[0] != 'arr' else {'t': 'arr', 'v': []}})
                cases += 1
                if r[0] in ('none', 'closed', 'garbage') or name in (b'BLPOP', b'BRPOP', b'SELECT'):
                    cl.close()
                    cl = None
                if cases % every == 0 or r[0] in ('closed',):
                    pr.probe()
                if not srv.alive():
                    tr.emit({'k': 'crash', 'status': srv.exit_status(), 'after': [list(a[:80]) for a in argv]})
                    return cases
            if cl is not None:
                cl.close()
                cl = None
    pr.probe()
    return cases


def send_raw(srv, data, wait=0.02):
    """Own connection, write the bytes, read whatever comes for a moment, close."""
    try:
        s = socket.create_connection(('127.0.0.1', srv.port), timeout=2.0)
    except OSError:
        return None
    try:
        s.sendall(data)
        s.settimeout(wait)
        try:
            return s.recv(4096)
        except socket.timeout:
            return b''
        except OSError:
            return b''
    except OSError:
        return b''
    finally:
        s.close()


def hostile_frames(ctx, srv, tr, pr):
    cases = 0
    maxlen = 3 if ctx.quick else 4
    batch = []
    def flush():
        if batch:
            tr.emit({'k': 'hostile', 'raw': len(batch), 'first': list(batch[0][:40]), 'last': list(batch[-1][:40])})
            pr.probe()
            del batch[:]
    for n in range(1, maxlen + 1):
        for tup in itertools.product(ALPHA, repeat=n):
            data = b''.join(tup)
            send_raw(srv, data, 0.0005)
            batch.append(data)
            cases += 1
            if len(batch) >= 400:
                if not srv.alive():
                    tr.emit({'k': 'crash', 'status': srv.exit_status(), 'among': [list(x) for x in batch[-5:]]})
                    return cases
                flush()
    flush()
    special = [b'*3000000000\r\n', b'*9223372036854775807\r\n', b'$9223372036854775807\r\n', b'$-2\r\n', b'*-2\r\n', b'%99999999999\r\n',
               b'~18446744073709551615\r\n', b'*1\r\n' * 100000, b'*1\r\n' * 200 + b'$4\r\nPING\r\n', b'%1\r\n+k\r\n' * 50000,
               b'$536870913\r\n', b'*1\r\n$536870913\r\n', b'\x00' * 70000, b'*2\r\n$3\r\nGET\r\n$5\r\nab', b' ' * 100000,
               b'*1000000\r\n' + b'$1\r\na\r\n' * 1000, b'+' + b'A' * 1000000 + b'\r\n', b'*1\r\n$4\r\nPING\r\n' * 20000]
    valid = resp.enc_cmd([b'SET', b'k', b'v']) + resp.enc_cmd([b'LRANGE', b'l', b'0', b'-1'])
    special += [valid[:i] for i in range(1, len(valid))]
    for data in special:
        send_raw(srv, data, 0.05)
        tr.emit({'k': 'hostile', 'raw': 1, 'first': list(data[:60]), 'len': len(data)})
        cases += 1
        pr.probe()
        if not srv.alive():
            tr.emit({'k': 'crash', 'status': srv.exit_status(), 'after_raw': list(data[:60])})
            return cases
    return cases


def run(ctx):
    srv = ctx.new_server()
    tr = ctx.new_trace('hostile')
    pr = Probe(ctx, srv, tr)
    n = 0
    try:
        pr.setup()
        n += hostile_commands(ctx, srv, tr, pr)
        if srv.alive():
            n += hostile_frames(ctx, srv, tr, pr)
    except (ServerDied, OSError):
        if not srv.alive():
            tr.emit({'k': 'crash', 'status': srv.exit_status()})
    pr.s.close_all()
    ctx.validate(tr, label='hostile')
    ctx.extra_cov['evaluations'] = n
    ctx.extra_cov['distinct_nontrivial'] = n
    ctx.extra_cov['distinct_cases'] = n
    ctx.extra_cov['probes'] = pr.n


def replay(ctx, path):
    workloads.replay_file(ctx, path)
