"""C06 — no client input can crash, hang or wedge the server."""
import itertools
import socket
import time
import resp
import workloads
from client import Client
from session import Session, ServerDied

LEVEL = 'exploration'
RULE = ('Enumerated hostile inputs, each followed by a probe that the trace spec validates (PING and the sentinel dataset of '
        'database 15 read on a FRESH connection; a crash event has no spec action and a probe without the right reply is a '
        'rejection): (a) every supported command with every numeric/size/time argument position replaced by every boundary value '
        '(0, +-1, i64/u64/usize/isize min and max and neighbours, huge digit strings, 1e308, nan, inf, empty) against keys of '
        'every type; (b) malformed frames: all byte strings up to a bounded length over the protocol alphabet, absurd declared '
        'lengths, deep nesting, every truncation of valid frames, each on its own connection; (c) the same commands and boundary values through '
        'redis.call / redis.pcall (the script executor parses and executes commands on its own), the commands and options only that path '
        'implements (GETBIT/SETBIT/BITCOUNT, ZREMRANGEBY*, SET GET/KEEPTTL, XREAD BLOCK, ...), and scripts with hostile return values, error '
        'objects and call arguments (cyclic and 100000-deep tables, non-finite numbers, non-string arguments, megabyte strings); (d) commands taking several keys, '
        'or one key twice, x the state of each key (live, past its deadline but unswept, absent, other type) x shard placement (same shard / different shards, both orders): '
        'a command thread waiting for a lock it holds stops answering. The spec contributes the acceptance rule only: nothing is decided about inputs outside the '
        'enumeration (no coverage feedback). Excluded on purpose: SHUTDOWN, SLEEP, CLIENT PAUSE/KILL, DEBUG, REPLICAOF/SLAVEOF '
        'to unreachable hosts, non-terminating scripts. Non-trivial = a hostile input; distinct = distinct input.')
ASSUMPTIONS = ['hostile commands run in database 0; the sentinel lives in database 15, which no enumerated command addresses',
               'a probe waits up to 5 s for its replies (a hang is a probe without reply)']

I64 = 2 ** 63
BOUND = [b'0', b'1', b'-1', b'2', b'-2', str(I64 - 1).encode(), str(I64).encode(), str(-I64).encode(), str(-I64 - 1).encode(),
         str(2 ** 64 - 1).encode(), str(2 ** 64).encode(), str(2 ** 32).encode(), str(2 ** 31 - 1).encode(), str(-2 ** 31).encode(),
         b'4294967295', b'536870912', b'536870911', b'999999999999999999999999999999', b'-999999999999999999999999999999',
         b'1e308', b'-1e308', b'1e309', b'nan', b'-nan', b'inf', b'-inf', b'', b' ', b'0x10', b'1.5', b'-0', b'+1', b'9' * 100, b'5', b'-5', b'7', b'8', b'9',
         # seconds whose milliseconds (x1000) cross the 63 / 64-bit boundaries, and a count that still fits a clock but not 64 bits of ms
         b'9223372036854775', b'9223372036854776', b'18446744073709551', b'18446744073709552', b'9223372036000000000', b'100000000000000000']

K = b'K'
# command -> (template, positions that carry a number/size/index/count/time/cursor/score)
N = object()
CMDS = [
    ([b'SET', K, b'v', b'EX', N], [4]), ([b'SET', K, b'v', b'PX', N], [4]), ([b'SETEX', K, N, b'v'], [2]), ([b'PSETEX', K, N, b'v'], [2]),
    ([b'EXPIRE', K, N], [2]), ([b'PEXPIRE', K, N], [2]), ([b'INCRBY', K, N], [2]), ([b'DECRBY', K, N], [2]),
    ([b'GETRANGE', K, N, N], [2, 3]), ([b'SETRANGE', K, N, b'x'], [2]), ([b'SELECT', N], [1]),
    ([b'LRANGE', K, N, N], [2, 3]), ([b'LTRIM', K, N, N], [2, 3]), ([b'LINDEX', K, N], [2]), ([b'LSET', K, N, b'x'], [2]), ([b'LREM', K, N, b'x'], [2]),
    ([b'SPOP', K, N], [2]), ([b'SRANDMEMBER', K, N], [2]), ([b'HINCRBY', K, b'f', N], [3]),
    ([b'ZADD', K, N, b'm'], [2]), ([b'ZINCRBY', K, N, b'm'], [2]), ([b'ZRANGE', K, N, N], [2, 3]), ([b'ZREVRANGE', K, N, N, b'WITHSCORES'], [2, 3]),
    ([b'ZRANGEBYSCORE', K, N, N], [2, 3]), ([b'ZREVRANGEBYSCORE', K, N, N], [2, 3]), ([b'ZCOUNT', K, N, N], [2, 3]),
    ([b'ZPOPMIN', K, N], [2]), ([b'ZPOPMAX', K, N], [2]),
    ([b'BLPOP', K, N], [2]), ([b'BRPOP', K, b'nokey', N], [3]),
    ([b'SCAN', N], [1]), ([b'SCAN', b'0', b'COUNT', N], [3]), ([b'HSCAN', K, N, b'COUNT', N], [2, 4]), ([b'SSCAN', K, N], [2]), ([b'ZSCAN', K, b'0', b'COUNT', N], [4]),
    ([b'XADD', K, N, b'f', b'v'], [2]), ([b'XRANGE', K, N, N], [2, 3]), ([b'XRANGE', K, b'-', b'+', b'COUNT', N], [5]), ([b'XREVRANGE', K, N, N], [2, 3]),
    ([b'XREAD', b'COUNT', N, b'STREAMS', K, b'0'], [2]), ([b'XREAD', b'STREAMS', K, N], [3]), ([b'XTRIM', K, b'MAXLEN', N], [3]), ([b'XDEL', K, N], [2]),
    ([b'XGROUP', b'CREATE', K, b'g', N], [4]), ([b'XGROUP', b'SETID', K, b'g', N], [4]),
    ([b'XREADGROUP', b'GROUP', b'g', b'c', b'COUNT', N, b'STREAMS', K, b'>'], [5]), ([b'XACK', K, b'g', N], [3]),
    ([b'XCLAIM', K, b'g', b'c', N, b'1-1'], [4]), ([b'XPENDING', K, b'g', N, N, N], [3, 4, 5]), ([b'XPENDING', K, b'g', b'-', b'+', N], [5]),
    ([b'EVAL', b'return 1', N], [2]), ([b'EVAL', b'return redis.call("LRANGE", KEYS[1], ARGV[1], ARGV[2])', b'1', K, N, N], [4, 5]),
    ([b'EVAL', b'return redis.call("SETRANGE", KEYS[1], ARGV[1], "x")', b'1', K, N], [4]),
    ([b'EVAL', b'return redis.call("INCRBY", KEYS[1], ARGV[1])', b'1', K, N], [4]),
    ([b'MEMORY', b'USAGE', K, b'SAMPLES', N], [4]), ([b'SLOWLOG', b'GET', N], [2]), ([b'CONFIG', b'SET', b'slowlog-max-len', N], [3]),
    ([b'CLIENT', b'LIST'], []), ([b'INFO', N], [1]), ([b'OBJECT', b'ENCODING', K], []), ([b'LASTSAVE'], []), ([b'COMMAND'], []), ([b'DBSIZE'], []),
    ([b'APPEND', K, b'x'], []), ([b'STRLEN', K], []), ([b'SADD', K, N], [2]), ([b'RPUSH', K, N], [2]), ([b'PUBLISH', b'ch', N], [2]),
]
TYPES = [None, [b'SET', K, b'1234567890'], [b'RPUSH', K, b'a', b'b', b'c'], [b'SADD', K, b'a', b'b', b'c'], [b'HSET', K, b'f', b'1'],
         [b'ZADD', K, b'1', b'a', b'2', b'b'], [b'XADD', K, b'1-1', b'f', b'v']]

ALPHA = [b'*', b'$', b'+', b'-', b':', b'0', b'1', b'2', b'\r', b'\n', b'P', b'G', b'%', b'~', b'_', b'#', b',']


class Probe:
    def __init__(self, ctx, srv, tr):
        self.ctx, self.srv, self.tr = ctx, srv, tr
        self.s = Session(srv, tr, reply_timeout=5.0)
        self.n = 0
        self.wedged = False

    def setup(self):
        c = self.s.open()
        self.s.cmd(c, [b'FLUSHALL'])
        self.s.cmd(c, [b'SELECT', b'15'])
        self.s.cmd(c, [b'SET', b'sentinel', b'intact'])
        self.s.cmd(c, [b'RPUSH', b'sentinel-list', b'a', b'b'])
        self.s.close(c)

    def probe(self):
        """A fresh connection is served normally and the stored data is intact.  Returns False when the server does not
        answer at all (wedged): the recorded probe is a rejection and the enumeration stops there."""
        self.n += 1
        c = self.s.open()
        r = self.s.cmd(c, [b'PING'])
        if r[0] in ('none', 'closed'):
            self.wedged = True
            if c in self.s.clients:
                self.s.close(c)
            return False
        self.s.cmd(c, [b'SELECT', b'15'])
        self.s.cmd(c, [b'GET', b'sentinel'])
        self.s.cmd(c, [b'LRANGE', b'sentinel-list', b'0', b'-1'])
        if self.n % 4 == 0 and c in self.s.clients:
            # whatever state the hostile commands left behind (extreme deadlines, huge or odd values) must also survive being
            # written out: a snapshot now and then (SAVE answers OK or an error; the process must stay up)
            r = self.s.clients[c].call([b'SAVE'], 20.0)
            self.tr.emit({'k': 'hostile', 'argv': [list(b'SAVE')], 'r': resp.to_json(r)})
            if r[0] in ('none', 'closed'):
                self.wedged = r[0] == 'none'
                if c in self.s.clients:
                    self.s.close(c)
                return not self.wedged and self.srv.alive()
            self.s.cmd(c, [b'GET', b'sentinel'])
        if c in self.s.clients:
            self.s.close(c)
        return True


ANCHOR = [b'0', b'-1', b'1', str(I64 - 1).encode(), str(-I64).encode()]


def fillings(tmpl, pos, values):
    """Argument vectors of a template: every position in turn ranges over `values` while the other numeric positions
    hold each combination of anchor values (so LRANGE k 0 <max> and LRANGE k <min> -1 are both enumerated), plus the
    same value at every position."""
    if not pos:
        return [list(tmpl)]
    seen, out = set(), []
    def add(assign):
        a = [assign.get(i, x) if x is N else x for i, x in enumerate(tmpl)]
        t = tuple(a)
        if t not in seen:
            seen.add(t)
            out.append(a)
    for v in values:
        add({p: v for p in pos})
    if len(pos) > 1:
        for p in pos:
            others = [q for q in pos if q != p]
            for combo in itertools.product(ANCHOR, repeat=len(others)):
                for v in values:
                    d = dict(zip(others, combo))
                    d[p] = v
                    add(d)
    return out


def hostile_commands(ctx, srv, tr, pr):
    rnd = ctx.rnd
    cases = 0
    cl = None
    every = 25
    for tmpl, pos in CMDS:
        values = BOUND if pos else [b'']
        for ty in TYPES:
            vs = values if not ctx.quick else [x for i, x in enumerate(values) if i % 3 == cases % 3 or len(x) > 18 or x in (b'nan', b'1e308', b'') or x in ANCHOR]
            for argv in fillings(tmpl, pos, vs):
                if cl is None or cl.closed:
                    cl = Client(srv.port, timeout=3.0)
                    cl.call([b'DEL', K], 3.0)
                    if ty:
                        cl.call(ty, 3.0)
                name = argv[0].upper()
                r = cl.call(argv, 1.5 if name in (b'BLPOP', b'BRPOP') else 5.0)
                tr.emit({'k': 'hostile', 'argv': [list(a[:80]) for a in argv], 'r': resp.to_json(r) if r[0] != 'arr' else {'t': 'arr', 'v': []}})
                cases += 1
                if r[0] in ('none', 'closed', 'garbage') or name in (b'BLPOP', b'BRPOP', b'SELECT'):
                    cl.close()
                    cl = None
                if cases % every == 0 or r[0] in ('closed',) or (r[0] == 'none' and name not in (b'BLPOP', b'BRPOP')):
                    if not pr.probe():
                        return cases
                if not srv.alive():
                    tr.emit({'k': 'crash', 'status': srv.exit_status(), 'after': [list(a[:80]) for a in argv]})
                    return cases
            if cl is not None:
                cl.close()
                cl = None
    pr.probe()
    return cases


# commands that only the script executor implements, and options only it parses (reachable through redis.call alone)
SCRIPT_ONLY = [
    ([b'GETBIT', K, N], [2]), ([b'SETBIT', K, N, b'1'], [2]), ([b'SETBIT', K, b'7', N], [3]), ([b'BITCOUNT', K, N, N], [2, 3]), ([b'BITCOUNT', K], []),
    ([b'ZREMRANGEBYRANK', K, N, N], [2, 3]), ([b'ZREMRANGEBYSCORE', K, N, N], [2, 3]), ([b'ZREMRANGEBYLEX', K, N, N], [2, 3]),
    ([b'ZREMRANGEBYLEX', K, b'[a', b'[z'], []), ([b'TIME'], []), ([b'INFO'], []), ([b'CONFIG', b'GET', b'maxmemory'], []), ([b'CONFIG', b'SET', b'maxmemory', N], [3]),
    ([b'SET', K, b'v', b'KEEPTTL'], []), ([b'SET', K, b'v', b'GET'], []), ([b'SET', K, b'v', b'EX', N, b'KEEPTTL'], [4]),
    ([b'XREAD', b'COUNT', N, b'BLOCK', N, b'STREAMS', K, b'0'], [2, 4]), ([b'XREADGROUP', b'GROUP', b'g', b'c', b'BLOCK', N, b'STREAMS', K, b'>'], [5]),
    ([b'XADD', K, b'MAXLEN', N, b'*', b'f', b'v'], [3]), ([b'XTRIM', K, b'MINID', N], [3]), ([b'LASTSAVE'], []), ([b'RANDOMKEY'], []), ([b'KEYS', N], [1]),
    ([b'HSCAN', K, b'0', b'MATCH', N], [4]), ([b'SRANDMEMBER', K], []), ([b'LPOP', K, N], [2]), ([b'RPOP', K, N], [2]),
]

# scripts whose return value, error object or redis.call arguments are hostile (none of them loops or asks for gigabytes)
LUA_HOSTILE = [
    b"local t={} t[1]=t return t", b"local a={} local b={a} a[1]=b return a", b"local t={} t[1]={t,t} return {t,t}",
    b"local t={} local r=t for i=1,100000 do local n={} t[1]=n t=n end return r", b"local t={} local r=t for i=1,200 do local n={} t[1]=n t=n end return r",
    b"local t={} for i=1,200000 do t[i]=i end return t", b"return {1,nil,3}", b"return {[2]=1}", b"return {}", b"return {{},{{}}}",
    b"return 9007199254740993", b"return -0.0", b"return 0/0", b"return 1/0", b"return -1/0", b"return 2^63", b"return -2^63", b"return 2^64", b"return 1e308",
    b"return {1e308,-1e308,0/0,2^63}", b"return 3.999999999999999999", b"return string.rep('ab', 500000)", b"return ''", b"return '\\r\\n+OK\\r\\n'",
    b"return {ok=1}", b"return {ok={}}", b"return {err={}}", b"return {err=1}", b"return {ok='a\\r\\nb'}", b"return {err='a\\r\\nb'}", b"return {ok='x', err='y'}",
    b"error()", b"error(nil)", b"error({})", b"error({err={}})", b"error(1e308)", b"error(setmetatable({}, {__tostring=function() return 1 end}))",
    b"error(string.rep('x', 1000000))", b"return function() end", b"return coroutine.create(function() end)", b"return print", b"return redis", b"return _G",
    b"return redis.call()", b"return redis.pcall()", b"return redis.call(nil)", b"return redis.call(1)", b"return redis.call(true)", b"return redis.call({})",
    b"return redis.call('PING', nil)", b"return redis.call('SET','K',{})", b"return redis.call('SET','K',true)", b"return redis.call('SET','K',-0.0)",
    b"return redis.call('SET','K',0/0)", b"return redis.call('SET','K',1e308)", b"return redis.call('EXPIRE','K',2^62)", b"return redis.call('EXPIRE','K',1e308)",
    b"return redis.call('LRANGE','K',-2^63,2^63)", b"return redis.call('GETRANGE','K',-2^63,2^63)", b"return redis.call('SETRANGE','K',2^40,'x')",
    b"return redis.call(string.rep('x',100000))", b"return redis.call('GET', string.rep('k',1000000))", b"return redis.call('get\\r\\n','K')",
    b"return redis.call('', 'K')", b"return redis.call('EVAL','return 1','0')", b"return redis.call('SELECT', 1e308)", b"return redis.call('INCRBY','K',2^63)",
    b"return redis.call('ZADD','K',0/0,'m')", b"return redis.call('ZADD','K',1/0,'m')", b"return redis.call('ZINCRBY','K',-1/0,'m')",
    b"return redis.sha1hex()", b"return redis.sha1hex(nil)", b"return redis.sha1hex({})", b"return redis.status_reply()", b"return redis.error_reply()",
    b"return redis.status_reply({})", b"return redis.error_reply({})", b"redis.log()", b"redis.log(nil, nil)", b"redis.log(1e308, {})",
    b"return KEYS[0]", b"return ARGV[-1]", b"return KEYS[2^40]", b"KEYS=nil return 1", b"ARGV=1 return ARGV", b"redis=nil return 1", b"redis.call=nil return 1",
    b"local function f(n) return f(n+1)+1 end return f(1)", b"return string.format('%99d', 1)", b"return string.rep('x', -1)", b"return ('x'):rep(0)",
    b"return tostring(nil)..tostring({}):sub(1,5)", b"return #ARGV", b"return unpack({})", b"return unpack({1,2,3})", b"return select('#')", b"return tonumber('0x10')",
    b"return loadstring('return 1')()", b"return loadstring(string.dump(function() return 1 end))()", b"return string.dump(function() end)",
    b"local s = string.rep('x', 100) return s:rep(100):rep(10)", b"return {string.byte(string.rep('x', 7000), 1, -1)}", b"return math.huge", b"return -math.huge",
    b"return math.floor(2^53+1)", b"return math.fmod(1,0)", b"return math.random(0)", b"return math.random(2^40)", b"math.randomseed(0/0) return math.random()",
    b"return table.concat({}, nil)", b"return table.concat({1,{},3})", b"table.sort({3,1,2}, function(a,b) return true end) return 1", b"return #string.rep('x', 2^20)",
    b"return", b"", b"return return", b"\x00", b"\xff\xfe", b"--", b"return 'unterminated", b"goto x", b"return 1,2,3", b"return nil, 'x'",
]


def script_cases(ctx):
    """(type-setting command or None, argv) pairs of the script-path enumeration; None, None = probe now."""
    wrapper = [b'return redis.call(unpack(ARGV))', b'return redis.pcall(unpack(ARGV))']
    skip = (b'EVAL', b'BLPOP', b'BRPOP', b'MEMORY', b'SLOWLOG', b'CLIENT', b'OBJECT', b'COMMAND', b'PUBLISH')
    only = [t for t, _ in SCRIPT_ONLY]
    tmpls = [(t, p) for t, p in CMDS if t[0] not in skip] + SCRIPT_ONLY
    n = 0
    for ti, (tmpl, pos) in enumerate(tmpls):
        values = BOUND if pos else [b'']
        for yi, ty in enumerate(TYPES):
            if ctx.quick and pos and tmpl not in only and (ti + yi + ctx.seed) % 3:
                continue          # quick tier: a third of the (command, type) pairs the direct path already covers in full
            vs = values if not ctx.quick else [x for i, x in enumerate(values) if i % 3 == n % 3 or len(x) > 18 or x in (b'nan', b'1e308', b'') or x in ANCHOR]
            first = True
            for argv in fillings(tmpl, pos, vs):
                n += 1
                yield (ty if first else 'same'), [b'EVAL', wrapper[n % 2], b'0'] + argv
                first = False
    for src in LUA_HOSTILE:
        for ty in (TYPES[1], TYPES[2]):
            yield ty, [b'EVAL', src, b'1', K, b'a1', b'a2']
            yield None, None


def hostile_scripts(ctx, srv, tr, pr, keep_going=False):
    """The same boundary values through the script path (redis.call parses and executes commands on its own), the commands
    and options only that path knows, and scripts with hostile return values / error objects / call arguments."""
    cases = 0
    cl = None
    every = 25
    def one(argv, count=True):
        nonlocal cl, cases
        if cl is None or cl.closed:
            cl = Client(srv.port, timeout=3.0)
        r = cl.call(argv, 5.0)
        if count:
            tr.emit({'k': 'hostile', 'argv': [list(a[:80]) for a in argv], 'r': resp.to_json(r) if r[0] != 'arr' else {'t': 'arr', 'v': []}})
            cases += 1
        if r[0] in ('none', 'closed', 'garbage'):
            cl.close()
            cl = None
        if r[0] in ('closed', 'none'):
            time.sleep(0.1)            # a dying process needs a moment to be reaped
        if count and (cases % every == 0 or r[0] in ('closed', 'none')) and srv.alive():
            try:
                if not pr.probe():
                    return False
            except ServerDied:
                pass
        if not srv.alive():
            tr.emit({'k': 'crash', 'status': srv.exit_status(), 'after': [list(a[:80]) for a in argv]})
            return False
        return True
    for ty, argv in script_cases(ctx):
        if argv is None:
            pr.probe()
            continue
        ok = True
        if ty != 'same':
            ok = one([b'DEL', K], False) and (ty is None or one(ty, False))
        ok = ok and one(argv)
        if not ok:
            if not keep_going or pr.wedged:
                return cases
            srv.restart()          # triage mode: note the crash, start again, go on with the next input
            pr.setup()
            cl = None
    if cl is not None:
        cl.close()
    pr.probe()
    return cases


def shard_of(key):
    """FNV-1a 64 mod 16: the storage engine's shard of a key (multi-key commands take locks per shard)."""
    h = 0xcbf29ce484222325
    for b in key:
        h ^= b
        h = (h * 0x100000001b3) & 0xffffffffffffffff
    return h % 16


def multikey_matrix(ctx, srv, tr, pr):
    """Commands that take several keys (or the same key twice) x the state of each key (live, past its deadline but not yet
    swept, absent, another type) x shard placement (same shard, different shards, both orders).  A command thread that waits
    for a lock it already holds, or expires a key under a lock, stops answering: every case must be answered in time."""
    A = b'mk:a'
    same = next(b'mk:b%d' % i for i in range(1000) if shard_of(b'mk:b%d' % i) == shard_of(A))
    other = next(b'mk:c%d' % i for i in range(1000) if shard_of(b'mk:c%d' % i) != shard_of(A))
    states = {'set': lambda k: [[b'SADD', k, b'x', b'y']], 'expired-set': lambda k: [[b'SADD', k, b'x', b'z'], [b'PEXPIRE', k, b'1']],
              'expired-string': lambda k: [[b'SET', k, b'v', b'PX', b'1']], 'expired-list': lambda k: [[b'RPUSH', k, b'e'], [b'PEXPIRE', k, b'1']],
              'absent': lambda k: [], 'string': lambda k: [[b'SET', k, b'10']], 'list': lambda k: [[b'RPUSH', k, b'a', b'b']]}
    def cmds(x, y):
        return [[b'SINTER', x, y], [b'SUNION', x, y], [b'SDIFF', x, y], [b'SINTER', y, x, y], [b'RENAME', x, y], [b'RENAMENX', x, y],
                [b'MSET', x, b'1', y, b'2'], [b'MGET', x, y], [b'DEL', x, y], [b'EXISTS', x, y, x], [b'BLPOP', x, y, b'0.01'], [b'BRPOP', y, x, b'0.01'],
                [b'WATCH', x, y], [b'EVAL', b"return redis.call('SINTER', KEYS[1], KEYS[2])", b'2', x, y],
                [b'EVAL', b"return redis.call('RENAME', KEYS[1], KEYS[2])", b'2', x, y], [b'EVAL', b"redis.call('LPUSH', KEYS[2], 'v') return redis.call('SUNION', KEYS[1], KEYS[2])", b'2', x, y],
                [b'SINTER', x, x], [b'SDIFF', x, x], [b'RENAME', x, x], [b'RENAMENX', x, x], [b'MSET', x, b'1', x, b'2'], [b'DEL', x, x], [b'BLPOP', x, x, b'0.01']]
    cases = 0
    cl = None
    names = list(states)
    for (k1, k2) in ((A, same), (same, A), (A, other), (other, A)):
        for i1, s1 in enumerate(names):
            for i2, s2 in enumerate(names):
                if ctx.quick and 'expired' not in s1 + s2 and (i1 + i2 + ctx.seed) % 2:
                    continue
                for ci, argv in enumerate(cmds(k1, k2)):
                    if ctx.quick and (ci + i1 + i2) % 2 and argv[0] not in (b'SINTER', b'SUNION', b'SDIFF', b'RENAME', b'EVAL'):
                        continue
                    if cl is None or cl.closed:
                        cl = Client(srv.port, timeout=3.0)
                    cl.call([b'DEL', k1, k2], 3.0)
                    for a in states[s1](k1) + states[s2](k2):
                        cl.call(a, 3.0)
                    if 'expired' in s1 + s2:
                        time.sleep(0.003)
                    r = cl.call(argv, 3.0)
                    tr.emit({'k': 'hostile', 'argv': [list(a[:80]) for a in argv], 'r': resp.to_json(r) if r[0] != 'arr' else {'t': 'arr', 'v': []},
                             'states': [s1, s2]})
                    cases += 1
                    if r[0] in ('none', 'closed', 'garbage'):
                        cl.close()
                        cl = None
                        time.sleep(0.1)
                    if cases % 40 == 0 or r[0] in ('closed', 'none'):
                        try:
                            if not pr.probe():
                                return cases
                        except ServerDied:
                            pass
                    if not srv.alive():
                        tr.emit({'k': 'crash', 'status': srv.exit_status(), 'after': [list(a[:80]) for a in argv]})
                        return cases
    if cl is not None:
        cl.close()
    pr.probe()
    return cases


def send_raw(srv, data, wait=0.02):
    """Own connection, write the bytes, read whatever comes for a moment, close."""
    try:
        s = socket.create_connection(('127.0.0.1', srv.port), timeout=2.0)
    except OSError:
        return None
    try:
        s.sendall(data)
        s.settimeout(wait)
        try:
            return s.recv(4096)
        except socket.timeout:
            return b''
        except OSError:
            return b''
    except OSError:
        return b''
    finally:
        s.close()


def hostile_frames(ctx, srv, tr, pr):
    cases = 0
    maxlen = 3 if ctx.quick else 4
    batch = []
    def flush():
        if batch:
            tr.emit({'k': 'hostile', 'raw': len(batch), 'first': list(batch[0][:40]), 'last': list(batch[-1][:40])})
            pr.probe()
            del batch[:]
        return not pr.wedged
    for n in range(1, maxlen + 1):
        for tup in itertools.product(ALPHA, repeat=n):
            data = b''.join(tup)
            send_raw(srv, data, 0.0005)
            batch.append(data)
            cases += 1
            if len(batch) >= 400:
                if not srv.alive():
                    tr.emit({'k': 'crash', 'status': srv.exit_status(), 'among': [list(x) for x in batch[-5:]]})
                    return cases
                if not flush():
                    return cases
    flush()
    special = [b'*3000000000\r\n', b'*9223372036854775807\r\n', b'$9223372036854775807\r\n', b'$-2\r\n', b'*-2\r\n', b'%99999999999\r\n',
               b'~18446744073709551615\r\n', b'*1\r\n' * 100000, b'*1\r\n' * 200 + b'$4\r\nPING\r\n', b'%1\r\n+k\r\n' * 50000,
               b'$536870913\r\n', b'*1\r\n$536870913\r\n', b'\x00' * 70000, b'*2\r\n$3\r\nGET\r\n$5\r\nab', b' ' * 100000,
               b'*1000000\r\n' + b'$1\r\na\r\n' * 1000, b'+' + b'A' * 1000000 + b'\r\n', b'*1\r\n$4\r\nPING\r\n' * 20000]
    valid = resp.enc_cmd([b'SET', b'k', b'v']) + resp.enc_cmd([b'LRANGE', b'l', b'0', b'-1'])
    special += [valid[:i] for i in range(1, len(valid))]
    for data in special:
        send_raw(srv, data, 0.05)
        tr.emit({'k': 'hostile', 'raw': 1, 'first': list(data[:60]), 'len': len(data)})
        cases += 1
        if not pr.probe():
            return cases
        if not srv.alive():
            tr.emit({'k': 'crash', 'status': srv.exit_status(), 'after_raw': list(data[:60])})
            return cases
    return cases


def run(ctx):
    srv = ctx.new_server()
    tr = ctx.new_trace('hostile')
    pr = Probe(ctx, srv, tr)
    n = 0
    try:
        pr.setup()
        n += hostile_commands(ctx, srv, tr, pr)
        if srv.alive() and not pr.wedged:
            ns = hostile_scripts(ctx, srv, tr, pr)
            ctx.extra_cov['script_cases'] = ns
            n += ns
        if srv.alive() and not pr.wedged:
            nm = multikey_matrix(ctx, srv, tr, pr)
            ctx.extra_cov['multikey_cases'] = nm
            n += nm
        if srv.alive() and not pr.wedged:
            n += hostile_frames(ctx, srv, tr, pr)
    except (ServerDied, OSError):
        if not srv.alive():
            tr.emit({'k': 'crash', 'status': srv.exit_status()})
    pr.s.close_all()
    ctx.validate(tr, label='hostile')
    ctx.extra_cov['evaluations'] = n
    ctx.extra_cov['distinct_nontrivial'] = n
    ctx.extra_cov['distinct_cases'] = n
    ctx.extra_cov['probes'] = pr.n


def replay(ctx, path):
    workloads.replay_file(ctx, path)
