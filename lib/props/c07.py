"""C07 — MULTI/EXEC runs the queued commands atomically, in order, or not at all."""
import workloads
import gen
from conc import ConcRun
import forms
import formspaths
from session import Session, ServerDied

LEVEL = 'model_checking'
RULE = ('TLC explores every interleaving of 2 connections over the transaction catalogue (MC_Txn) and checks '
        'C07_QueueOnly/AllOrNothing/StateCleared/PerConnection; its transitions are printed as tests and replayed; '
        'concurrent client threads then run transfer transactions, pipelines, WATCH loops and readers against shared '
        'keys, the server-side command log (hook H3) gives the execution order and TLC must explain every reply of '
        'every client by atomic application of each EXEC at its position. Distinct = distinct generated path or '
        'distinct concurrent run.')
ASSUMPTIONS = ['the command log hook assigns sequence numbers on the single command thread (execution order)',
               'client/server reply equality is part of the trace spec, so a misplaced hook is rejected, not trusted']


def run(ctx):
    ctx.model_check('MC_Txn', 'MC_C07' if ctx.quick else 'MC_C07_full', workers=12, timeout=1500)
    paths = gen.generate_paths(ctx, 'MC_Txn', 'MC_C07_gen', conn_paths=True, limit=2500 if ctx.quick else 20000)
    ctx.extra_cov['generated_paths'] = len(paths)
    srv = ctx.new_server()
    workloads.replay_conn_paths(ctx, srv, paths, label='gen')
    runs = 6 if ctx.quick else 60
    for i in range(runs):
        conc_run(ctx, srv, i, clients=4 if ctx.quick else 6, steps=25 if ctx.quick else 60)
    ctx.extra_cov['concurrent_runs'] = runs
    # big transactions (hundreds to thousands of queued commands, sent in one write) while other clients read and write the same keys
    for i, depth in enumerate([300, 700] if ctx.quick else [257, 300, 513, 700, 1025, 3000]):
        big_txn_run(ctx, srv, i, depth)
    # transactions and scripts pushing to a key somebody is blocked on: the waiter is served after the whole EXEC / script
    import props.c13 as c13
    for name, steps in c13.txn_schedules():
        tr = ctx.new_trace('blk-' + name)
        c13.run_schedule(ctx, srv, name, steps, tr)
        ctx.validate(tr, label='blk-' + name)
        if not srv.alive():
            srv.restart()
    # a connection inside MULTI that another client ends (CLIENT KILL), or that closes itself: the queue is dropped without effect
    tr = ctx.new_trace('killed')
    s = Session(srv, tr)
    try:
        for how in ('kill', 'close', 'kill-after-watch'):
            a, b = s.open(), s.open()
            r = s.cmd(a, [b'CLIENT', b'ID'])
            s.cmd(b, [b'CLIENT', b'ID'])
            s.cmd(b, [b'FLUSHALL'])
            if how == 'kill-after-watch':
                s.cmd(a, [b'WATCH', b'w'])
            s.cmd(a, [b'MULTI'])
            s.cmd(a, [b'SET', b'queued', b'1'])
            s.cmd(a, [b'RPUSH', b'ql', b'x'])
            if how == 'close':
                s.close(a)
                s.wait_loop(3)
            elif r[0] == 'int':
                s.cmd(b, [b'CLIENT', b'KILL', b'ID', str(r[1]).encode()])
                s.wait_loop(3)
                s.cmd(a, [b'EXEC'])          # answered by a close
            s.cmd(b, [b'EXISTS', b'queued', b'ql'])
            s.cmd(b, [b'DBSIZE'])
            c = s.open()                     # a new connection starts outside any transaction
            s.cmd(c, [b'EXEC'])
            s.cmd(c, [b'SET', b'direct', b'1'])
            s.cmd(c, [b'GET', b'direct'])
            s.close_all()
    except ServerDied:
        tr.emit({'k': 'crash', 'status': srv.exit_status()})
    s.close_all()
    ctx.validate(tr, label='killed-in-multi')
    # every form of every data command queued in a transaction: same reply (inside EXEC's array) and effect as direct
    tr = ctx.new_trace('forms')
    s = Session(srv, tr)
    nf = 0
    try:
        blocking = [a for a in forms.FORMS if a[0].upper() in (b'BLPOP', b'BRPOP')]      # queued blocking pops never block: always all of them
        nf += formspaths.run_forms(s, 'multi', 0, subset=(forms.FORMS[ctx.seed % 2::2] + blocking) if ctx.quick else None)
        nf += formspaths.run_forms(s, 'multi-script', 0, subset=forms.FORMS[ctx.seed % 4::4] if ctx.quick else None)
    except ServerDied:
        tr.emit({'k': 'crash', 'status': srv.exit_status()})
    s.close_all()
    ctx.validate_segments(tr, 'forms')
    ctx.extra_cov['form_segments'] = nf
    ctx.extra_cov['distinct_cases'] = len(paths) + runs + nf


def big_txn_run(ctx, srv, i, depth):
    tr = ctx.new_trace('bigtxn%d' % i)
    setup = workloads.Session(srv, tr)
    c = setup.open()
    setup.cmd(c, [b'FLUSHALL'])
    setup.close(c)
    run = ConcRun(srv, tr)
    txn = [[b'MULTI']] + [[b'INCR', b'ctr'] if j % 3 else [b'RPUSH', b'log', b'%d' % j] for j in range(depth)] + [[b'EXEC']]
    scripts = {10: [('pipe', txn), ('cmd', [b'GET', b'ctr']), ('pipe', txn), ('cmd', [b'LLEN', b'log'])],
               11: [('cmd', [b'GET', b'ctr']) if j % 2 else ('cmd', [b'LLEN', b'log']) for j in range(120)],
               12: [('cmd', [b'MGET', b'ctr', b'other']) if j % 3 else ('cmd', [b'INCR', b'other']) for j in range(120)]}
    run.run(scripts)
    fin = workloads.Session(srv, tr)
    fin.next_id = 100
    try:
        c = fin.open()
        fin.cmd(c, [b'GET', b'ctr'])
        fin.cmd(c, [b'LLEN', b'log'])
        fin.close(c)
    except workloads.ServerDied:
        pass
    ctx.validate(tr, label='bigtxn%d' % i)
    if not srv.alive():
        srv.restart()


def conc_run(ctx, srv, i, clients, steps, evalheavy=False):
    tr = ctx.new_trace('conc%d' % i)
    accounts = [b'acct:%d' % j for j in range(4)]
    setup = workloads.Session(srv, tr)
    c = setup.open()
    setup.cmd(c, [b'FLUSHALL'])
    setup.cmd(c, [b'MSET'] + [x for a in accounts for x in (a, b'1000')])
    setup.close(c)
    run = ConcRun(srv, tr)
    scripts = {ci + 10: workloads.txn_script(ctx.rnd, ci, steps, accounts, b'shared', evalheavy) for ci in range(clients)}
    run.run(scripts)
    fin = workloads.Session(srv, tr)
    fin.next_id = 100
    try:
        c = fin.open()
        fin.cmd(c, [b'MGET'] + accounts + [b'shared'])
        fin.close(c)
    except workloads.ServerDied:
        pass
    ctx.validate(tr, label='conc%d' % i)
    if not srv.alive():
        srv.restart()


def replay(ctx, path):
    workloads.replay_file(ctx, path)
