"""C08 — WATCH aborts EXEC whenever a watched key changed, and only then."""
import time
import workloads
import gen
from session import Session, ServerDied

LEVEL = 'model_checking'
RULE = ('TLC checks the implementation-shaped model of the mechanism (spec/impl/ImplWatch.tla: registration counts, per-key counters, the fast path of '
        'mark_key_modified, baselines per (database, key), lazy expiry and sweeper stamps, FLUSHDB, every way of forgetting the watches) for Sound / Precise / '
        'DirtySeen / CleanUnseen / ActiveCovers over every interleaving within the bounds, with four pinned / wrong designs as controls that must fail; behaviours '
        'sampled from that model (TLC -simulate: 3 connections, 3 keys in 2 shards, 2 databases, 22 steps) are replayed on the real server and validated against '
        'the reference specification; TLC checks on MC_Txn (all interleavings of 2 connections) that the dirtiness bookkeeping of the spec agrees with '
        'a ghost that records whether a watched entry changed since WATCH (abort when changed, no abort when nobody '
        'addressed a watched key, UNWATCH/EXEC/DISCARD forget); scenarios <pre-state type x write command x path '
        '(other connection, same connection, inside another EXEC, expiry by deadline) x target (watched key, other key, '
        'same name in another database)> are enumerated and run on the real server; the EXEC reply (nil vs array) and the '
        'dataset afterwards are validated by TLC; scenarios with two watchers of one key (the other one unwatches, runs, '
        'discards, re-watches or disconnects after the write) and random interleavings of four connections that '
        'watch / unwatch / transact / write / reconnect over three keys of two databases are validated the same way; the forms catalogue '
        '(403 forms: every option combination and argument class of every data command over keys of every type) is run by another connection, directly, inside EXEC and '
        'from a script, while a watcher holds the keys of the pre-state (abort exactly when an entry changed) or only keys the form does not name (never abort). '
        'Distinct = distinct scenario or random history.')
ASSUMPTIONS = ['a successful write that changes nothing (SADD of a present member, ...) may or may not abort (MayTouch)',
               'expiry scenarios use 40 ms TTLs and sleep past the deadline by the observer clock']

W, O = b'wk', b'ok'


def shard_of(key):
    """Shard placement of a key (FNV-1a 64 mod 16, as the storage engine computes it): two-key commands take different
    code paths for keys of the same shard and of different shards, so scenarios cover both placements."""
    h = 0xcbf29ce484222325
    for b in key:
        h ^= b
        h = (h * 0x100000001b3) & 0xffffffffffffffff
    return h % 16


def name_in_shard(prefix, same_as, same=True):
    i = 0
    while True:
        k = prefix + str(i).encode()
        if (shard_of(k) == shard_of(same_as)) == same and k != same_as:
            return k
        i += 1


SRC_SAME, SRC_OTHER = name_in_shard(b'src', W, True), name_in_shard(b'src', W, False)
DST_SAME, DST_OTHER = name_in_shard(b'dst', W, True), name_in_shard(b'dst', W, False)

PRE = {
    'absent': [],
    'string': [[b'SET', W, b'10']],
    'list': [[b'RPUSH', W, b'a', b'b', b'c']],
    'set': [[b'SADD', W, b'a', b'b']],
    'hash': [[b'HSET', W, b'f', b'1']],
    'zset': [[b'ZADD', W, b'1', b'a', b'2', b'b']],
    'string+ttl': [[b'SET', W, b'10', b'EX', b'1000']],
}


def writes(T):
    """(label, [argvs]) — every write command of the server, addressed to key T."""
    L = [
        ('SET', [[b'SET', T, b'v']]), ('SET-same', [[b'SET', T, b'10']]), ('SETNX', [[b'SETNX', T, b'v']]),
        ('SETEX', [[b'SETEX', T, b'100', b'v']]), ('PSETEX', [[b'PSETEX', T, b'100000', b'v']]),
        ('MSET', [[b'MSET', T, b'v', O + b'2', b'x']]), ('GETSET', [[b'GETSET', T, b'v']]), ('APPEND', [[b'APPEND', T, b'x']]),
        ('SETRANGE', [[b'SETRANGE', T, b'1', b'x']]), ('INCR', [[b'INCR', T]]), ('DECR', [[b'DECR', T]]),
        ('INCRBY', [[b'INCRBY', T, b'5']]), ('DECRBY', [[b'DECRBY', T, b'5']]), ('DEL', [[b'DEL', T]]),
        ('RENAME-from-sameshard', [[b'RENAME', T, DST_SAME]]), ('RENAME-from-othershard', [[b'RENAME', T, DST_OTHER]]),
        ('RENAME-to-sameshard', [[b'SET', SRC_SAME, b'1'], [b'RENAME', SRC_SAME, T]]),
        ('RENAME-to-othershard', [[b'SET', SRC_OTHER, b'1'], [b'RENAME', SRC_OTHER, T]]),
        ('RENAMENX-from-sameshard', [[b'RENAMENX', T, DST_SAME]]), ('RENAMENX-from-othershard', [[b'RENAMENX', T, DST_OTHER]]),
        ('RENAMENX-to-sameshard', [[b'SET', SRC_SAME, b'1'], [b'RENAMENX', SRC_SAME, T]]),
        ('RENAMENX-to-othershard', [[b'SET', SRC_OTHER, b'1'], [b'RENAMENX', SRC_OTHER, T]]),
        ('EXPIRE', [[b'EXPIRE', T, b'100']]), ('PEXPIRE', [[b'PEXPIRE', T, b'100000']]), ('EXPIRE-0', [[b'EXPIRE', T, b'0']]),
        ('PERSIST', [[b'PERSIST', T]]), ('FLUSHDB', [[b'FLUSHDB']]), ('FLUSHALL', [[b'FLUSHALL']]),
        ('LPUSH', [[b'LPUSH', T, b'x']]), ('RPUSH', [[b'RPUSH', T, b'x']]), ('LPOP', [[b'LPOP', T]]), ('RPOP', [[b'RPOP', T]]),
        ('LSET', [[b'LSET', T, b'0', b'x']]), ('LTRIM', [[b'LTRIM', T, b'0', b'0']]), ('LTRIM-noop', [[b'LTRIM', T, b'0', b'-1']]),
        ('LREM', [[b'LREM', T, b'0', b'a']]),
        ('SADD', [[b'SADD', T, b'x']]), ('SADD-noop', [[b'SADD', T, b'a']]), ('SREM', [[b'SREM', T, b'a']]), ('SPOP', [[b'SPOP', T]]),
        ('HSET', [[b'HSET', T, b'g', b'1']]), ('HMSET', [[b'HMSET', T, b'g', b'1']]), ('HDEL', [[b'HDEL', T, b'f']]),
        ('HDEL-noop', [[b'HDEL', T, b'nofield']]), ('HINCRBY', [[b'HINCRBY', T, b'f', b'1']]),
        ('ZADD', [[b'ZADD', T, b'3', b'c']]), ('ZREM', [[b'ZREM', T, b'a']]), ('ZINCRBY', [[b'ZINCRBY', T, b'1', b'a']]),
        ('ZPOPMIN', [[b'ZPOPMIN', T]]), ('ZPOPMAX', [[b'ZPOPMAX', T]]),
        ('GET-readonly', [[b'GET', T]]), ('TYPE-readonly', [[b'TYPE', T]]), ('LRANGE-readonly', [[b'LRANGE', T, b'0', b'-1']]),
    ]
    return L


def scenarios(quick):
    out = []
    pres = list(PRE) if not quick else ['absent', 'string', 'list', 'hash', 'string+ttl']
    for pre in pres:
        for label, ws in writes(W):
            for path in (['other', 'exec'] if quick else ['other', 'same', 'exec']):
                st = [(2, a) for a in PRE[pre]]
                st.append((1, [b'WATCH', W]))
                wc = 1 if path == 'same' else 2
                if path == 'exec':
                    st.append((2, [b'MULTI']))
                for a in ws:
                    st.append((wc, a))
                if path == 'exec':
                    st.append((2, [b'EXEC']))
                st += [(1, [b'MULTI']), (1, [b'SET', b'marker', b'1']), (1, [b'EXEC']), (1, [b'EXISTS', b'marker']), (1, [b'TYPE', W])]
                out.append(('%s/%s/%s/watched' % (pre, label, path), st))
    # no-false-abort side: writes to another key, and to the same name in another database
    for pre in (['string', 'list'] if quick else ['absent', 'string', 'list', 'set', 'hash', 'zset']):
        for label, ws in writes(O):
            if label in ('FLUSHDB', 'FLUSHALL', 'MSET'):
                continue
            st = [(2, a) for a in PRE[pre]] + [(2, [b'SET', O, b'10'])]
            st += [(1, [b'WATCH', W])] + [(2, a) for a in ws]
            st += [(1, [b'MULTI']), (1, [b'SET', b'marker', b'1']), (1, [b'EXEC']), (1, [b'EXISTS', b'marker'])]
            out.append(('%s/%s/other-key' % (pre, label), st))
        for label, ws in writes(W)[:14] + [w for w in writes(W) if w[0] in ('FLUSHDB', 'LPUSH', 'DEL', 'EXPIRE')]:
            if label.startswith('RENAME'):
                continue
            st = [(2, a) for a in PRE[pre]]
            st += [(1, [b'WATCH', W]), (2, [b'SELECT', b'1'])] + [(2, a) for a in ws]
            st += [(1, [b'MULTI']), (1, [b'SET', b'marker', b'1']), (1, [b'EXEC']), (1, [b'EXISTS', b'marker'])]
            out.append(('%s/%s/other-db' % (pre, label), st))
    # WATCH forgetting and db-at-WATCH-time
    out.append(('unwatch', [(1, [b'WATCH', W]), (2, [b'SET', W, b'x']), (1, [b'UNWATCH']), (1, [b'MULTI']), (1, [b'SET', b'marker', b'1']), (1, [b'EXEC'])]))
    out.append(('discard-forgets', [(1, [b'WATCH', W]), (2, [b'SET', W, b'x']), (1, [b'MULTI']), (1, [b'DISCARD']), (1, [b'MULTI']), (1, [b'SET', b'marker', b'1']), (1, [b'EXEC'])]))
    out.append(('exec-forgets', [(1, [b'WATCH', W]), (1, [b'MULTI']), (1, [b'EXEC']), (2, [b'SET', W, b'x']), (1, [b'MULTI']), (1, [b'SET', b'marker', b'1']), (1, [b'EXEC'])]))
    out.append(('watch-then-select', [(1, [b'WATCH', W]), (1, [b'SELECT', b'1']), (2, [b'SET', W, b'x']), (1, [b'MULTI']), (1, [b'SET', b'marker', b'1']), (1, [b'EXEC'])]))
    out.append(('watch-then-select-otherdb-write', [(1, [b'WATCH', W]), (1, [b'SELECT', b'1']), (2, [b'SELECT', b'1']), (2, [b'SET', W, b'x']), (1, [b'MULTI']), (1, [b'SET', b'marker', b'1']), (1, [b'EXEC'])]))
    out.append(('two-keys-second-touched', [(1, [b'WATCH', W, O]), (2, [b'SET', O, b'x']), (1, [b'MULTI']), (1, [b'SET', b'marker', b'1']), (1, [b'EXEC'])]))
    out.append(('rewatch-keeps-dirty', [(1, [b'WATCH', W]), (2, [b'SET', W, b'x']), (1, [b'WATCH', W]), (1, [b'MULTI']), (1, [b'SET', b'marker', b'1']), (1, [b'EXEC'])]))
    # several watchers of one key: what one of them does afterwards must not erase the change for the others
    mark = [(1, [b'MULTI']), (1, [b'SET', b'marker', b'1']), (1, [b'EXEC']), (1, [b'EXISTS', b'marker'])]
    for wlabel, w in [('SET', [b'SET', W, b'x']), ('INCR', [b'INCR', W]), ('LPOP', [b'LPOP', W]), ('DEL', [b'DEL', W])]:
        pre = [(3, [b'RPUSH', W, b'a', b'b'])] if wlabel == 'LPOP' else ([(3, [b'SET', W, b'5'])] if wlabel in ('INCR', 'DEL') else [])
        for elabel, ending in [('unwatch', [(2, [b'UNWATCH'])]), ('exec', [(2, [b'MULTI']), (2, [b'EXEC'])]),
                               ('discard', [(2, [b'MULTI']), (2, [b'DISCARD'])]), ('close', [('close', 2)]),
                               ('rewatch', [(2, [b'WATCH', W])]), ('none', [])]:
            for who in (2, 3):
                st = pre + [(1, [b'WATCH', W]), (2, [b'WATCH', W]), (who, w)] + ending + mark
                out.append(('two-watchers/%s/writer%d/%s' % (wlabel, who, elabel), st))
        out.append(('two-watchers/%s/second-watches-after-write' % wlabel,
                    pre + [(1, [b'WATCH', W]), (3, w), (2, [b'WATCH', W]), (2, [b'UNWATCH'])] + mark))
        out.append(('two-watchers/%s/first-unwatches' % wlabel,
                    pre + [(2, [b'WATCH', W]), (1, [b'WATCH', W]), (2, [b'UNWATCH']), (3, w)] + mark))
    # expiry by deadline while watched
    for pre in (['string'] if quick else ['string', 'list', 'hash']):
        mk = {'string': [b'SET', W, b'v'], 'list': [b'RPUSH', W, b'a'], 'hash': [b'HSET', W, b'f', b'v']}[pre]
        st = [(2, mk), (2, [b'PEXPIRE', W, b'40']), (1, [b'WATCH', W]), ('sleep', 80),
              (1, [b'MULTI']), (1, [b'SET', b'marker', b'1']), (1, [b'EXEC']), (1, [b'EXISTS', b'marker'])]
        out.append(('%s/expiry/deadline' % pre, st))
        if not quick:
            st2 = [x if x != ('sleep', 80) else ('sleep', 2300) for x in st]
            out.append(('%s/expiry/sweeper' % pre, st2))
    return out


def run_scenarios(ctx, srv, scs, label):
    i = 0
    while i < len(scs):
        s = workloads.fresh_session(ctx, srv, label)
        try:
            while i < len(scs) and s.trace.n < 1500:
                name, steps = scs[i]
                admin = s.open()
                s.cmd(admin, [b'FLUSHALL'])
                s.close(admin)
                s.note(name)
                cmap = {}
                for st in steps:
                    if st[0] == 'sleep':
                        time.sleep(st[1] / 1000.0)
                        continue
                    if st[0] == 'close':
                        if cmap.get(st[1]) in s.clients:
                            s.close(cmap.pop(st[1]))
                        continue
                    c, a = st
                    if c not in cmap or cmap[c] not in s.clients:
                        cmap[c] = s.open()
                    s.cmd(cmap[c], a)
                for c in list(cmap.values()):
                    if c in s.clients:
                        s.close(c)
                i += 1
        except ServerDied:
            i += 1
        s.close_all()
        ctx.validate(s.trace, label='%s[..%d]' % (label, i))
        if not srv.alive():
            srv.restart()


class WatchGen:
    """Random interleaving of a few connections that watch, unwatch, open / run / discard transactions, write directly,
    change database and reconnect, over three keys of two databases."""
    KEYS = [W, O, b'k3']

    def __init__(self, rnd, nconn=4):
        self.rnd = rnd
        self.conns = list(range(1, nconn + 1))
        self.multi = {c: False for c in self.conns}

    def write(self):
        r = self.rnd
        k = r.choice(self.KEYS)
        return r.choice([[b'SET', k, r.choice([b'1', b'v'])], [b'INCR', k], [b'DEL', k], [b'LPUSH', k, b'x'], [b'LPOP', k],
                         [b'APPEND', k, b'z'], [b'SADD', k, b'm'], [b'SREM', k, b'm'], [b'HSET', k, b'f', b'1'],
                         [b'RENAME', k, r.choice(self.KEYS)], [b'EXPIRE', k, b'0'], [b'PEXPIRE', k, b'100000'], [b'PERSIST', k],
                         [b'SET', k, b'1'], [b'DEL', k], [b'SETNX', k, b'n'], [b'MSET', k, b'1', r.choice(self.KEYS), b'2'],
                         [b'ZADD', k, b'1', b'a'], [b'GETSET', k, b'g']])

    def next(self):
        r = self.rnd
        c = r.choice(self.conns)
        x = r.random()
        if self.multi[c]:
            if x < 0.45:
                return c, (self.write() if r.random() < 0.8 else [b'GET', r.choice(self.KEYS)])
            if x < 0.82:
                self.multi[c] = False
                return c, [b'EXEC']
            if x < 0.92:
                self.multi[c] = False
                return c, [b'DISCARD']
            if x < 0.96:
                return c, [b'WATCH', r.choice(self.KEYS)]
            return c, [b'MULTI']
        if x < 0.25:
            return c, [b'WATCH'] + r.sample(self.KEYS, r.choice([1, 1, 2, 3]))
        if x < 0.33:
            return c, [b'UNWATCH']
        if x < 0.53:
            self.multi[c] = True
            return c, [b'MULTI']
        if x < 0.83:
            return c, self.write()
        if x < 0.87:
            return c, 'reconnect'
        if x < 0.91:
            return c, [b'SELECT', r.choice([b'0', b'0', b'1'])]
        if x < 0.93:
            return c, r.choice([[b'EXEC'], [b'DISCARD'], [b'FLUSHDB']])
        return c, [b'GET', r.choice(self.KEYS)]


def random_watch_history(ctx, srv, n, label):
    s = workloads.fresh_session(ctx, srv, label)
    g = WatchGen(ctx.rnd)
    cmap = {}
    try:
        admin = s.open()
        s.cmd(admin, [b'FLUSHALL'])
        for _ in range(n):
            c, a = g.next()
            if a == 'reconnect':
                if cmap.get(c) in s.clients:
                    s.close(cmap.pop(c))
                g.multi[c] = False
                continue
            if cmap.get(c) not in s.clients:
                cmap[c] = s.open()
                g.multi[c] = False
            s.cmd(cmap[c], a)
        for d in (b'0', b'1'):
            s.cmd(admin, [b'SELECT', d])
            workloads.dump_db(s, admin)
    except ServerDied:
        pass
    s.close_all()
    ctx.validate(s.trace, label=label)
    if not srv.alive():
        srv.restart()


IMPL_KEYS = {1: W, 2: name_in_shard(b'kk', W, True), 3: name_in_shard(b'kk', W, False)}


def impl_watch_scenarios(ctx, num):
    """Behaviours sampled from the mechanism model spec/impl/ImplWatch.tla (three connections, two keys of one shard and one
    of another, two databases; watch / re-watch / unwatch / MULTI with a queued write / EXEC / DISCARD / close / SELECT /
    SET / DEL / PEXPIRE / FLUSHDB / a deadline passing) turned into scenarios for the real server."""
    paths = ctx.simulate_paths('ImplWatch', 'MC_Watch_sim', num, 23)
    out = []
    for n, path in enumerate(paths):
        steps = []
        for i, ev in enumerate(path):
            a, c = ev['a'], ev.get('c')
            k = IMPL_KEYS.get(ev.get('k'))
            v = b'v%d' % i
            if a == 'watch':
                steps.append((c, [b'WATCH', k]))
            elif a == 'unwatch':
                steps.append((c, [b'UNWATCH']))
            elif a == 'multi':
                steps.append((c, [b'MULTI']))
                if k is not None:
                    steps.append((c, [b'SET', k, v]))
            elif a == 'exec':
                steps.append((c, [b'EXEC']))
            elif a == 'discard':
                steps.append((c, [b'DISCARD']))
            elif a == 'close':
                steps.append(('close', c))
            elif a == 'select':
                steps.append((c, [b'SELECT', str(ev['d']).encode()]))
            elif a == 'write':
                steps.append((c, [b'SET', k, v]))
            elif a == 'del':
                steps.append((c, [b'DEL', k]))
            elif a == 'expire':
                steps.append((c, [b'PEXPIRE', k, b'60']))
            elif a == 'flush':
                steps.append((c, [b'FLUSHDB']))
            elif a == 'due':
                steps.append(('sleep', 70))
        out.append(('implwatch-%d' % n, steps))
    return out


def run(ctx):
    ctx.model_check('MC_Txn', 'MC_C07' if ctx.quick else 'MC_C07_full', workers=12, timeout=1500)
    # the mechanism (registration counts, per-key counters, baselines, the fast path of mark_key_modified, lazy expiry and the
    # sweeper stamping what they remove): every interleaving within the bounds; the pinned / wrong designs must fail
    ctx.model_check('ImplWatch', 'MC_Watch_fixed_quick' if ctx.quick else 'MC_Watch_fixed', workers=12, timeout=2400, subdir='impl')
    if not ctx.quick:
        ctx.model_check('ImplWatch', 'MC_Watch_exact', workers=12, timeout=2400, subdir='impl')
    ctx.extra_cov['implwatch_controls'] = {c: ctx.model_control('ImplWatch', c) for c in
                                           ('MC_Watch_pinned_flush', 'MC_Watch_pinned_rewatch', 'MC_Watch_pinned_db', 'MC_Watch_wrong_release')}
    scs = scenarios(ctx.quick)
    ctx.extra_cov['scenarios'] = len(scs)
    ctx.extra_cov['distinct_cases'] = len(scs)
    srv = ctx.new_server()
    run_scenarios(ctx, srv, scs, 'watch')
    iw = impl_watch_scenarios(ctx, 150 if ctx.quick else 1500)
    run_scenarios(ctx, srv, iw, 'implwatch')
    ctx.extra_cov['implwatch_behaviours_replayed'] = len(iw)
    hist = 8 if ctx.quick else 80
    for i in range(hist):
        random_watch_history(ctx, srv, 300 if ctx.quick else 600, 'wrand%d' % i)
    ctx.extra_cov['random_watch_histories'] = hist
    # the forms catalogue (every option combination and argument class of every data command over keys of every type) run by
    # another connection — directly, inside EXEC, from a script — while a watcher holds the keys of the pre-state (must abort
    # exactly when an entry changed) or only the keys the form does not name (must never abort)
    import forms, formspaths
    tr = ctx.new_trace('forms')
    s = Session(srv, tr)
    nf = 0
    F = forms.FORMS
    try:
        if ctx.quick:
            nf += formspaths.run_forms(s, 'watched-direct', 0)
            nf += formspaths.run_forms(s, 'watched-multi', 0, subset=F[ctx.seed % 4::4])
            nf += formspaths.run_forms(s, 'watched-script', 0, subset=F[(ctx.seed + 1) % 4::4])
            nf += formspaths.run_forms(s, 'watched-others-direct', 0, subset=F[(ctx.seed + 2) % 3::3])
        else:
            for path in ('watched-direct', 'watched-multi', 'watched-script', 'watched-pcall', 'watched-others-direct', 'watched-others-multi', 'watched-others-script'):
                nf += formspaths.run_forms(s, path, 0)
            nf += formspaths.run_forms(s, 'watched-direct', 3, 0)
    except ServerDied:
        tr.emit({'k': 'crash', 'status': srv.exit_status()})
    s.close_all()
    ctx.validate_segments(tr, 'forms')
    ctx.extra_cov['form_segments'] = nf
    ctx.extra_cov['distinct_cases'] = len(scs) + len(iw) + hist + nf


def replay(ctx, path):
    workloads.replay_file(ctx, path)
