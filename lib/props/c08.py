"""C08 — WATCH aborts EXEC whenever a watched key changed, and only then."""
import time
import workloads
import gen
from session import Session, ServerDied

LEVEL = 'model_checking'
RULE = ('TLC checks on MC_Txn (all interleavings of 2 connections) that the dirtiness bookkeeping of the spec agrees with '
        'a ghost that records whether a watched entry changed since WATCH (abort when changed, no abort when nobody '
        'addressed a watched key, UNWATCH/EXEC/DISCARD forget); scenarios <pre-state type x write command x path '
        '(other connection, same connection, inside another EXEC, expiry by deadline) x target (watched key, other key, '
        'same name in another database)> are enumerated and run on the real server; the EXEC reply (nil vs array) and the '
        'dataset afterwards are validated by TLC. Distinct = distinct scenario.')
ASSUMPTIONS = ['a successful write that changes nothing (SADD of a present member, ...) may or may not abort (MayTouch)',
               'expiry scenarios use 40 ms TTLs and sleep past the deadline by the observer clock']

W, O = b'wk', b'ok'


def shard_of(key):
    """Shard placement of a key (FNV-1a 64 mod 16, as the storage engine computes it): two-key commands take different
    code paths for keys of the same shard and of different shards, so scenarios cover both placements."""
    h = 0xcbf29ce484222325
    for b in key:
        h ^= b
        h = (h * 0x100000001b3) & 0xffffffffffffffff
    return h % 16


def name_in_shard(prefix, same_as, same=True):
    i = 0
    while True:
        k = prefix + str(i).encode()
        if (shard_of(k) == shard_of(same_as)) == same and k != same_as:
            return k
        i += 1


SRC_SAME, SRC_OTHER = name_in_shard(b'src', W, True), name_in_shard(b'src', W, False)
DST_SAME, DST_OTHER = name_in_shard(b'dst', W, True), name_in_shard(b'dst', W, False)

PRE = {
    'absent': [],
    'string': [[b'SET', W, b'10']],
    'list': [[b'RPUSH', W, b'a', b'b', b'c']],
    'set': [[b'SADD', W, b'a', b'b']],
    'hash': [[b'HSET', W, b'f', b'1']],
    'zset': [[b'ZADD', W, b'1', b'a', b'2', b'b']],
    'string+ttl': [[b'SET', W, b'10', b'EX', b'1000']],
}


def writes(T):
    """(label, [argvs]) — every write command of the server, addressed to key T."""
    L = [
        ('SET', [[b'SET', T, b'v']]), ('SET-same', [[b'SET', T, b'10']]), ('SETNX', [[b'SETNX', T, b'v']]),
        ('SETEX', [[b'SETEX', T, b'100', b'v']]), ('PSETEX', [[b'PSETEX', T, b'100000', b'v']]),
        ('MSET', [[b'MSET', T, b'v', O + b'2', b'x']]), ('GETSET', [[b'GETSET', T, b'v']]), ('APPEND', [[b'APPEND', T, b'x']]),
        ('SETRANGE', [[b'SETRANGE', T, b'1', b'x']]), ('INCR', [[b'INCR', T]]), ('DECR', [[b'DECR', T]]),
        ('INCRBY', [[b'INCRBY', T, b'5']]), ('DECRBY', [[b'DECRBY', T, b'5']]), ('DEL', [[b'DEL', T]]),
        ('RENAME-from-sameshard', [[b'RENAME', T, DST_SAME]]), ('RENAME-from-othershard', [[b'RENAME', T, DST_OTHER]]),
        ('RENAME-to-sameshard', [[b'SET', SRC_SAME, b'1'], [b'RENAME', SRC_SAME, T]]),
        ('RENAME-to-othershard', [[b'SET', SRC_OTHER, b'1'], [b'RENAME', SRC_OTHER, T]]),
        ('RENAMENX-from-sameshard', [[b'RENAMENX', T, DST_SAME]]), ('RENAMENX-from-othershard', [[b'RENAMENX', T, DST_OTHER]]),
        ('RENAMENX-to-sameshard', [[b'SET', SRC_SAME, b'1'], [b'RENAMENX', SRC_SAME, T]]),
        ('RENAMENX-to-othershard', [[b'SET', SRC_OTHER, b'1'], [b'RENAMENX', SRC_OTHER, T]]),
        ('EXPIRE', [[b'EXPIRE', T, b'100']]), ('PEXPIRE', [[b'PEXPIRE', T, b'100000']]), ('EXPIRE-0', [[b'EXPIRE', T, b'0']]),
        ('PERSIST', [[b'PERSIST', T]]), ('FLUSHDB', [[b'FLUSHDB']]), ('FLUSHALL', [[b'FLUSHALL']]),
        ('LPUSH', [[b'LPUSH', T, b'x']]), ('RPUSH', [[b'RPUSH', T, b'x']]), ('LPOP', [[b'LPOP', T]]), ('RPOP', [[b'RPOP', T]]),
        ('LSET', [[b'LSET', T, b'0', b'x']]), ('LTRIM', [[b'LTRIM', T, b'0', b'0']]), ('LTRIM-noop', [[b'LTRIM', T, b'0', b'-1']]),
        ('LREM', [[b'LREM', T, b'0', b'a']]),
        ('SADD', [[b'SADD', T, b'x']]), ('SADD-noop', [[b'SADD', T, b'a']]), ('SREM', [[b'SREM', T, b'a']]), ('SPOP', [[b'SPOP', T]]),
        ('HSET', [[b'HSET', T, b'g', b'1']]), ('HMSET', [[b'HMSET', T, b'g', b'1']]), ('HDEL', [[b'HDEL', T, b'f']]),
        ('HDEL-noop', [[b'HDEL', T, b'nofield']]), ('HINCRBY', [[b'HINCRBY', T, b'f', b'1']]),
        ('ZADD', [[b'ZADD', T, b'3', b'c']]), ('ZREM', [[b'ZREM', T, b'a']]), ('ZINCRBY', [[b'ZINCRBY', T, b'1', b'a']]),
        ('ZPOPMIN', [[b'ZPOPMIN', T]]), ('ZPOPMAX', [[b'ZPOPMAX', T]]),
        ('GET-readonly', [[b'GET', T]]), ('TYPE-readonly', [[b'TYPE', T]]), ('LRANGE-readonly', [[b'LRANGE', T, b'0', b'-1']]),
    ]
    return L


def scenarios(quick):
    out = []
    pres = list(PRE) if not quick else ['absent', 'string', 'list', 'hash', 'string+ttl']
    for pre in pres:
        for label, ws in writes(W):
            for path in (['other', 'exec'] if quick else ['other', 'same', 'exec']):
                st = [(2, a) for a in PRE[pre]]
                st.append((1, [b'WATCH', W]))
                wc = 1 if path == 'same' else 2
                if path == 'exec':
                    st.append((2, [b'MULTI']))
                for a in ws:
                    st.append((wc, a))
                if path == 'exec':
                    st.append((2, [b'EXEC']))
                st += [(1, [b'MULTI']), (1, [b'SET', b'marker', b'1']), (1, [b'EXEC']), (1, [b'EXISTS', b'marker']), (1, [b'TYPE', W])]
                out.append(('%s/%s/%s/watched' % (pre, label, path), st))
    # no-false-abort side: writes to another key, and to the same name in another database
    for pre in (['string', 'list'] if quick else ['absent', 'string', 'list', 'set', 'hash', 'zset']):
        for label, ws in writes(O):
            if label in ('FLUSHDB', 'FLUSHALL', 'MSET'):
                continue
            st = [(2, a) for a in PRE[pre]] + [(2, [b'SET', O, b'10'])]
            st += [(1, [b'WATCH', W])] + [(2, a) for a in ws]
            st += [(1, [b'MULTI']), (1, [b'SET', b'marker', b'1']), (1, [b'EXEC']), (1, [b'EXISTS', b'marker'])]
            out.append(('%s/%s/other-key' % (pre, label), st))
        for label, ws in writes(W)[:14] + [w for w in writes(W) if w[0] in ('FLUSHDB', 'LPUSH', 'DEL', 'EXPIRE')]:
            if label.startswith('RENAME'):
                continue
            st = [(2, a) for a in PRE[pre]]
            st += [(1, [b'WATCH', W]), (2, [b'SELECT', b'1'])] + [(2, a) for a in ws]
            st += [(1, [b'MULTI']), (1, [b'SET', b'marker', b'1']), (1, [b'EXEC']), (1, [b'EXISTS', b'marker'])]
            out.append(('%s/%s/other-db' % (pre, label), st))
    # WATCH forgetting and db-at-WATCH-time
    out.append(('unwatch', [(1, [b'WATCH', W]), (2, [b'SET', W, b'x']), (1, [b'UNWATCH']), (1, [b'MULTI']), (1, [b'SET', b'marker', b'1']), (1, [b'EXEC'])]))
    out.append(('discard-forgets', [(1, [b'WATCH', W]), (2, [b'SET', W, b'x']), (1, [b'MULTI']), (1, [b'DISCARD']), (1, [b'MULTI']), (1, [b'SET', b'marker', b'1']), (1, [b'EXEC'])]))
    out.append(('exec-forgets', [(1, [b'WATCH', W]), (1, [b'MULTI']), (1, [b'EXEC']), (2, [b'SET', W, b'x']), (1, [b'MULTI']), (1, [b'SET', b'marker', b'1']), (1, [b'EXEC'])]))
    out.append(('watch-then-select', [(1, [b'WATCH', W]), (1, [b'SELECT', b'1']), (2, [b'SET', W, b'x']), (1, [b'MULTI']), (1, [b'SET', b'marker', b'1']), (1, [b'EXEC'])]))
    out.append(('watch-then-select-otherdb-write', [(1, [b'WATCH', W]), (1, [b'SELECT', b'1']), (2, [b'SELECT', b'1']), (2, [b'SET', W, b'x']), (1, [b'MULTI']), (1, [b'SET', b'marker', b'1']), (1, [b'EXEC'])]))
    out.append(('two-keys-second-touched', [(1, [b'WATCH', W, O]), (2, [b'SET', O, b'x']), (1, [b'MULTI']), (1, [b'SET', b'marker', b'1']), (1, [b'EXEC'])]))
    out.append(('rewatch-keeps-dirty', [(1, [b'WATCH', W]), (2, [b'SET', W, b'x']), (1, [b'WATCH', W]), (1, [b'MULTI']), (1, [b'SET', b'marker', b'1']), (1, [b'EXEC'])]))
    # expiry by deadline while watched
    for pre in (['string'] if quick else ['string', 'list', 'hash']):
        mk = {'string': [b'SET', W, b'v'], 'list': [b'RPUSH', W, b'a'], 'hash': [b'HSET', W, b'f', b'v']}[pre]
        st = [(2, mk), (2, [b'PEXPIRE', W, b'40']), (1, [b'WATCH', W]), ('sleep', 80),
              (1, [b'MULTI']), (1, [b'SET', b'marker', b'1']), (1, [b'EXEC']), (1, [b'EXISTS', b'marker'])]
        out.append(('%s/expiry/deadline' % pre, st))
        if not quick:
            st2 = [x if x != ('sleep', 80) else ('sleep', 2300) for x in st]
            out.append(('%s/expiry/sweeper' % pre, st2))
    return out


def run_scenarios(ctx, srv, scs, label):
    i = 0
    while i < len(scs):
        s = workloads.fresh_session(ctx, srv, label)
        try:
            while i < len(scs) and s.trace.n < 1500:
                name, steps = scs[i]
                admin = s.open()
                s.cmd(admin, [b'FLUSHALL'])
                s.close(admin)
                s.note(name)
                cmap = {}
                for st in steps:
                    if st[0] == 'sleep':
                        time.sleep(st[1] / 1000.0)
                        continue
                    c, a = st
                    if c not in cmap or cmap[c] not in s.clients:
                        cmap[c] = s.open()
                    s.cmd(cmap[c], a)
                for c in list(cmap.values()):
                    if c in s.clients:
                        s.close(c)
                i += 1
        except ServerDied:
            i += 1
        s.close_all()
        ctx.validate(s.trace, label='%s[..%d]' % (label, i))
        if not srv.alive():
            srv.restart()


def run(ctx):
    ctx.model_check('MC_Txn', 'MC_C07' if ctx.quick else 'MC_C07_full', workers=12, timeout=1500)
    scs = scenarios(ctx.quick)
    ctx.extra_cov['scenarios'] = len(scs)
    ctx.extra_cov['distinct_cases'] = len(scs)
    srv = ctx.new_server()
    run_scenarios(ctx, srv, scs, 'watch')


def replay(ctx, path):
    workloads.replay_file(ctx, path)
