"""C09 — an RDB snapshot restores exactly the dataset that was saved."""
import time
import workloads
from session import Session, ServerDied

LEVEL = 'model_checking'
RULE = ('SAVE - changes of ONE kind - SAVE - restart histories for twelve kinds of change (direct, blocking pop answered at once, scripts ending normally / in an error / by digest behind a failing pcall, EXEC, deadlines, pops to nothing, FLUSHDB and RENAME, streams, TTL only, nothing) are validated like the round trips. '
        'The reference model of persistence is small (SAVE stores the dataset, restart loads the last dump minus what '
        'expired: spec/Ferrous.tla CmdSAVE/Restarted, model-checked inside MC_Persist); the decision is by trace validation of '
        'round trips on the real server: datasets of every type x sizes around the length-encoding boundaries (0/1/63/64/'
        '16383/16384/65536+) x all 16 databases x TTLs shorter and longer than the downtime x strings equal to internal '
        'markers x strings that look like integers (non-canonical and canonical spellings around every encoding width) x scores incl. infinities are built through commands (each reply validated), dumped, SAVEd, the process is '
        'killed and restarted on the same directory, and all 16 databases are dumped again; TLC requires the dump after = '
        'Restart(dump before) with deadlines preserved to clock granularity. Distinct = distinct dataset.')
ASSUMPTIONS = ['the dump projection (KEYS/TYPE/GET/LRANGE/SMEMBERS/HGETALL/ZRANGE WITHSCORES/XRANGE/PTTL) is the observable dataset',
               'a deadline that passes between kill and load may or may not be honoured at load (either accepted)']


def B(*a):
    return [x if isinstance(x, bytes) else str(x).encode() for x in a]


def dataset(rnd, big):
    """A list of commands building one dataset."""
    cmds = []
    sizes = [0, 1, 63, 64] + ([16383, 16384] if big else [300])
    strlens = [0, 1, 63, 64, 16383, 16384] + ([65536, 70001] if big else [])
    for d in rnd.sample(range(16), 3) + [0, 15]:
        cmds.append(B('SELECT', d))
        for n in rnd.sample(strlens, 3):
            cmds.append([b'SET', b'str%d' % n, bytes([rnd.randrange(256)]) * n])
        cmds.append([b'SET', b'bin\x00\xff\r\n', bytes(range(256))])
        cmds.append([b'SET', b'', b'emptykey'])
        cmds.append([b'SET', b'int', rnd.choice([b'0', b'-1', b'9223372036854775807', b'-9223372036854775808', b'12345'])])
        n = rnd.choice(sizes)
        if n:
            # element counts around the 14-bit/32-bit length-encoding boundary use lists and sets (one code path for
            # every count in the RDB writer); hashes and sorted sets stay at a size the TLA+ operators handle quickly
            cmds.append([b'RPUSH', b'list%d' % n] + [b'%d' % (i % 7) for i in range(n)])
            cmds.append([b'SADD', b'set%d' % n] + [b'm%d' % i for i in range(n)])
            m = min(n, 300)
            cmds.append([b'HSET', b'hash%d' % m] + [x for i in range(m) for x in (b'f%d' % i, b'v%d' % (i % 3))])
            cmds.append([b'ZADD', b'zset%d' % m] + [x for i in range(m) for x in (str((i % 11) - 5).encode(), b'z%d' % i)])
        # strings that look like integers (what an integer-encoding dump format must not normalise): non-canonical spellings
        # next to the canonical ones, around every width an encoder could choose — as values, elements, members, fields, keys
        looks = [b'007', b'7', b'+5', b'5', b'-0', b'0', b'00', b'0001', b'-007', b'-7', b' 5', b'5 ', b'1e3', b'0x10', b'1.0',
                 b'127', b'128', b'-128', b'-129', b'32767', b'32768', b'-32768', b'-32769', b'2147483647', b'2147483648',
                 b'-2147483648', b'-2147483649', b'12345678901', b'012345678901', b'9223372036854775807', b'9223372036854775808',
                 b'-9223372036854775808', b'18446744073709551615', b'+', b'-', b'']
        cmds.append([b'MSET'] + [x for v in looks for x in (b'look:' + v, v)])
        cmds.append([b'MSET'] + [x for v in looks[:14] for x in (v, b'named-' + v)])
        cmds.append([b'RPUSH', b'looklist'] + looks)
        cmds.append([b'SADD', b'lookset'] + looks)
        cmds.append([b'HSET', b'lookhash'] + [x for v in looks for x in (v, v)])
        cmds.append([b'ZADD', b'lookzset'] + [x for i, v in enumerate(looks) for x in (str(i % 5).encode(), v)])
        cmds.append([b'XADD', b'lookstream', b'7-7', b'007', b'+5', b'-0', b'00'])
        cmds.append([b'RPUSH', b'marker', b'__FERROUS_STREAM_MARKER__', b'x'])
        cmds.append([b'RPUSH', b'dups', b'a', b'a', b'', b'a'])
        cmds.append([b'ZADD', b'zinf', b'-inf', b'lo', b'inf', b'hi', b'0', b'zero', b'-0', b'negzero', b'1.5', b'frac'])
        cmds.append([b'HSET', b'hbin', b'\x00', b'\xff', b'', b''])
        cmds.append([b'XADD', b'stream', b'1-1', b'f', b'v'])
        cmds.append([b'XADD', b'stream', b'2-0', b'a', b'1', b'b', b'2'])
        # TTLs longer than the downtime (the short ones are set right before SAVE, see round_trip)
        cmds.append([b'SET', b'long', b'stays', b'EX', b'1000'])
        cmds.append([b'HSET', b'hlong', b'f', b'v'])
        cmds.append([b'EXPIRE', b'hlong', b'500'])
        cmds.append([b'SET', b'short', b'gone'])
        cmds.append([b'RPUSH', b'lshort', b'a'])
        # a key of EVERY type whose deadline passes while the server is down (set right before SAVE), and one that stays
        for pre in (b'short:', b'long:'):
            cmds.append([b'SET', pre + b'string', b'v'])
            cmds.append([b'RPUSH', pre + b'list', b'a', b'b'])
            cmds.append([b'SADD', pre + b'set', b'a', b'b'])
            cmds.append([b'HSET', pre + b'hash', b'f', b'v'])
            cmds.append([b'ZADD', pre + b'zset', b'1', b'a', b'2', b'b'])
            cmds.append([b'XADD', pre + b'stream', b'1-1', b'f', b'v'])
            cmds.append([b'XADD', pre + b'stream', b'2-1', b'g', b'w'])
        for ty in (b'string', b'list', b'set', b'hash', b'zset', b'stream'):
            cmds.append([b'EXPIRE', b'long:' + ty, b'900'])
    return cmds


def round_trip(ctx, i, big):
    srv = ctx.new_server(name='rdb')
    tr = ctx.new_trace('rdb%d' % i)
    s = Session(srv, tr, reply_timeout=20.0)
    try:
        c = s.open()
        for a in dataset(ctx.rnd, big):
            s.cmd(c, a)
        for d in range(16):
            s.cmd(c, B('SELECT', d))
            workloads.dump_db(s, c)
        # deadlines that will pass while the server is down
        for d in range(16):
            s.cmd(c, B('SELECT', d))
            s.cmd(c, [b'PEXPIRE', b'short', b'1200'])
            s.cmd(c, [b'PEXPIRE', b'lshort', b'1300'])
            for ty in (b'string', b'list', b'set', b'hash', b'zset', b'stream'):
                s.cmd(c, [b'PEXPIRE', b'short:' + ty, b'1250'])
        s.cmd(c, [b'SAVE'])
        s.close(c)
        srv.kill()
        time.sleep(1.8)
        t0 = tr.now()          # the dump is loaded when the new process starts
        srv.start()
        tr.emit({'k': 'restart', 't0': t0, 't1': tr.now() + 1})
        c = s.open()
        for d in range(16):
            s.cmd(c, B('SELECT', d))
            workloads.dump_db(s, c)
        s.close(c)
    except ServerDied:
        pass
    ctx.validate(tr, label='rdb%d' % i)
    srv.kill()


def resave_histories(ctx):
    """SAVE — changes of ONE kind — SAVE — restart: the second save must store what the dataset is then, whichever way it was
    changed since the first one (directly, by a blocking pop answered at once, by a pop made for a waiter, by a script that ends
    normally / in an error after its writes, inside EXEC, by a deadline, by commands that delete, by nothing at all)."""
    import luadsl as L
    import formspaths
    lit = lambda *a: [L.arg_lit(x if isinstance(x, bytes) else str(x).encode()) for x in a]
    ways = [
        ('direct', lambda s, c: [s.cmd(c, B('SET', 'a', 2)), s.cmd(c, B('RPUSH', 'l', 'x'))]),
        ('blocking-pop-answered-at-once', lambda s, c: [s.cmd(c, B('BLPOP', 'l', 0)), s.cmd(c, B('BRPOP', 'nolist', 'l', 0))]),
        ('script', lambda s, c: formspaths.eval_prog(s, c, [L.call(lit('SET', 'by-script', 1)), L.call(lit('LPOP', 'l'), ret=1)], [], [])),
        ('script-ending-in-error', lambda s, c: formspaths.eval_prog(s, c, [L.call(lit('SET', 'by-script', 1)), L.call(lit('RPUSH', 'l', 'y')),
                                                                          L.call(lit('INCR', 'str'), ret=1)], [], [])),
        ('script-by-digest-pcall-error', lambda s, c: formspaths.eval_prog(s, c, [L.call(lit('HSET', 'h', 'g', 2)), L.call(lit('LPUSH', 'str', 'y'), pcall=True),
                                                                               L.call(lit('SREM', 'S', 'm1'), ret=1)], [], [], bysha=True)),
        ('exec', lambda s, c: [s.cmd(c, B('MULTI')), s.cmd(c, B('APPEND', 'str', '!')), s.cmd(c, B('LPOP', 'l')), s.cmd(c, B('EXEC'))]),
        ('deleted-by-a-past-deadline', lambda s, c: [s.cmd(c, B('PEXPIRE', 'a', 0)), s.cmd(c, B('EXPIRE', 'h', -1))]),
        ('popped-to-nothing', lambda s, c: [s.cmd(c, B('LPOP', 'l')), s.cmd(c, B('RPOP', 'l')), s.cmd(c, B('LPOP', 'l')), s.cmd(c, B('SPOP', 'S', 5)), s.cmd(c, B('ZPOPMIN', 'z', 5))]),
        ('flushdb-and-rename', lambda s, c: [s.cmd(c, B('SELECT', 1)), s.cmd(c, B('FLUSHDB')), s.cmd(c, B('SELECT', 0)), s.cmd(c, B('RENAME', 'a', 'b'))]),
        ('stream', lambda s, c: [s.cmd(c, B('XDEL', 'x', '2-0')), s.cmd(c, B('XADD', 'x', '3-0', 'f', 'v'))]),
        ('ttl-only', lambda s, c: [s.cmd(c, B('EXPIRE', 'a', 1000)), s.cmd(c, B('PERSIST', 't'))]),
        ('nothing', lambda s, c: []),
    ]
    n = 0
    for name, change in ways:
        srv = ctx.new_server(name='resave')
        tr = ctx.new_trace('resave-' + name)
        s = Session(srv, tr, reply_timeout=20.0)
        try:
            c = s.open()
            for a in (B('SET', 'str', 'text'), B('SET', 'a', 1), B('RPUSH', 'l', 1, 2, 3), B('SADD', 'S', 'm1', 'm2'), B('HSET', 'h', 'f', 1), B('ZADD', 'z', 1, 'p', 2, 'q'),
                      B('XADD', 'x', '1-0', 'f', 'v'), B('XADD', 'x', '2-0', 'f', 'w'), B('SET', 't', 'v', 'EX', 1000), B('SELECT', 1), B('SET', 'other', 'db1'), B('SELECT', 0)):
                s.cmd(c, a)
            s.cmd(c, [b'SAVE'])
            if name == 'direct':        # a pop made on behalf of a waiter, too
                w = s.open()
            change(s, c)
            s.cmd(c, [b'SAVE'])
            s.close_all()
            srv.kill()
            t0 = tr.now()
            srv.start()
            tr.emit({'k': 'restart', 't0': t0, 't1': tr.now() + 1})
            c = s.open()
            for d in (0, 1):
                s.cmd(c, B('SELECT', d))
                workloads.dump_db(s, c)
            s.close(c)
        except ServerDied:
            tr.emit({'k': 'crash', 'status': srv.exit_status()})
        ctx.validate(tr, label='resave-' + name)
        srv.kill()
        n += 1
    return n


def run(ctx):
    nr = resave_histories(ctx)
    ctx.extra_cov['resave_histories'] = nr
    n = 2 if ctx.quick else 12
    for i in range(n):
        # the 16383/16384/65536+ sizes cost minutes of TLC time per round trip: thorough tier only
        round_trip(ctx, i, big=(not ctx.quick) and i < 3)
    ctx.extra_cov['distinct_cases'] = n + nr
    ctx.extra_cov['round_trips'] = n


def replay(ctx, path):
    workloads.replay_file(ctx, path)
