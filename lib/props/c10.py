"""C10 — the dump on disk is always a complete, loadable, per-key-consistent snapshot."""
import json
import os
import shutil
import subprocess
import time
import workloads
import runner
from session import Session, ServerDied
from server import FVH

LEVEL = 'model_checking'
RULE = ('TLC checks the snapshot discipline transcribed from rdb.rs (spec/impl/ImplBgsave.tla: own temporary file per save, value and '
        'TTL read at one instant, rename at the end, flag cleared on every exit) over every interleaving of save steps, client '
        'writes, write failures and crashes: Complete, PerKey, FlagSound, OwnTemp (the pinned design violates three of them). '
        '(i) fault enumeration: every n-th raw write of a save is made to fail (hook H7) — the reply must be an error, the dump '
        'bytes must equal the previous completed dump, a following SAVE must succeed and restart must load the old data; the '
        'same for a BGSAVE whose thread fails, and for a process killed while a BGSAVE is parked at a sync point; and with the operating system '
        'refusing the write instead (the process\' RLIMIT_FSIZE lowered to L bytes for L at block boundaries and the last bytes of the dump, so that '
        'buffered blocks, the final flush or a synced tail fail with EFBIG). (ii) schedules: '
        'a BGSAVE is parked at each per-key step (before get / after get / after ttl / after the sorted-set length) while a client '
        'grows, shrinks, deletes, replaces or re-deadlines that key, then released; SAVE racing a parked BGSAVE; the produced dump '
        'is loaded by restarting on it and the dataset is dumped; the same windows with the auto-save monitor as the trigger (server started with the rule `save 1 1`), a failing auto-save and the one after it; the spec keeps for every key the entries it held during the '
        'save (BgTrack) and TLC requires the loaded entry (value AND deadline together) to be one of them. (iii) every prefix '
        'and, per byte, several corruptions of valid dumps are loaded by the real loader in a child process under RLIMIT_AS '
        'with a counting allocator: outcome must be an error or a key-wise equal partial load, bounded allocation and time, no '
        'crash. Distinct = distinct (fault point | schedule | corrupted file).')
ASSUMPTIONS = ['a loaded key counts as consistent if value and TTL presence/deadline match ONE entry of its history',
               'allocation bound for corrupted files: 64 x file size + 1 MiB; time bound 5 s']


def B(*a):
    return [x if isinstance(x, bytes) else str(x).encode() for x in a]


def small_dataset():
    return [B('SET', 's', 'value'), B('SET', 'st', 'v', 'EX', 1000), B('RPUSH', 'l', 'a', 'b', 'c'), B('SADD', 'se', 'x', 'y'),
            B('HSET', 'h', 'f', 'v', 'g', 'w'), B('ZADD', 'z', 1, 'a', 2, 'b', 3, 'c'), B('XADD', 'x', '1-1', 'f', 'v'),
            B('SELECT', 3), B('SET', 'k3', 'db3'), B('SELECT', 0)]


def wait_bgsave(srv, timeout=8.0):
    end = time.monotonic() + timeout
    while time.monotonic() < end:
        if srv.ctl.cmd('BGSAVING') == '0':
            return True
        time.sleep(0.01)
    return False


def restart_and_dump(ctx, srv, s, tr, dbs=(0, 3)):
    srv.kill()
    t0 = tr.now()
    srv.start()
    tr.emit({'k': 'restart', 't0': t0, 't1': tr.now() + 1})
    c = s.open()
    for d in dbs:
        s.cmd(c, B('SELECT', d))
        workloads.dump_db(s, c)
    return c


# -- (i) failure of the n-th write --------------------------------------------------------------------
def fault_enumeration(ctx):
    srv = ctx.new_server(name='fault')
    tr = ctx.new_trace('fault')
    s = Session(srv, tr, reply_timeout=15.0)
    dump = os.path.join(srv.dir, 'dump.rdb')
    cases = 0
    try:
        c = s.open()
        for a in small_dataset():
            s.cmd(c, a)
        s.cmd(c, [b'SAVE'])
        good = open(dump, 'rb').read()
        srv.ctl.cmd('RDBFAIL -1')
        s.cmd(c, B('SET', 'after', 'x'))        # the dataset now differs from the dump
        s.cmd(c, [b'SAVE'])
        writes = int(srv.ctl.cmd('RDBWRITES'))
        good = open(dump, 'rb').read()
        s.cmd(c, B('SET', 'after', 'y'))
        ctx.extra_cov['writes_per_save'] = writes
        step = 1 if not ctx.quick else max(1, writes // 40)
        for n in range(0, writes, step):
            srv.ctl.cmd('RDBFAIL %d' % n)
            t0 = tr.now()
            r = s.clients[c].call([b'SAVE'], 15.0)
            tr.emit({'k': 'savefail', 'c': c, 'n': n, 'r': __import__('resp').to_json(r), 't0': t0, 't1': tr.now() + 1})
            now = open(dump, 'rb').read() if os.path.exists(dump) else b''
            tr.emit({'k': 'chk', 'name': 'dump_untouched_after_failed_write_%d' % n, 'ok': 1 if now == good else 0,
                     'detail': 'dump has %d bytes, last good %d' % (len(now), len(good))})
            cases += 1
        srv.ctl.cmd('RDBFAIL -1')
        # background save with a failing write: the flag must clear and later saves must work
        for n in (0, writes // 2, writes - 1):
            srv.ctl.cmd('RDBFAIL %d' % n)
            s.cmd(c, [b'BGSAVE'])
            ok = wait_bgsave(srv)
            tr.emit({'k': 'chk', 'name': 'bgsave_flag_cleared_after_failure', 'ok': 1 if ok else 0})
            now = open(dump, 'rb').read()
            tr.emit({'k': 'chk', 'name': 'dump_untouched_after_failed_bgsave_%d' % n, 'ok': 1 if now == good else 0})
            cases += 1
        srv.ctl.cmd('RDBFAIL -1')
        # the old dump is what a restart loads
        s.close(c)
        c = restart_and_dump(ctx, srv, s, tr)
        s.cmd(c, B('SET', 'again', '1'))
        s.cmd(c, [b'SAVE'])                     # a later save still works
        s.close(c)
        c = restart_and_dump(ctx, srv, s, tr)
    except ServerDied:
        tr.emit({'k': 'crash', 'status': srv.exit_status()})
    s.close_all()
    ctx.validate(tr, label='fault-enumeration')
    srv.kill()
    return cases


# -- (i') failure of a REAL write: the file-size limit of the server process is lowered ---------------------
def fsize_faults(ctx):
    """The n-th write of hook H7 fails inside the RDB writer; here the operating system refuses the write instead: the
    process' RLIMIT_FSIZE is set to L bytes (SIGXFSZ ignored), so whichever write — a buffered block, the final flush,
    an fsync'ed tail — would take the temporary file beyond L fails with EFBIG.  L ranges over block boundaries and the
    last bytes of the dump.  Every such SAVE / BGSAVE must answer an error (BGSAVE: clear its flag), leave the previous
    dump byte for byte, and a save after the limit is lifted must work."""
    import resource
    import resp as R
    srv = ctx.new_server(name='fsize', quiet=True)
    tr = ctx.new_trace('fsize')
    s = Session(srv, tr, reply_timeout=15.0)
    dump = os.path.join(srv.dir, 'dump.rdb')
    cases = 0
    soft0, hard0 = resource.prlimit(srv.proc.pid, resource.RLIMIT_FSIZE)
    def limit(n):
        resource.prlimit(srv.proc.pid, resource.RLIMIT_FSIZE, (n if n is not None else hard0, hard0))
    try:
        c = s.open()
        for a in small_dataset():
            s.cmd(c, a)
        for i in range(0, 36, 6):        # several 8 KiB blocks of buffered output
            s.cmd(c, [b'MSET'] + [x for j in range(i, i + 6) for x in (b'pad:%02d' % j, bytes([65 + j % 26]) * 1000)])
        s.cmd(c, B('SET', 'after', 'w'))
        s.cmd(c, [b'SAVE'])
        good = open(dump, 'rb').read()
        size = len(good)
        ctx.extra_cov['fsize_dump_bytes'] = size
        s.cmd(c, B('SET', 'after', 'x'))        # same dump size, different content
        limits = sorted(set([0, 1, 9, 100, 4095, 4096, 8191, 8192, 8193, 16384, size // 2, size - 8193, size - 8192, size - 4096, size - 100,
                             size - 22, size - 9, size - 8, size - 2, size - 1] + ([] if ctx.quick else list(range(0, size, 997)))))
        limits = [x for x in limits if 0 <= x < size]
        for L in limits:
            limit(L)
            t0 = tr.now()
            r = s.clients[c].call([b'SAVE'], 15.0)
            limit(None)
            tr.emit({'k': 'savefail', 'c': c, 'n': L, 'r': R.to_json(r), 't0': t0, 't1': tr.now() + 1})
            now = open(dump, 'rb').read() if os.path.exists(dump) else b''
            tr.emit({'k': 'chk', 'name': 'dump_untouched_after_write_refused_at_%d_of_%d' % (L, size), 'ok': 1 if now == good else 0,
                     'detail': 'dump has %d bytes, last good %d' % (len(now), len(good))})
            cases += 1
            if not srv.alive():
                raise ServerDied()
        for L in (0, 8192, size - 9, size - 1):
            limit(L)
            s.cmd(c, [b'BGSAVE'])
            ok = wait_bgsave(srv)
            limit(None)
            tr.emit({'k': 'chk', 'name': 'bgsave_flag_cleared_after_refused_write', 'ok': 1 if ok else 0})
            now = open(dump, 'rb').read() if os.path.exists(dump) else b''
            tr.emit({'k': 'chk', 'name': 'dump_untouched_after_bgsave_write_refused_at_%d' % L, 'ok': 1 if now == good else 0,
                     'detail': 'dump has %d bytes, last good %d' % (len(now), len(good))})
            cases += 1
        left = [f for f in os.listdir(srv.dir) if f.endswith('.tmp') or '.tmp' in f]
        tr.emit({'k': 'chk', 'name': 'no_temporary_file_left_behind', 'ok': 0 if left else 1, 'detail': ' '.join(left)[:200]})
        s.close(c)
        c = restart_and_dump(ctx, srv, s, tr)      # the old dump is what a restart loads
        s.cmd(c, B('SET', 'again', '1'))
        s.cmd(c, [b'SAVE'])                         # a later save works
        s.close(c)
        c = restart_and_dump(ctx, srv, s, tr)
    except ServerDied:
        tr.emit({'k': 'crash', 'status': srv.exit_status()})
    s.close_all()
    ctx.validate(tr, label='fsize-faults')
    srv.kill()
    return cases


# -- (ii) schedules of BGSAVE steps against client commands ----------------------------------------------
TYPES = {
    'string': (B('SET', 'k', 'v1'), [('replace-ttl', [B('SET', 'k', 'v2', 'EX', 500)]), ('append', [B('APPEND', 'k', 'xx')]),
                                     ('delete', [B('DEL', 'k')]), ('expire', [B('EXPIRE', 'k', 700)]), ('persist-after-ttl', [B('EXPIRE', 'k', 700), B('SET', 'k', 'v3')])]),
    'list': (B('RPUSH', 'k', 'a', 'b', 'c'), [('grow', [B('RPUSH', 'k', 'd', 'e')]), ('shrink', [B('LPOP', 'k'), B('LPOP', 'k')]), ('delete', [B('DEL', 'k')]),
                                               ('retype', [B('DEL', 'k'), B('SET', 'k', 'now-a-string', 'EX', 600)])]),
    'set': (B('SADD', 'k', 'a', 'b', 'c'), [('grow', [B('SADD', 'k', 'd')]), ('shrink', [B('SREM', 'k', 'a', 'b')]), ('expire', [B('EXPIRE', 'k', 800)])]),
    'hash': (B('HSET', 'k', 'f', '1', 'g', '2'), [('grow', [B('HSET', 'k', 'h', '3')]), ('shrink', [B('HDEL', 'k', 'f')]), ('delete', [B('DEL', 'k')])]),
    'zset': (B('ZADD', 'k', 1, 'a', 2, 'b', 3, 'c'), [('grow', [B('ZADD', 'k', 4, 'd', 5, 'e')]), ('shrink', [B('ZREM', 'k', 'a', 'b')]), ('rescore', [B('ZADD', 'k', 9, 'a')]),
                                                       ('delete', [B('DEL', 'k')]), ('expire', [B('EXPIRE', 'k', 800)])]),
    'stream': (B('XADD', 'k', '1-1', 'f', 'v'), [('grow', [B('XADD', 'k', '2-1', 'f', 'w')]), ('shrink', [B('XDEL', 'k', '1-1')])]),
}
POINTS = ['rdb_before_get', 'rdb_after_get', 'rdb_after_ttl', 'rdb_zset_after_len']


def bgsave_schedules(ctx):
    cases = 0
    forced = 0
    combos = []
    for ty, (create, muts) in TYPES.items():
        for point in POINTS:
            if point == 'rdb_zset_after_len' and ty != 'zset':
                continue
            for mname, mut in muts:
                combos.append((ty, create, point, mname, mut))
    if ctx.quick:
        combos = [x for i, x in enumerate(combos) if i % 3 == ctx.seed % 3 or x[2] == 'rdb_zset_after_len']
    srv = ctx.new_server(name='bg')
    tr = ctx.new_trace('bgsave')
    s = Session(srv, tr, reply_timeout=10.0)
    try:
        for ty, create, point, mname, mut in combos:
            for cid in list(s.clients):
                s.close(cid)
            tr.emit({'k': 'reset'})
            s.note('bgsave/%s/%s/%s' % (ty, point, mname))
            c = s.open()
            s.cmd(c, [b'FLUSHALL'])
            s.cmd(c, create)            # the only key: the parked step is the one that handles it
            if point == 'rdb_zset_after_len':
                # this point exists only for sorted sets, so other keys do not disturb the parking; keys written
                # after a torn sorted set are what makes an unloadable tail visible
                s.cmd(c, [b'MSET'] + [x for i in range(8) for x in (b'pad%d' % i, b'v')])
            srv.ctl.cmd('ARM ' + point)
            tr.emit({'k': 'bgstart'})
            s.cmd(c, [b'BGSAVE'])
            if srv.ctl.cmd('WAIT %s 1 3000' % point) == '1':
                forced += 1
            for a in mut:
                s.cmd(c, a)
            srv.ctl.cmd('DISARM ' + point)
            done = wait_bgsave(srv)
            tr.emit({'k': 'chk', 'name': 'bgsave_finished', 'ok': 1 if done else 0})
            tr.emit({'k': 'bgdone'})
            s.close(c)
            c = restart_and_dump(ctx, srv, s, tr, dbs=(0,))
            cases += 1
        # the save thread is held for a while between reading a key (value + remaining time) and writing it: the deadline in
        # the dump is the key's deadline, not one moved by the time the thread spent in between
        for point in ('rdb_after_ttl', 'rdb_after_get'):
            for cid in list(s.clients):
                s.close(cid)
            tr.emit({'k': 'reset'})
            s.note('bgsave/deadline-does-not-move/%s' % point)
            c = s.open()
            s.cmd(c, [b'FLUSHALL'])
            s.cmd(c, B('SET', 'k', 'v', 'PX', 100000))
            srv.ctl.cmd('ARM ' + point)
            tr.emit({'k': 'bgstart'})
            s.cmd(c, [b'BGSAVE'])
            if srv.ctl.cmd('WAIT %s 1 3000' % point) == '1':
                forced += 1
            time.sleep(0.15)
            srv.ctl.cmd('DISARM ' + point)
            done = wait_bgsave(srv)
            tr.emit({'k': 'chk', 'name': 'bgsave_finished', 'ok': 1 if done else 0})
            tr.emit({'k': 'bgdone'})
            s.close(c)
            c = restart_and_dump(ctx, srv, s, tr, dbs=(0,))
            cases += 1
        # a second BGSAVE while one is under way: refused (or queued) without disturbing the first, whose dump is what is found
        for cid in list(s.clients):
            s.close(cid)
        tr.emit({'k': 'reset'})
        s.note('bgsave/bgsave-while-bgsave')
        c = s.open()
        s.cmd(c, [b'FLUSHALL'])
        for a in small_dataset():
            s.cmd(c, a)
        srv.ctl.cmd('ARM rdb_after_get')
        tr.emit({'k': 'bgstart'})
        s.cmd(c, [b'BGSAVE'])
        if srv.ctl.cmd('WAIT rdb_after_get 1 3000') == '1':
            forced += 1
        r2 = s.clients[c].call([b'BGSAVE'], 10.0)
        tr.emit({'k': 'hostile', 'argv': [list(b'BGSAVE')], 'r': __import__('resp').to_json(r2)})
        s.cmd(c, B('SET', 'during', 'x'))
        srv.ctl.cmd('DISARM rdb_after_get')
        done = wait_bgsave(srv)
        tr.emit({'k': 'chk', 'name': 'bgsave_finished', 'ok': 1 if done else 0})
        tr.emit({'k': 'bgdone'})
        s.close(c)
        c = restart_and_dump(ctx, srv, s, tr)
        cases += 1
        # SAVE racing a parked BGSAVE (both use the same temporary file name)
        for cid in list(s.clients):
            s.close(cid)
        tr.emit({'k': 'reset'})
        s.note('bgsave/save-races-bgsave')
        c = s.open()
        s.cmd(c, [b'FLUSHALL'])
        for a in small_dataset():
            s.cmd(c, a)
        srv.ctl.cmd('ARM rdb_after_get')
        tr.emit({'k': 'bgstart'})
        s.cmd(c, [b'BGSAVE'])
        srv.ctl.cmd('WAIT rdb_after_get 1 3000')
        s.cmd(c, B('SET', 'during', 'x'))
        s.cmd(c, [b'SAVE'])                  # completes while the background save is parked
        srv.ctl.cmd('DISARM rdb_after_get')
        wait_bgsave(srv)
        # the background save finishing afterwards may replace the dump by its own complete (older) snapshot, or
        # fail and leave SAVE's dump: both are complete snapshots; a mixture of the two files is neither
        tr.emit({'k': 'bgdonemaybe'})
        s.close(c)
        c = restart_and_dump(ctx, srv, s, tr)
        cases += 1
        # kill -9 while a BGSAVE is parked: the previous completed dump is what is loaded
        for cid in list(s.clients):
            s.close(cid)
        tr.emit({'k': 'reset'})
        s.note('bgsave/killed-mid-save')
        c = s.open()
        s.cmd(c, [b'FLUSHALL'])
        s.cmd(c, B('SET', 'old', '1'))
        s.cmd(c, [b'SAVE'])
        s.cmd(c, B('SET', 'new', '2'))
        srv.ctl.cmd('ARM rdb_after_get')
        s.cmd(c, [b'BGSAVE'])
        srv.ctl.cmd('WAIT rdb_after_get 1 3000')
        s.close(c)
        c = restart_and_dump(ctx, srv, s, tr)
        cases += 1
    except ServerDied:
        tr.emit({'k': 'crash', 'status': srv.exit_status()})
    s.close_all()
    ctx.validate_segments(tr, 'bgsave')
    ctx.extra_cov['bgsave_windows_forced'] = forced
    if forced == 0:
        raise runner.ToolError('no BGSAVE sync point was ever reached: the schedules were not exercised')
    srv.kill()
    return cases


# -- (ii') the same windows with the AUTO-SAVE monitor as the trigger ---------------------------------------
def autosave_schedules(ctx):
    """A server started with the rule `save 1 1`: the monitor thread starts the background save by itself once a change
    is a second old.  The save is parked at a per-key step (same sync points as BGSAVE), the key is changed, the save is
    released; the dump it leaves must load and hold, for every key, an entry the key had during the save.  Then: a failing
    auto-save (injected write failure) leaves the previous dump and does not block later saves; auto-saves keep coming."""
    cases = 0
    forced = 0
    srv = ctx.new_server(name='auto', autosave='1,1')
    tr = ctx.new_trace('autosave')
    s = Session(srv, tr, reply_timeout=10.0)
    dump = os.path.join(srv.dir, 'dump.rdb')
    combos = [('string', 'rdb_after_get', 'replace-ttl'), ('zset', 'rdb_zset_after_len', 'shrink'), ('list', 'rdb_before_get', 'delete'),
              ('hash', 'rdb_after_ttl', 'grow'), ('string', 'rdb_after_ttl', 'expire'), ('zset', 'rdb_after_get', 'rescore')]
    if ctx.quick:
        combos = combos[ctx.seed % 2::2]
    try:
        for ty, point, mname in combos:
            create, muts = TYPES[ty]
            mut = dict(muts)[mname]
            for cid in list(s.clients):
                s.close(cid)
            tr.emit({'k': 'reset'})
            s.note('autosave/%s/%s/%s' % (ty, point, mname))
            c = s.open()
            srv.ctl.cmd('ARM ' + point)          # armed first: whichever save starts next parks here
            s.cmd(c, [b'FLUSHALL'])
            tr.emit({'k': 'bgstart'})             # from here on every value of a key is a candidate for the snapshot
            s.cmd(c, create)
            if point == 'rdb_zset_after_len':
                s.cmd(c, [b'MSET'] + [x for i in range(8) for x in (b'pad%d' % i, b'v')])
            reached = srv.ctl.cmd('WAIT %s 1 4000' % point) == '1'
            if reached:
                forced += 1
            for a in mut:
                s.cmd(c, a)
            srv.ctl.cmd('DISARM ' + point)
            done = wait_bgsave(srv)
            tr.emit({'k': 'chk', 'name': 'autosave_started_by_the_monitor', 'ok': 1 if reached else 0})
            tr.emit({'k': 'chk', 'name': 'autosave_finished', 'ok': 1 if done else 0})
            tr.emit({'k': 'bgdone'})
            s.close(c)
            srv.kill()          # before the monitor can start another save over the mutated data
            c = restart_and_dump(ctx, srv, s, tr, dbs=(0,))
            cases += 1
        # a failing auto-save: the previous dump stays, the flag clears, the next auto-save works
        for cid in list(s.clients):
            s.close(cid)
        tr.emit({'k': 'reset'})
        s.note('autosave/failing-write')
        c = s.open()
        s.cmd(c, [b'FLUSHALL'])
        s.cmd(c, B('SET', 'kept', '1'))
        s.cmd(c, [b'SAVE'])
        good = open(dump, 'rb').read()
        srv.ctl.cmd('RDBFAIL 3')
        s.cmd(c, B('SET', 'changed', '2'))
        time.sleep(2.6)                          # at least one auto-save attempt, which fails at its 4th write
        now = open(dump, 'rb').read() if os.path.exists(dump) else b''
        tr.emit({'k': 'chk', 'name': 'dump_untouched_after_failed_autosave', 'ok': 1 if now == good else 0})
        tr.emit({'k': 'chk', 'name': 'flag_cleared_after_failed_autosave', 'ok': 1 if wait_bgsave(srv) else 0})
        srv.ctl.cmd('RDBFAIL -1')
        s.cmd(c, B('SET', 'changed', '3'))
        end = time.monotonic() + 5.0
        while time.monotonic() < end and (open(dump, 'rb').read() if os.path.exists(dump) else b'') == good:
            time.sleep(0.05)
        later = open(dump, 'rb').read() if os.path.exists(dump) else b''
        tr.emit({'k': 'chk', 'name': 'a_later_autosave_works', 'ok': 1 if later != good and wait_bgsave(srv) else 0})
        cases += 1
    except ServerDied:
        tr.emit({'k': 'crash', 'status': srv.exit_status()})
    s.close_all()
    ctx.validate_segments(tr, 'autosave')
    ctx.extra_cov['autosave_windows_forced'] = forced
    srv.kill()
    return cases


# -- (ii'') background saves of LARGE values under a writer (no sync point: real concurrency) ----------------
def stress_snapshots(ctx):
    """Values too large for one quick copy (and for TLC): a list that a writer only ever LPUSHes a falling counter onto
    (every state it ever had is a run n, n-1, ..., 0), a queue with RPUSH at one end and LPOP at the other (every state is
    a run i..j), a sorted set and a hash grown in step.  While pipelined writers keep going, background saves are taken
    one after the other; each dump is loaded by the real loader in a child process and the harness checks that every value
    is one the key can have had at ONE instant (a run without gap or repetition, ...).  Recorded as chk events."""
    import threading
    from client import Client
    import resp as R
    srv = ctx.new_server(name='stress')
    tr = ctx.new_trace('stress')
    n0 = 150000 if ctx.quick else 1000000
    saves = 8 if ctx.quick else 40
    cl = Client(srv.port, timeout=30.0)
    cl.call([b'FLUSHALL'])
    for i in range(0, n0, 5000):       # L = n0-1 ... 0 (head = largest), Q = 0 ... n0-1
        cl.send_raw(R.enc_cmd([b'LPUSH', b'L'] + [b'%d' % j for j in range(i, i + 5000)]) + R.enc_cmd([b'RPUSH', b'Q'] + [b'%d' % j for j in range(i, i + 5000)]))
        cl.recv(30.0); cl.recv(30.0)
    for i in range(0, 20000, 2000):
        cl.call([b'ZADD', b'Z'] + [x for j in range(i, i + 2000) for x in (b'%d' % j, b'm%07d' % j)], 30.0)
        cl.call([b'HSET', b'H'] + [x for j in range(i, i + 2000) for x in (b'f%07d' % j, b'%d' % j)], 30.0)
    stop = threading.Event()
    state = {'l': n0, 'qhi': n0, 'qlo': 0, 'z': 20000}

    def writer_l():
        w = Client(srv.port, timeout=30.0)
        while not stop.is_set():
            k = state['l']
            w.send_raw(b''.join(R.enc_cmd([b'LPUSH', b'L', b'%d' % (k + j)]) for j in range(50)))
            for _ in range(50):
                if w.recv(30.0)[0] != 'int':
                    return
            state['l'] = k + 50
        w.close()

    def writer_q():
        w = Client(srv.port, timeout=30.0)
        while not stop.is_set():
            hi = state['qhi']
            w.send_raw(b''.join(R.enc_cmd([b'RPUSH', b'Q', b'%d' % (hi + j)]) + R.enc_cmd([b'LPOP', b'Q']) for j in range(25))
                       + R.enc_cmd([b'ZADD', b'Z', b'%d' % state['z'], b'm%07d' % state['z']]) + R.enc_cmd([b'HSET', b'H', b'f%07d' % state['z'], b'%d' % state['z']]))
            for _ in range(52):
                if w.recv(30.0)[0] in ('closed', 'none'):
                    return
            state['qhi'] = hi + 25
            state['qlo'] += 25
            state['z'] += 1
        w.close()
    def writer_ttl():
        # keys that are only ever written WITH a deadline (SET ... PX, SET ... NX PX after DEL, SETEX): no snapshot may hold one without
        w = Client(srv.port, timeout=30.0)
        i = 0
        while not stop.is_set():
            i += 1
            batch = []
            for j in range(8):
                k = b'lock:%d' % j
                batch.append(R.enc_cmd([b'SET', k, b'holder-%d' % i, b'PX', b'100000']) if (i + j) % 3 else
                             R.enc_cmd([b'DEL', k]) + R.enc_cmd([b'SET', k, b'holder-%d' % i, b'NX', b'EX', b'100']))
            w.send_raw(b''.join(batch))
            need = sum(1 if (i + j) % 3 else 2 for j in range(8))
            for _ in range(need):
                if w.recv(30.0)[0] in ('closed', 'none'):
                    return
        w.close()
    ths = [threading.Thread(target=writer_l), threading.Thread(target=writer_q), threading.Thread(target=writer_ttl)]
    for t in ths:
        t.start()
    dump = os.path.join(srv.dir, 'dump.rdb')
    cases = 0
    try:
        for i in range(saves):
            before = dict(state)
            r = cl.call([b'BGSAVE'], 30.0)
            done = wait_bgsave(srv, 60.0)
            after = dict(state)
            copy = os.path.join(ctx.out, 'stress-%d.rdb' % i)
            shutil.copy(dump, copy)
            res = rdbload(copy, timeout=120)
            why = ''
            if not done or res.get('result') != 'ok':
                why = 'bgsave %s, load %s %s' % (done, res.get('result'), str(res.get('error', res.get('status', '')))[:100])
            else:
                db = res['dbs'].get('0', {})
                def val(name):
                    e = db.get(name.encode().hex())
                    return e[1] if e else None
                L = [int(bytes.fromhex(x)) for x in (val('L') or [])]
                Q = [int(bytes.fromhex(x)) for x in (val('Q') or [])]
                if not L or L != list(range(L[0], -1, -1)):
                    why = 'list L is not a run n..0: %d elements, head %s' % (len(L), L[:3])
                elif not (before['l'] - 1 <= L[0] <= after['l'] + 50):
                    why = 'list L head %d outside what was pushed during the save [%d, %d]' % (L[0], before['l'] - 1, after['l'] + 50)
                elif not Q or Q != list(range(Q[0], Q[0] + len(Q))):
                    why = 'queue Q is not a run i..j: %d elements, head %s' % (len(Q), Q[:3])
                elif abs(len(Q) - n0) > 1:
                    why = 'queue Q holds %d elements; it never held other than %d or %d' % (len(Q), n0, n0 + 1)
                else:
                    Z = val('Z') or {}
                    H = val('H') or {}
                    nz, nh = len(Z), len(H)
                    if not (before['z'] <= nz <= after['z'] + 1 and before['z'] <= nh <= after['z'] + 1):
                        why = 'sorted set / hash hold %d / %d entries, outside [%d, %d]' % (nz, nh, before['z'], after['z'] + 1)
                    bare = [bytes.fromhex(k).decode() for k, e in db.items() if bytes.fromhex(k).startswith(b'lock:') and not e[2]]
                    if bare and not why:
                        why = 'keys only ever written with a deadline are in the dump without one: %s' % bare[:4]
            tr.emit({'k': 'chk', 'name': 'snapshot_%d_of_large_values_under_writers_is_one_instant_per_key' % i, 'ok': 0 if why else 1, 'detail': why})
            os.remove(copy)
            cases += 1
            if not srv.alive():
                tr.emit({'k': 'crash', 'status': srv.exit_status()})
                break
    finally:
        stop.set()
        for t in ths:
            t.join(timeout=30)
        cl.close()
    ctx.validate(tr, label='stress-snapshots')
    srv.kill()
    ctx.extra_cov['stress_snapshots'] = cases
    ctx.extra_cov['stress_list_elements'] = n0
    return cases


def boundary_snapshots(ctx):
    """Values that pass THROUGH the sizes at which the dump's length encoding changes (64, 16384, 65536 bytes or elements): a string
    grown by APPEND, a list grown by RPUSH, a key whose NAME has that length, with a save after every step (SAVE and BGSAVE in
    turn); every dump is loaded by the real loader and must hold exactly what the keys held — including the keys written behind
    the boundary value (a length that reads back wrong shifts everything after it)."""
    from client import Client
    srv = ctx.new_server(name='bound')
    tr = ctx.new_trace('bound')
    cl = Client(srv.port, timeout=30.0)
    dump = os.path.join(srv.dir, 'dump.rdb')
    cases = 0
    walks = [(61, 67), (16381, 16388)] if ctx.quick else [(61, 67), (253, 259), (16381, 16388), (65533, 65539)]
    try:
        for lo, hi in walks:
            cl.call([b'FLUSHALL'])
            cl.call([b'SET', b'S', b'a' * (lo - 1)])
            for i in range(0, lo - 1, 4000):
                cl.call([b'RPUSH', b'B'] + [b'%d' % j for j in range(i, min(i + 4000, lo - 1))], 30.0)
            cl.call([b'SET', b'zz-behind', b'sentinel'])
            for n in range(lo, hi + 1):
                cl.call([b'APPEND', b'S', b'a'])
                cl.call([b'RPUSH', b'B', b'%d' % (n - 1)])
                name = b'n' * n
                cl.call([b'SET', name, b'named'])
                if n % 2:
                    r = cl.call([b'SAVE'], 60.0)
                    done = r == ('st', b'OK')
                else:
                    cl.call([b'BGSAVE'], 30.0)
                    done = wait_bgsave(srv, 60.0)
                copy = os.path.join(ctx.out, 'bound.rdb')
                shutil.copy(dump, copy)
                res = rdbload(copy, timeout=120)
                why = ''
                if not done or res.get('result') != 'ok':
                    why = 'save %s, load %s %s' % (done, res.get('result'), str(res.get('error', res.get('status', '')))[:100])
                else:
                    db = res['dbs'].get('0', {})
                    get = lambda k: (db.get(k.hex()) or [None, None])[1]
                    S, Bv = get(b'S'), get(b'B')
                    if S is None or bytes.fromhex(S) != b'a' * n:
                        why = 'string of %d bytes came back as %s bytes' % (n, None if S is None else len(S) // 2)
                    elif Bv is None or [bytes.fromhex(x) for x in Bv] != [b'%d' % j for j in range(n)]:
                        why = 'list of %d elements came back with %s' % (n, None if Bv is None else len(Bv))
                    elif get(name) is None or bytes.fromhex(get(name)) != b'named':
                        why = 'key with a name of %d bytes is missing or changed' % n
                    elif get(b'zz-behind') is None or bytes.fromhex(get(b'zz-behind')) != b'sentinel':
                        why = 'the key written behind the boundary values is missing or changed'
                    elif len(db) != 3 + (n - lo + 1):
                        why = '%d keys in the dump, %d in the dataset' % (len(db), 3 + (n - lo + 1))
                tr.emit({'k': 'chk', 'name': 'dump_with_values_of_size_%d_loads_back_exactly' % n, 'ok': 0 if why else 1, 'detail': why})
                os.remove(copy)
                cases += 1
                if not srv.alive():
                    tr.emit({'k': 'crash', 'status': srv.exit_status()})
                    break
    except (OSError, ServerDied):
        tr.emit({'k': 'crash', 'status': srv.exit_status()})
    cl.close()
    ctx.validate(tr, label='boundary-snapshots')
    srv.kill()
    ctx.extra_cov['boundary_snapshots'] = cases
    return cases


def stress_small_snapshots(ctx):
    """Hundreds of background saves back to back of a SMALL dataset under a writer: eight keys that are only ever written together with
    a deadline (SET ... PX, DEL + SET ... NX EX, SETEX) — a writer that stores the value and attaches the deadline in two steps is
    caught when a save reads the key in between.  Every dump is loaded by the real loader; a key without a deadline is a failure."""
    import threading
    from client import Client
    import resp as R
    srv = ctx.new_server(name='stress2')
    tr = ctx.new_trace('stress2')
    stop = threading.Event()

    def writer():
        w = Client(srv.port, timeout=30.0)
        i = 0
        while not stop.is_set():
            i += 1
            reqs = []
            for j in range(8):
                k = b'lock:%d' % j
                m = (i + j) % 4
                if m == 0: reqs += [[b'SET', k, b'h%d' % i, b'PX', b'100000']]
                elif m == 1: reqs += [[b'DEL', k], [b'SET', k, b'h%d' % i, b'NX', b'EX', b'100']]
                elif m == 2: reqs += [[b'SETEX', k, b'100', b'h%d' % i]]
                else: reqs += [[b'SET', k, b'h%d' % i, b'EX', b'100', b'XX']]
            w.send_raw(b''.join(R.enc_cmd(a) for a in reqs))
            for _ in reqs:
                if w.recv(30.0)[0] in ('closed', 'none'):
                    return
        w.close()
    cl = Client(srv.port, timeout=30.0)
    for j in range(8):
        cl.call([b'SET', b'lock:%d' % j, b'h0', b'EX', b'100'])
    th = threading.Thread(target=writer)
    th.start()
    dump = os.path.join(srv.dir, 'dump.rdb')
    copy = os.path.join(ctx.out, 'stress2.rdb')
    saves = bad = 0
    detail = ''
    end = time.monotonic() + (8.0 if ctx.quick else 60.0)
    try:
        while time.monotonic() < end and srv.alive():
            cl.call([b'BGSAVE'], 30.0)
            if not wait_bgsave(srv, 30.0):
                detail = 'a background save did not finish'
                bad += 1
                break
            saves += 1
            try:
                shutil.copy(dump, copy)
            except OSError:
                continue
            res = rdbload(copy, timeout=60)
            if res.get('result') != 'ok':
                bad += 1
                detail = 'dump %d does not load: %s' % (saves, str(res)[:120])
                break
            bare = [bytes.fromhex(k).decode() for k, e in res['dbs'].get('0', {}).items() if not e[2]]
            if bare:
                bad += 1
                detail = 'dump %d holds %s without a deadline' % (saves, bare[:4])
                break
    finally:
        stop.set()
        th.join(timeout=30)
        cl.close()
    tr.emit({'k': 'chk', 'name': 'every_snapshot_under_a_writer_holds_each_key_with_its_deadline', 'ok': 0 if bad else 1,
             'detail': detail or '%d background saves' % saves})
    if not srv.alive():
        tr.emit({'k': 'crash', 'status': srv.exit_status()})
    ctx.validate(tr, label='stress-small-snapshots')
    srv.kill()
    ctx.extra_cov['stress_small_saves'] = saves
    return saves


# -- (iii) truncated and corrupted dumps -----------------------------------------------------------------
def rdbload(path, timeout=20):
    try:
        p = subprocess.run([FVH, 'rdbload', path], stdout=subprocess.PIPE, stderr=subprocess.PIPE, timeout=timeout)
    except subprocess.TimeoutExpired:
        return {'result': 'hang'}
    if p.returncode != 0:
        return {'result': 'crash', 'status': p.returncode, 'stderr': p.stderr.decode(errors='replace')[-300:]}
    for line in p.stdout.decode(errors='replace').splitlines():
        if line.startswith('{'):
            return json.loads(line)
    return {'result': 'crash', 'status': 'no output'}


def corruption(ctx):
    srv = ctx.new_server(name='corr')
    s = Session(srv, ctx.new_trace('corr-build'))
    c = s.open()
    for a in small_dataset():
        s.cmd(c, a)
    s.cmd(c, B('RPUSH', 'big', *[b'e%d' % i for i in range(100)]))
    s.cmd(c, B('SET', 'long', b'x' * 20000))
    s.cmd(c, [b'SAVE'])
    s.close_all()
    s.trace.close()
    data = open(os.path.join(srv.dir, 'dump.rdb'), 'rb').read()
    srv.kill()
    work = os.path.join(ctx.out, 'corrupt')
    os.makedirs(work, exist_ok=True)
    ref = rdbload(os.path.join(srv.dir, 'dump.rdb'))
    tr = ctx.new_trace('corrupt')
    tr.emit({'k': 'chk', 'name': 'intact_dump_loads', 'ok': 1 if ref.get('result') == 'ok' else 0, 'detail': str(ref)[:200]})
    refdbs = ref.get('dbs', {})
    rnd = ctx.rnd
    variants = []
    cut_step = 1 if not ctx.quick else max(1, len(data) // 120)
    for n in range(0, len(data), cut_step):
        variants.append(('prefix%d' % n, data[:n]))
    # every byte of the header and of the first keys gets every interesting value; beyond that a sample of positions.
    # 0x80 / 0x81 turn a length byte into "a 32 / 64-bit length follows" (the next bytes, payload of something else, then
    # declare gigabytes), 0xc0-0xc3 into the special encodings, 0xfa-0xff are the opcodes
    head = 120 if ctx.quick else len(data)
    sampled = set(range(min(head, len(data)))) | (set(rnd.sample(range(len(data)), min(len(data), 150))) if ctx.quick else set())
    lengthy = set(rnd.sample(range(len(data)), min(len(data), 500))) if ctx.quick else set()
    for i in sorted(sampled | lengthy):
        if i in sampled:
            vals = {0x00, 0xff, data[i] ^ 0x01, data[i] ^ 0x80, (data[i] + 1) & 0xff} if (not ctx.quick or i < head) else {0xff, data[i] ^ 0x80}
            if i < head:
                vals |= {0x80, 0x81, 0x40, 0x7f, 0xc0, 0xc1, 0xc2, 0xc3, 0xfa, 0xfb, 0xfc, 0xfd, 0xfe}
        else:
            vals = {0x80, 0x81}
        for v in sorted(vals):
            if v != data[i]:
                variants.append(('byte%d=%02x' % (i, v), data[:i] + bytes([v]) + data[i + 1:]))
    bound = 64 * len(data) + (1 << 20)
    worst = 0
    for name, blob in variants:
        path = os.path.join(work, 'dump.rdb')
        open(path, 'wb').write(blob)
        r = rdbload(path)
        ok = True
        why = ''
        if r['result'] in ('crash', 'hang'):
            ok, why = False, '%s %s' % (r['result'], r.get('status', ''))
        else:
            worst = max(worst, r.get('peak_alloc', 0))
            if r.get('peak_alloc', 0) > bound:
                ok, why = False, 'allocated %d bytes for a %d byte file' % (r['peak_alloc'], len(blob))
            elif r.get('ms', 0) > 5000:
                ok, why = False, 'took %d ms' % r['ms']
            elif name.startswith('prefix'):
                # a truncated file: whatever was loaded must be key-wise equal to the original
                for d, keys in r.get('dbs', {}).items():
                    for k, v in keys.items():
                        if refdbs.get(d, {}).get(k) != v and not partial_of(refdbs.get(d, {}).get(k), v):
                            ok, why = False, 'key %s of db %s differs from the original after loading a prefix' % (k, d)
        tr.emit({'k': 'chk', 'name': 'load_%s' % name, 'ok': 1 if ok else 0, 'detail': why})
    shutil.rmtree(work, ignore_errors=True)
    ctx.extra_cov['corrupted_files'] = len(variants)
    ctx.extra_cov['worst_peak_alloc'] = worst
    ctx.validate_segments(tr, 'corrupt')
    return len(variants)


def partial_of(orig, got):
    """A collection cut short by the end of the file: a prefix/subset of the original collection."""
    if not orig or not got or orig[0] != got[0]:
        return False
    t, a, b = orig[0], orig[1], got[1]
    if t == 'list':
        return b == a[:len(b)]
    if t in ('set', 'hash', 'zset', 'stream'):
        return all(x in a for x in b)
    return False


def run(ctx):
    # the snapshot discipline transcribed from rdb.rs: every interleaving of save steps, client writes, failures, crashes
    ctx.model_check('ImplBgsave', 'MC_Bgsave_fixed' if ctx.quick else 'MC_Bgsave_fixed_full', workers=12, timeout=1500, subdir='impl')
    n1 = fault_enumeration(ctx)
    nf = fsize_faults(ctx)
    ctx.extra_cov['os_level_fault_points'] = nf
    n1 += nf
    n2 = bgsave_schedules(ctx)
    n2 += autosave_schedules(ctx)
    n2 += stress_snapshots(ctx)
    n2 += stress_small_snapshots(ctx)
    n2 += boundary_snapshots(ctx)
    n3 = corruption(ctx)
    ctx.extra_cov['distinct_cases'] = n1 + n2 + n3
    ctx.extra_cov['fault_points'] = n1
    ctx.extra_cov['schedules'] = n2


def replay(ctx, path):
    workloads.replay_file(ctx, path)
