"""C11 — the append-only file is a faithful redo log."""
import os
import workloads
import resp
from session import Session, ServerDied
from client import Client
import forms
import formspaths

LEVEL = 'model_checking'
RULE = ('TLC checks the logging design transcribed from server.rs (spec/impl/ImplAof.tla: write set, SPOP and served blocking pops '
        'by outcome, SELECT insertion, EXEC logged command by command) over every interleaving of 2 connections sending the write '
        'catalogue: re-executing the file always gives the live dataset (Faithful); the transcribed write set is compared with '
        'Server::is_write_command. The redo-log relation is part of the spec (spec/Ferrous.tla AofApply/AofStep): re-executing, with the reference '
        'semantics, the frames the server appended while executing a request must reproduce the live dataset (values; TTL '
        'presence) after EVERY request. Histories over the write catalogue of all value types through direct commands, '
        'MULTI/EXEC, several databases and blocked clients being served, and the forms catalogue (lib/forms.py) through direct '
        'dispatch, MULTI/EXEC, EVAL and SCRIPT LOAD + EVALSHA, run on a server with appendonly yes; after each request '
        'the new bytes of the file are parsed by the harness RESP reader into complete frames (a trailing partial frame is a '
        'rejection) and attached to the event; TLC maintains the replayed dataset next to the live one. At the end the whole '
        'file is also re-executed over TCP on an empty REAL server and both servers are dumped and compared. '
        'Distinct = distinct history.')
ASSUMPTIONS = ['appended bytes are visible in the file when the reply has been received (the server flushes the writer on every append)',
               'TTL presence, not the deadline, is compared between live and replayed datasets']


class AofTail:
    def __init__(self, path):
        self.path = path
        self.pos = 0
        self.reader = resp.Reader()
        self.all = []

    def new_entries(self):
        out = []
        try:
            with open(self.path, 'rb') as f:
                f.seek(self.pos)
                data = f.read()
        except FileNotFoundError:
            data = b''
        self.pos += len(data)
        self.reader.feed(data)
        while True:
            try:
                fr = self.reader.next()
            except resp.ProtocolError:
                return out, True
            if fr is None:
                break
            if fr[0] == 'arr' and all(x[0] == 'bulk' for x in fr[1]):
                out.append([x[1] for x in fr[1]])
            else:
                return out, True
        self.all += out
        return out, len(self.reader.buf) > 0


def dump_all(port):
    """{db: {key: (type, value, has_ttl)}} through an ordinary client (harness-side comparison of two servers)."""
    cl = Client(port, timeout=10.0)
    out = {}
    for d in range(16):
        cl.call([b'SELECT', str(d).encode()])
        ks = cl.call([b'KEYS', b'*'])
        dbv = {}
        for k in sorted(x[1] for x in ks[1]) if ks[0] == 'arr' else []:
            t = cl.call([b'TYPE', k])[1]
            if t == b'string': v = cl.call([b'GET', k])
            elif t == b'list': v = cl.call([b'LRANGE', k, b'0', b'-1'])
            elif t == b'set': v = ('set', sorted(x[1] for x in cl.call([b'SMEMBERS', k])[1]))
            elif t == b'hash':
                h = cl.call([b'HGETALL', k])[1]
                v = ('hash', sorted((h[i][1], h[i + 1][1]) for i in range(0, len(h), 2)))
            elif t == b'zset': v = cl.call([b'ZRANGE', k, b'0', b'-1', b'WITHSCORES'])
            elif t == b'stream': v = cl.call([b'XRANGE', k, b'-', b'+'])
            else: v = None
            ttl = cl.call([b'TTL', k])
            dbv[k] = (t, v, ttl[0] == 'int' and ttl[1] >= 0)
        if dbv:
            out[d] = dbv
    cl.close()
    return out


def history(ctx, i, gen_factory, n, dbs, txn, sel_rate=0.06):
    srv = ctx.new_server(name='aof', appendonly=True)
    tr = ctx.new_trace('aof%d' % i)
    tr.emit({'k': 'config', 'aof': 1})
    tail = AofTail(os.path.join(srv.dir, 'appendonly.aof'))
    s = Session(srv, tr)

    def enrich(ev):
        entries, partial = tail.new_entries()
        ev['aof'] = [[list(x) for x in e] for e in entries]
        if partial:
            ev['aofpartial'] = 1
    s.enrich = enrich
    g = gen_factory(ctx.rnd)
    rnd = ctx.rnd
    try:
        c = s.open()
        c2 = s.open()
        j = 0
        while j < n:
            c = workloads.ensure_conn(s, c)
            r = rnd.random()
            if dbs and r < sel_rate:
                s.cmd(c, [b'SELECT', str(rnd.choice([0, 1, 2])).encode()])
            elif txn and r < sel_rate + 0.06:
                # every way a transaction can end: executed, aborted by WATCH (another connection writes the watched key),
                # discarded, refused because of a command unknown at queue time, EXEC without MULTI — what is logged afterwards
                # (by anybody) must not depend on how the last transaction ended
                mode = rnd.choice(['exec', 'exec', 'abort', 'abort', 'discard', 'qerr', 'nomulti', 'watched-exec'])
                if mode == 'nomulti':
                    s.cmd(c, [rnd.choice([b'EXEC', b'DISCARD'])])
                    j += 1
                    continue
                if mode in ('abort', 'watched-exec'):
                    s.cmd(c, [b'WATCH', b'watched', b'watched2'])
                if mode == 'abort':
                    c2 = workloads.ensure_conn(s, c2)
                    s.cmd(c2, rnd.choice([[b'SET', b'watched', b'w%d' % j], [b'LPUSH', b'watched2', b'x'], [b'DEL', b'watched2']]))
                    if rnd.random() < 0.3:
                        s.cmd(c2, [b'SET', b'watched', b'again%d' % j])
                s.cmd(c, [b'MULTI'])
                for _ in range(rnd.randrange(1, 4)):
                    a = g.next()
                    if isinstance(a, list):
                        s.cmd(c, a)
                    if dbs and rnd.random() < sel_rate:
                        s.cmd(c, [b'SELECT', str(rnd.choice([0, 1, 2])).encode()])
                if mode == 'qerr':
                    s.cmd(c, [b'NOSUCHCOMMAND', b'x'])
                s.cmd(c, [b'DISCARD'] if mode == 'discard' else [b'EXEC'])
            else:
                a = g.next()
                if isinstance(a, list):
                    s.cmd(c, a)
            j += 1
        # re-execute the file on an empty real server and compare
        live = dump_all(srv.port)
        fresh = ctx.new_server(name='aofreplay')
        cl = Client(fresh.port, timeout=10.0)
        for e in tail.all:
            cl.call(e, 5.0)
        cl.close()
        rep = dump_all(fresh.port)
        fresh.kill()
        tr.emit({'k': 'aofreplay', 'ok': 1 if rep == live else 0, 'entries': len(tail.all),
                 'detail': '' if rep == live else 'databases differing: %s' % sorted(
                     d for d in set(live) | set(rep) if live.get(d) != rep.get(d))})
    except ServerDied:
        pass
    s.close_all()
    ctx.validate(tr, label='aof%d' % i)
    ctx.extra_cov['aof_entries'] = ctx.extra_cov.get('aof_entries', 0) + len(tail.all)
    srv.kill()


def forms_history(ctx, label, path, subset):
    """The forms catalogue through one execution path on a server with appendonly yes (one history, no resets)."""
    srv = ctx.new_server(name='aof', appendonly=True)
    tr = ctx.new_trace(label)
    tr.emit({'k': 'config', 'aof': 1})
    tail = AofTail(os.path.join(srv.dir, 'appendonly.aof'))
    s = Session(srv, tr)

    def enrich(ev):
        entries, partial = tail.new_entries()
        ev['aof'] = [[list(x) for x in e] for e in entries]
        if partial:
            ev['aofpartial'] = 1
    s.enrich = enrich
    try:
        formspaths.run_forms(s, path, 0, None, subset=subset, reset=False)
        live = dump_all(srv.port)
        fresh = ctx.new_server(name='aofreplay')
        cl = Client(fresh.port, timeout=10.0)
        for e in tail.all:
            cl.call(e, 5.0)
        cl.close()
        rep = dump_all(fresh.port)
        fresh.kill()
        tr.emit({'k': 'aofreplay', 'ok': 1 if rep == live else 0, 'entries': len(tail.all), 'detail': ''})
    except ServerDied:
        pass
    s.close_all()
    ctx.validate(tr, label=label)
    ctx.extra_cov['aof_entries'] = ctx.extra_cov.get('aof_entries', 0) + len(tail.all)
    srv.kill()


def script_flows(ctx):
    """Scripts of several statements on a server with appendonly yes: effects in execution order, effects before an
    error persist and are logged, random outcomes inside scripts, several keys, a script that writes nothing."""
    import luadsl as L
    srv = ctx.new_server(name='aof', appendonly=True)
    tr = ctx.new_trace('script-flows')
    tr.emit({'k': 'config', 'aof': 1})
    tail = AofTail(os.path.join(srv.dir, 'appendonly.aof'))
    s = Session(srv, tr)

    def enrich(ev):
        entries, partial = tail.new_entries()
        ev['aof'] = [[list(x) for x in e] for e in entries]
        if partial:
            ev['aofpartial'] = 1
    s.enrich = enrich
    lit = lambda *a: [L.arg_lit(x) for x in forms.B(*a)]
    call = lambda *a, **kw: L.call(lit(*a), **kw)
    flows = [
        [call('SET', 'a', '1'), call('INCR', 'kl'), call('SET', 'b', '2')],                       # aborted after the first write
        [call('SET', 'a', '1'), call('INCR', 'kl', pcall=True), call('SET', 'b', '2', ret=1)],    # pcall continues
        [call('SPOP', 'kS'), call('SPOP', 'kS', '2'), call('SADD', 'kS', 'z'), call('SCARD', 'kS', ret=1)],
        [call('XADD', 'kx', '7-1', 'f', 'v'), call('XDEL', 'kx', '1-1'), call('XADD', 'kx', '*', 'g', 'w', ret=1)],      # auto id: only in the returning call (the spec learns the id from the reply)
        [call('LPUSH', 'kl', 'x'), call('RPOP', 'kl'), call('LPOP', 'kl'), call('RENAME', 'kl', 'kl2'), call('LRANGE', 'kl2', '0', '-1', ret=1)],
        [call('GET', 'ks'), call('EXISTS', 'ks', ret=1)],                                          # reads only
        [call('SET', 'ks', 'v', 'EX', '100'), call('EXPIRE', 'kh', '100'), call('PERSIST', 'kt'), call('TTL', 'kt', ret=1)],
        [call('DEL', 'ks', 'kl', 'nokey'), call('FLUSHDB'), call('SET', 'only', '1'), call('DBSIZE', ret=1)],
        [call('ZADD', 'kz', '5', 'e'), call('ZPOPMIN', 'kz'), call('ZINCRBY', 'kz', '2', 'b'), call('ZRANGE', 'kz', '0', '-1', 'WITHSCORES', ret=1)],
        [call('HSET', 'kh', 'n', '1'), call('HINCRBY', 'kh', 'n', '5'), call('HDEL', 'kh', 'f', 'g', 'n'), call('EXISTS', 'kh', ret=1)],
    ]
    n = 0
    try:
        for db in (0, 2):
            for bysha in (False, True):
                for prog in flows:
                    for cid in list(s.clients):
                        s.close(cid)
                    c = s.open()
                    s.cmd(c, [b'FLUSHALL'])
                    if db:
                        s.cmd(c, [b'SELECT', str(db).encode()])
                    for p in forms.PRE:
                        s.cmd(c, p)
                    formspaths.eval_prog(s, c, prog, [], [], bysha)
                    if c in s.clients:
                        workloads.dump_db(s, c)
                    n += 1
        live = dump_all(srv.port)
        fresh = ctx.new_server(name='aofreplay')
        cl = Client(fresh.port, timeout=10.0)
        for e in tail.all:
            cl.call(e, 5.0)
        cl.close()
        rep = dump_all(fresh.port)
        fresh.kill()
        tr.emit({'k': 'aofreplay', 'ok': 1 if rep == live else 0, 'entries': len(tail.all), 'detail': ''})
    except ServerDied:
        pass
    s.close_all()
    ctx.validate(tr, label='script-flows')
    srv.kill()
    return n


class AofWrites(workloads.Pool):
    """Write-heavy traffic over all value types on a few keys (faithful and known-unfaithful commands alike)."""

    def __init__(self, rnd):
        workloads.Pool.__init__(self, rnd)
        self.s = workloads.StringsGen(rnd)
        self.c = workloads.CollsGen(rnd)
        self.z = workloads.ZSetGen(rnd)
        self.s.keys = [b'k1', b'k2', b'k3']
        self.c.keys = [b'l1', b's1', b'h1', b'k3']
        self.z.keys = [b'z1', b'k3']
        self.script = []

    def next(self):
        if self.script:
            return self.script.pop(0)
        r = self.rnd.random()
        if r < 0.03:
            # a pop served from a key that is not the first one named
            self.script = [[b'BLPOP', b'nolist', b'l1', b'0.01'], [b'RPUSH', b'l1', b'p', b'q'], [b'BRPOP', b'nolist', b'l2', b'l1', b'0.01']]
            return [b'RPUSH', b'l1', b'x', b'y', b'z']
        if r < 0.08:
            # blocking pops that are answered at once (or time out after 10 ms): several keys, the pop may come from any
            ks = self.rnd.sample([b'l1', b'l2', b'nolist', b'k3'], self.rnd.choice([1, 2, 3]))
            return [self.rnd.choice([b'BLPOP', b'BRPOP'])] + ks + [b'0.01']
        if r < 0.45:
            return self.s.next()
        if r < 0.8:
            return self.c.next()
        return self.z.next()


def restart_history(ctx):
    """A second run of the server on the same directory: the file is opened for appending, where it is positioned is whatever the
    first run left (its last entry ran in database N).  SAVE before the restart, so that the live dataset is the one the file replays to;
    then writes in database 0, in N and elsewhere; the whole file is re-executed on an empty server at the end."""
    import time
    n = 0
    for lastdb, firstdb in ((5, 0), (0, 3), (2, 2), (7, 0)):
        srv = ctx.new_server(name='aof', appendonly=True)
        tr = ctx.new_trace('aof-restart%d' % n)
        tr.emit({'k': 'config', 'aof': 1})
        tail = AofTail(os.path.join(srv.dir, 'appendonly.aof'))
        s = Session(srv, tr)

        def enrich(ev, tail=tail):
            entries, partial = tail.new_entries()
            ev['aof'] = [[list(x) for x in e] for e in entries]
            if partial:
                ev['aofpartial'] = 1
        s.enrich = enrich
        try:
            c = s.open()
            s.cmd(c, [b'SET', b'zero', b'0'])
            s.cmd(c, [b'SELECT', str(lastdb).encode()])
            s.cmd(c, [b'SET', b'k', b'first-run'])
            s.cmd(c, [b'RPUSH', b'l', b'a', b'b'])
            s.cmd(c, [b'SAVE'])
            s.close(c)
            srv.kill()
            t0 = tr.now()
            srv.start()
            tr.emit({'k': 'restart', 't0': t0, 't1': tr.now() + 1})
            c = s.open()
            if firstdb:
                s.cmd(c, [b'SELECT', str(firstdb).encode()])
            s.cmd(c, [b'SET', b'after', b'second-run'])
            s.cmd(c, [b'INCR', b'n'])
            s.cmd(c, [b'SELECT', str(lastdb).encode()])
            s.cmd(c, [b'APPEND', b'k', b'+'])
            s.cmd(c, [b'SELECT', b'9'])
            s.cmd(c, [b'SADD', b's', b'x'])
            live = dump_all(srv.port)
            fresh = ctx.new_server(name='aofreplay')
            cl = Client(fresh.port, timeout=10.0)
            for e in tail.all:
                cl.call(e, 5.0)
            cl.close()
            rep = dump_all(fresh.port)
            fresh.kill()
            tr.emit({'k': 'aofreplay', 'ok': 1 if rep == live else 0, 'entries': len(tail.all),
                     'detail': '' if rep == live else 'databases differing: %s' % sorted(d for d in set(live) | set(rep) if live.get(d) != rep.get(d))})
        except ServerDied:
            pass
        s.close_all()
        ctx.validate(tr, label='aof-restart%d' % n)
        srv.kill()
        n += 1
    return n


def expiry_history(ctx):
    """Commands whose outcome depends on a key having gone away by its deadline (open finding aof_expiry_unlogged: the file holds no
    trace of an expiry, so a quick replay runs them on top of the old value)."""
    import time
    srv = ctx.new_server(name='aof', appendonly=True)
    tr = ctx.new_trace('aof-expiry')
    tr.emit({'k': 'config', 'aof': 1})
    tail = AofTail(os.path.join(srv.dir, 'appendonly.aof'))
    s = Session(srv, tr)

    def enrich(ev):
        entries, partial = tail.new_entries()
        ev['aof'] = [[list(x) for x in e] for e in entries]
        if partial:
            ev['aofpartial'] = 1
    s.enrich = enrich
    try:
        c = s.open()
        for a in ([b'SET', b'k', b'old', b'PX', b'60'], [b'SET', b'n', b'5', b'PX', b'60'], [b'RPUSH', b'l', b'a'], [b'PEXPIRE', b'l', b'60'], [b'SET', b'stay', b'1']):
            s.cmd(c, a)
        time.sleep(0.1)
        for a in ([b'SETNX', b'k', b'new'], [b'GET', b'k'], [b'INCR', b'n'], [b'RPUSH', b'l', b'b'], [b'LRANGE', b'l', b'0', b'-1'], [b'SET', b'k', b'x', b'XX'], [b'APPEND', b'stay', b'2']):
            s.cmd(c, a)
        live = dump_all(srv.port)
        fresh = ctx.new_server(name='aofreplay')
        cl = Client(fresh.port, timeout=10.0)
        for e in tail.all:
            cl.call(e, 5.0)
        cl.close()
        rep = dump_all(fresh.port)
        fresh.kill()
        tr.emit({'k': 'aofreplay', 'ok': 1 if rep == live else 0, 'entries': len(tail.all), 'detail': ''})
    except ServerDied:
        pass
    s.close_all()
    ctx.validate(tr, label='aof-expiry')
    srv.kill()
    return 1


class DbHopWrites(workloads.Pool):
    """Where the file is positioned: few keys, equal names in every database, one command of every LOGGING CLASS — logged
    verbatim, logged by outcome (SPOP, XADD *), addressed to every database (FLUSHALL) or the whole selected one (FLUSHDB),
    changing nothing (not logged or logged harmlessly), failing — meant to be driven with a SELECT before every third command."""

    def __init__(self, rnd):
        workloads.Pool.__init__(self, rnd)
        self.n = 0

    def next(self):
        r = self.rnd
        self.n += 1
        c = r.randrange(24)
        if c == 0: return [b'FLUSHALL']
        if c == 1: return [b'FLUSHDB']
        if c == 2: return [b'SPOP', b's']
        if c == 3: return [b'XADD', b'x', b'*', b'f', b'%d' % self.n]
        if c == 4: return [b'SADD', b's', b'a', b'b', b'%d' % (self.n % 5)]
        if c == 5: return [b'RPUSH', b'l', b'%d' % self.n]
        if c == 6: return [b'LPOP', b'l']
        if c == 7: return [b'BLPOP', b'nolist', b'l', b'0.01']
        if c == 8: return [b'DEL', b'k', b'nokey']
        if c == 9: return [b'INCR', b'n']
        if c == 10: return [b'INCR', b'l']                     # fails
        if c == 11: return [b'SET', b'k', b'v%d' % self.n, b'NX']
        if c == 12: return [b'EXPIRE', b'k', b'1000']
        if c == 13: return [b'RENAME', b'k', b'k2']
        if c == 14: return [b'HSET', b'h', b'f', b'%d' % self.n]
        if c == 15: return [b'ZADD', b'z', b'%d' % (self.n % 7), b'm%d' % (self.n % 3)]
        if c == 16: return [b'GET', b'k']
        if c == 17: return [b'MSET', b'k', b'a', b'k2', b'b']
        if c == 18: return [b'FLUSHALL'] if r.random() < 0.5 else [b'FLUSHDB']
        if c == 19: return [b'SREM', b's', b'nomember']
        if c == 20: return [b'APPEND', b'k', b'+']
        return [b'SET', b'k', b'v%d' % self.n]


def write_set_in_source():
    """The command names of Server::is_write_command (src/network/server.rs)."""
    import re
    src = open('/repo/src/network/server.rs').read()
    m = re.search(r'fn is_write_command\(.*?matches!\(command,(.*?)\)\s*\}', src, re.S)
    return set(re.findall(r'"([A-Z]+)"', m.group(1))) if m else set()


def write_set_in_model():
    import re
    import runner
    txt = open(os.path.join(runner.VERIF, 'spec', 'impl', 'ImplAof.tla')).read()
    m = re.search(r'WriteSet ==\s*\{(.*?)\}', txt, re.S)
    return set(re.findall(r'"([A-Z]+)"', m.group(1)))


def run(ctx):
    # the logging design (spec/impl/ImplAof.tla): every interleaving of 2 connections over the write catalogue keeps the
    # file a faithful redo log; the transcribed write set must be the one in the source
    import runner
    a, b = write_set_in_source(), write_set_in_model()
    if a != b:
        p = ctx.save_violation({'kind': 'write-set', 'only_in_source': sorted(a - b), 'only_in_model': sorted(b - a)})
        ctx.violations.append(('the write set of Server::is_write_command differs from the one the model was checked with: '
                               'only in source %s, only in model %s' % (sorted(a - b), sorted(b - a)), p))
    ctx.model_check('ImplAof', 'MC_Aof_fixed' if ctx.quick else 'MC_Aof_fixed_full', workers=12, timeout=1500, subdir='impl')
    n = 3 if ctx.quick else 24
    for i in range(n):
        history(ctx, i, AofWrites, 250 if ctx.quick else 800, dbs=(i % 3 == 1), txn=(i % 3 == 2))
    # where the file is positioned: a SELECT before every third command, one command of every logging class, also inside EXEC
    for i in range(2 if ctx.quick else 12):
        history(ctx, 100 + i, DbHopWrites, 300 if ctx.quick else 800, dbs=True, txn=(i % 2 == 1), sel_rate=0.3)
    # (reads of a consumer's own history are left out here: their listed deviation, xreadgroup_history_redelivers, leaves the live
    #  server in a state whose replay the redo relation cannot follow; C16 is where that deviation is exercised)
    #  an XCLAIM with an idle threshold is a time-dependent command — whether it claims depends on the clock — which the redo relation
    #  rightly calls non-replayable; the catalogue's form of it is left out as well, thresholds of 0 stay)
    F = [a for a in forms.FORMS if not (a[0].upper() == b'XREADGROUP' and a[-1] != b'>')
         and not (a[0].upper() == b'XCLAIM' and len(a) > 4 and a[4] != b'0')]
    if ctx.quick:
        forms_history(ctx, 'forms-direct', 'direct', F[ctx.seed % 2::2])
        forms_history(ctx, 'forms-multi', 'multi', F[(ctx.seed + 1) % 2::2])
        forms_history(ctx, 'forms-script', 'script-lit', F[ctx.seed % 3::3])
        forms_history(ctx, 'forms-sha', 'script-sha', F[(ctx.seed + 1) % 3::3])
    else:
        for path in ('direct', 'multi', 'script-lit', 'script-keys', 'script-pcall', 'script-sha'):
            forms_history(ctx, 'forms-' + path, path, F)
    nr = restart_history(ctx)
    ctx.extra_cov['restart_histories'] = nr
    expiry_history(ctx)
    nf = script_flows(ctx)
    ctx.extra_cov['script_flows'] = nf
    ctx.extra_cov['distinct_cases'] = n + (4 if ctx.quick else 6) + nf


def replay(ctx, path):
    workloads.replay_file(ctx, path)
