"""C13 — blocking pops never lose, duplicate or strand elements or clients."""
import workloads
from asyncs import AsyncRun
from session import Session, ServerDied

LEVEL = 'model_checking'
RULE = ('TLC checks Conservation / NoLeftover / FifoQueues / NoneStranded on the implementation-shaped model of the mechanism (spec/impl/ImplBlocking.tla: '
        'registry queues, wake queue, the four phases of an event-loop pass, the serve loop; the pinned design is kept behind three switches and yields the '
        'stranded-waiter and leftover-registration schedules); TLC checks conservation, FIFO service, no leftover registration, nobody stranded and time-outs on the bounded '
        'reference instance MC_Blocking (3 clients, 2 keys, pushes of 1-2 elements, single/multi-key BLPOP/BRPOP, pops, '
        'time-outs, disconnects); directed schedules (the four classes found with the implementation-shaped prototype, '
        'plus pipelining behind a blocking pop, disconnect while blocked, cross-database, MULTI) and seeded random async '
        'histories are run against the real server; requests are sent without waiting, the order of execution, wake-ups and '
        'time-outs comes from the server log (hooks H3/H4), the registry snapshot (H5) is taken at a quiescent point; TLC '
        'validates every reply, every served/timeout event, the final lists and the snapshot. Distinct = distinct schedule.')
ASSUMPTIONS = ['a time-out may be delivered up to 3 s late under load (TimeoutSlack), never early by more than 2 ms',
               'the loop-iteration hook is used to order steps without sleeps']


def B(*a):
    return [x if isinstance(x, bytes) else str(x).encode() for x in a]


def txn_schedules():
    """Transactions and scripts that push to a key somebody is blocked on: the waiter is served AFTER the whole EXEC /
    script (C07, C12: one indivisible step), with the element that is then at the proper end of the list."""
    S = []
    S.append(('push-inside-exec-with-waiter', [('open', 1), ('open', 2), ('send', 1, B('BLPOP', 'q', 0)), ('sync',), ('call', 2, B('MULTI')), ('call', 2, B('RPUSH', 'q', 'x')),
                                               ('call', 2, B('LLEN', 'q')), ('call', 2, B('LRANGE', 'q', 0, -1)), ('call', 2, B('RPUSH', 'q', 'y')), ('call', 2, B('LLEN', 'q')),
                                               ('call', 2, B('EXEC')), ('sync',), ('pump', 1, 500), ('call', 2, B('LRANGE', 'q', 0, -1))]))
    S.append(('push-inside-exec-pipelined-two-waiters', [('open', 1), ('open', 2), ('open', 3), ('send', 1, B('BRPOP', 'q', 'r', 0)), ('sync',), ('send', 3, B('BLPOP', 'q', 0)), ('sync',),
                                                         ('send', 2, B('MULTI'), B('LPUSH', 'q', 'a', 'b'), B('LRANGE', 'q', 0, -1), B('LPUSH', 'r', 'c'), B('LLEN', 'r'), B('LPOP', 'q'),
                                                          B('LLEN', 'q'), B('EXEC')), ('pump', 2, 800), ('sync',), ('pump', 1, 500), ('pump', 3, 500),
                                                         ('call', 2, B('LRANGE', 'q', 0, -1)), ('call', 2, B('LRANGE', 'r', 0, -1))]))
    S.append(('push-and-pop-all-inside-exec', [('open', 1), ('open', 2), ('send', 1, B('BLPOP', 'q', '0.4')), ('sync',), ('call', 2, B('MULTI')), ('call', 2, B('RPUSH', 'q', 'x')),
                                               ('call', 2, B('LPOP', 'q')), ('call', 2, B('LLEN', 'q')), ('call', 2, B('EXEC')), ('sync',), ('pump', 1, 1500),
                                               ('call', 2, B('LLEN', 'q'))]))
    # blocking pops QUEUED in a transaction never block, whatever their time-out: a nil in their slot when there is nothing to pop
    S.append(('blocking-pops-queued-on-empty-lists', [('open', 1), ('open', 2), ('call', 1, B('MULTI')), ('call', 1, B('BLPOP', 'nolist', 0)), ('call', 1, B('SET', 'a', 1)),
                                                      ('call', 1, B('BRPOP', 'nolist', 'nolist2', 0)), ('call', 1, B('INCR', 'a')), ('call', 1, B('EXEC'), 4.0), ('call', 1, B('GET', 'a')),
                                                      ('call', 2, B('RPUSH', 'nolist', 'late')), ('sync',), ('pump', 1, 200), ('call', 2, B('LRANGE', 'nolist', 0, -1)), ('call', 1, B('PING'))]))
    S.append(('blocking-pops-queued-pipelined', [('open', 1), ('open', 2), ('send', 1, B('MULTI'), B('BLPOP', 'nolist', 0), B('RPUSH', 'l', 'x'), B('BLPOP', 'l', 'nolist', 0), B('BRPOP', 'l', 0),
                                                  B('EXEC'), B('ECHO', 'behind')), ('pump', 1, 4000), ('call', 2, B('LRANGE', 'l', 0, -1))]))
    import luadsl as L
    prog = [L.call([L.arg_lit(b'RPUSH'), L.arg_key(1), L.arg_lit(b'x')]), L.call([L.arg_lit(b'RPUSH'), L.arg_key(1), L.arg_lit(b'y')]),
            L.call([L.arg_lit(b'LRANGE'), L.arg_key(1), L.arg_lit(b'0'), L.arg_lit(b'-1')], ret=1)]
    S.append(('push-inside-script-with-waiter', [('open', 1), ('open', 2), ('send', 1, B('BLPOP', 'q', 0)), ('sync',), ('eval', 2, prog, [b'q'], []), ('sync',), ('pump', 1, 500),
                                                 ('call', 2, B('LRANGE', 'q', 0, -1))]))
    return S


def crossdb_schedules():
    """Waiters on the SAME key name in two databases, pushes to both handled in ONE pass of the event loop (one pipeline
    with SELECTs in between, one EXEC with a queued SELECT, two connections released together by the loop gate): each
    waiter is served from its own database (C13 served promptly, C18 isolation)."""
    S = []
    two = [('open', 1), ('open', 2), ('open', 3), ('send', 1, B('BLPOP', 'q', 0)), ('sync',), ('call', 3, B('SELECT', 1)), ('send', 3, B('BRPOP', 'q', 0)), ('sync',)]
    tail = [('sync',), ('pump', 1, 600), ('pump', 3, 600), ('call', 2, B('SELECT', 0)), ('call', 2, B('LRANGE', 'q', 0, -1)), ('call', 2, B('SELECT', 1)),
            ('call', 2, B('LRANGE', 'q', 0, -1))]
    S.append(('same-name-two-dbs-one-pipeline', two + [('send', 2, B('SELECT', 0), B('RPUSH', 'q', 'for-db0'), B('SELECT', 1), B('RPUSH', 'q', 'for-db1')), ('pump', 2, 600)] + tail))
    S.append(('same-name-two-dbs-one-exec', two + [('send', 2, B('MULTI'), B('RPUSH', 'q', 'for-db0'), B('SELECT', 1), B('RPUSH', 'q', 'for-db1', 'second'), B('EXEC')),
                                                   ('pump', 2, 600)] + tail))
    S.append(('same-name-two-dbs-two-pushers-one-pass', two + [('open', 4), ('call', 4, B('SELECT', 1)), ('gate', 'on'), ('send', 2, B('LPUSH', 'q', 'for-db0')),
                                                               ('send', 4, B('LPUSH', 'q', 'for-db1')), ('gate', 'step'), ('gate', 'off'), ('pump', 2, 600), ('pump', 4, 600)] + tail))
    S.append(('three-dbs-burst', [('open', 1), ('open', 2), ('open', 3), ('open', 4), ('call', 1, B('SELECT', 2)), ('send', 1, B('BLPOP', 'q', 'r', 0)), ('sync',),
                                  ('call', 3, B('SELECT', 5)), ('send', 3, B('BLPOP', 'r', 'q', 0)), ('sync',), ('send', 4, B('BLPOP', 'q', 0)), ('sync',),
                                  ('send', 2, B('SELECT', 5), B('RPUSH', 'q', 'five'), B('SELECT', 2), B('RPUSH', 'q', 'two'), B('SELECT', 0), B('RPUSH', 'q', 'zero'), B('RPUSH', 'q', 'extra')),
                                  ('pump', 2, 800), ('sync',), ('pump', 1, 600), ('pump', 3, 600), ('pump', 4, 600), ('call', 2, B('LRANGE', 'q', 0, -1)),
                                  ('call', 2, B('SELECT', 2)), ('call', 2, B('LRANGE', 'q', 0, -1)), ('call', 2, B('SELECT', 5)), ('call', 2, B('LRANGE', 'q', 0, -1))]))
    return S


def retyped_schedules():
    """The key a client waits on receives an element and, within the same indivisible step or the same event-loop pass, is
    emptied and becomes a value of another type: the wake-up finds a key that is not a list.  The waiter keeps waiting (and the
    server keeps running); it is served once the key is a list with an element again."""
    S = []
    tail = [('sync',), ('pump', 1, 300), ('call', 2, B('TYPE', 'wk')), ('call', 2, B('DEL', 'wk')), ('call', 2, B('RPUSH', 'wk', 'later')), ('sync',), ('pump', 1, 600),
            ('call', 2, B('LLEN', 'wk')), ('call', 2, B('PING'))]
    for pop in ('BLPOP', 'BRPOP'):
        head = [('open', 1), ('open', 2), ('send', 1, B(pop, 'wk', 0)), ('sync',)]
        S.append(('retyped-inside-exec-' + pop, head + [('send', 2, B('MULTI'), B('LPUSH', 'wk', 'a'), B('DEL', 'wk'), B('SET', 'wk', 'str'), B('EXEC')), ('pump', 2, 600)] + tail))
        S.append(('retyped-in-one-pipeline-' + pop, head + [('send', 2, B('LPUSH', 'wk', 'a'), B('LPOP', 'wk'), B('SADD', 'wk', 'm')), ('pump', 2, 600)] + tail))
        S.append(('retyped-by-rename-' + pop, head + [('call', 2, B('HSET', 'h', 'f', 'v')), ('send', 2, B('MULTI'), B('RPUSH', 'wk', 'a'), B('RENAME', 'h', 'wk'), B('EXEC')), ('pump', 2, 600)] + tail))
    import luadsl as L
    prog = [L.call([L.arg_lit(b'RPUSH'), L.arg_key(1), L.arg_lit(b'x')]), L.call([L.arg_lit(b'DEL'), L.arg_key(1)]),
            L.call([L.arg_lit(b'ZADD'), L.arg_key(1), L.arg_lit(b'1'), L.arg_lit(b'm')], ret=1)]
    S.append(('retyped-inside-script', [('open', 1), ('open', 2), ('send', 1, B('BLPOP', 'wk', 0)), ('sync',), ('eval', 2, prog, [b'wk'], [])] + tail))
    return S


def staggered_timeouts():
    """Several clients blocked at the same time with finite time-outs that end at DIFFERENT instants (same key, different keys,
    different databases, a forever-waiter among them): each gets its nil when its own time is up — the first one firing must not
    cost the later ones theirs."""
    S = []
    S.append(('staggered-timeouts-same-key', [('open', 1), ('open', 2), ('open', 3), ('send', 1, B('BLPOP', 'q', '0.3')), ('sync',), ('send', 2, B('BLPOP', 'q', '0.8')), ('sync',),
                                              ('send', 3, B('BRPOP', 'q', '1.3')), ('sync',), ('pump', 1, 3500), ('pump', 2, 4000), ('pump', 3, 4500),
                                              ('call', 1, B('PING')), ('call', 2, B('PING')), ('call', 3, B('PING'))]))
    S.append(('staggered-timeouts-other-keys-and-dbs', [('open', 1), ('open', 2), ('open', 3), ('open', 4), ('call', 3, B('SELECT', 3)), ('send', 4, B('BLPOP', 'forever', 0)), ('sync',),
                                                        ('send', 1, B('BLPOP', 'a', 'b', '0.9')), ('sync',), ('send', 2, B('BRPOP', 'b', '0.2')), ('sync',),
                                                        ('send', 3, B('BLPOP', 'a', '0.5')), ('sync',), ('pump', 2, 3500), ('pump', 3, 3800), ('pump', 1, 4200),
                                                        ('open', 5), ('call', 5, B('RPUSH', 'forever', 'x')), ('sync',), ('pump', 4, 600), ('call', 1, B('PING'))]))
    S.append(('later-timeout-after-earlier-was-served', [('open', 1), ('open', 2), ('open', 3), ('send', 1, B('BLPOP', 'q', '0.4')), ('sync',), ('send', 2, B('BLPOP', 'r', '1.0')), ('sync',),
                                                         ('call', 3, B('RPUSH', 'q', 'x')), ('sync',), ('pump', 1, 600), ('pump', 2, 4300), ('call', 2, B('PING'))]))
    return S


def directed():
    S = txn_schedules() + crossdb_schedules() + retyped_schedules() + staggered_timeouts()
    S.append(('basic', [('open', 1), ('open', 2), ('send', 1, B('BLPOP', 'q', 0)), ('sync',), ('call', 2, B('RPUSH', 'q', 'a')), ('sync',), ('pump', 1, 500),
                        ('call', 2, B('LRANGE', 'q', 0, -1))]))
    S.append(('multikey-leftover', [('open', 1), ('open', 2), ('send', 1, B('BLPOP', 'a', 'b', 0)), ('sync',), ('call', 2, B('RPUSH', 'a', 'x')), ('sync',),
                                    ('pump', 1, 500), ('call', 2, B('RPUSH', 'b', 'y')), ('sync',), ('call', 2, B('LRANGE', 'b', 0, -1)),
                                    ('call', 1, B('LLEN', 'b'))]))
    S.append(('two-waiters-two-elements', [('open', 1), ('open', 2), ('open', 3), ('send', 1, B('BLPOP', 'q', 0)), ('sync',), ('send', 3, B('BLPOP', 'q', 0)),
                                           ('sync',), ('call', 2, B('RPUSH', 'q', 'e1', 'e2')), ('sync',), ('pump', 1, 500), ('pump', 3, 500),
                                           ('call', 2, B('LRANGE', 'q', 0, -1))]))
    S.append(('pipelined-push-pop-strands', [('open', 1), ('open', 2), ('send', 1, B('BLPOP', 'q', 1)), ('sync',),
                                             ('send', 2, B('LPUSH', 'q', 'x'), B('LPOP', 'q')), ('pump', 2, 500), ('sync',), ('pump', 1, 2500),
                                             ('call', 2, B('LLEN', 'q'))]))
    S.append(('timeout', [('open', 1), ('send', 1, B('BLPOP', 'q', '0.2')), ('pump', 1, 1500)]))
    S.append(('timeout-then-push', [('open', 1), ('open', 2), ('send', 1, B('BRPOP', 'q', '0.1')), ('pump', 1, 1500), ('call', 2, B('RPUSH', 'q', 'late')),
                                    ('sync',), ('call', 2, B('LRANGE', 'q', 0, -1)), ('call', 1, B('LLEN', 'q'))]))
    S.append(('disconnect-while-blocked', [('open', 1), ('open', 2), ('send', 1, B('BLPOP', 'q', 0)), ('sync',), ('close', 1), ('call', 2, B('RPUSH', 'q', 'a')),
                                           ('sync',), ('call', 2, B('LRANGE', 'q', 0, -1))]))
    S.append(('fifo-three', [('open', 1), ('open', 2), ('open', 3), ('open', 4), ('send', 1, B('BLPOP', 'q', 0)), ('sync',), ('send', 3, B('BLPOP', 'q', 0)), ('sync',),
                             ('send', 4, B('BLPOP', 'q', 0)), ('sync',), ('call', 2, B('RPUSH', 'q', '1')), ('sync',), ('call', 2, B('RPUSH', 'q', '2')), ('sync',),
                             ('call', 2, B('RPUSH', 'q', '3')), ('sync',), ('pump', 1, 300), ('pump', 3, 300), ('pump', 4, 300)]))
    S.append(('brpop-order', [('open', 1), ('open', 2), ('send', 1, B('BRPOP', 'q', 0)), ('sync',), ('call', 2, B('RPUSH', 'q', 'a', 'b', 'c')), ('sync',),
                              ('pump', 1, 500), ('call', 2, B('LRANGE', 'q', 0, -1))]))
    S.append(('pipelined-behind-blpop', [('open', 1), ('open', 2), ('send', 1, B('BLPOP', 'q', 0), B('SET', 'k', 'v')), ('sync',), ('call', 2, B('GET', 'k')),
                                         ('call', 2, B('RPUSH', 'q', 'a')), ('sync',), ('pump', 1, 500), ('sync',), ('call', 2, B('GET', 'k'))]))
    S.append(('immediate-and-errors', [('open', 1), ('call', 1, B('RPUSH', 'q', 'a', 'b')), ('call', 1, B('BLPOP', 'q', 0)), ('call', 1, B('BRPOP', 'nokey', 'q', 0)),
                                       ('call', 1, B('SET', 's', 'v')), ('call', 1, B('BLPOP', 's', 0)), ('call', 1, B('BLPOP', 'q', -1)),
                                       ('call', 1, B('BLPOP', 'q', 'x')), ('call', 1, B('BLPOP', 'q')), ('call', 1, B('BLPOP', 'nokey', 's', '0.05'))]))
    S.append(('in-multi', [('open', 1), ('call', 1, B('MULTI')), ('call', 1, B('BLPOP', 'q', 0)), ('call', 1, B('RPUSH', 'q', 'a')), ('call', 1, B('BLPOP', 'q', 0)),
                           ('call', 1, B('EXEC'))]))
    S.append(('cross-db', [('open', 1), ('open', 2), ('call', 1, B('SELECT', 1)), ('send', 1, B('BLPOP', 'q', 0)), ('sync',), ('call', 2, B('RPUSH', 'q', 'db0')),
                           ('sync',), ('pump', 1, 100), ('call', 2, B('SELECT', 1)), ('call', 2, B('RPUSH', 'q', 'db1')), ('sync',), ('pump', 1, 500),
                           ('call', 2, B('LRANGE', 'q', 0, -1)), ('call', 2, B('SELECT', 0)), ('call', 2, B('LRANGE', 'q', 0, -1))]))
    S.append(('served-pop-dirties-watch', [('open', 1), ('open', 2), ('open', 3), ('call', 2, B('RPUSH', 'q', 'a')), ('call', 3, B('WATCH', 'q')),
                                           ('call', 1, B('BLPOP', 'q', 0)), ('send', 1, B('BLPOP', 'q', 0)), ('sync',), ('call', 2, B('RPUSH', 'q', 'b')), ('sync',),
                                           ('pump', 1, 500), ('call', 3, B('MULTI')), ('call', 3, B('SET', 'm', 1)), ('call', 3, B('EXEC'))]))
    S.append(('push-by-lpush-multi', [('open', 1), ('open', 2), ('open', 3), ('send', 1, B('BLPOP', 'q', 0)), ('sync',), ('send', 3, B('BRPOP', 'q', 0)), ('sync',),
                                      ('call', 2, B('LPUSH', 'q', 'x', 'y', 'z')), ('sync',), ('pump', 1, 500), ('pump', 3, 500), ('call', 2, B('LRANGE', 'q', 0, -1))]))
    S.append(('waiter-on-two-keys-both-pushed', [('open', 1), ('open', 2), ('open', 3), ('send', 1, B('BLPOP', 'a', 'b', 0)), ('sync',), ('send', 3, B('BLPOP', 'b', 0)), ('sync',),
                                                 ('send', 2, B('RPUSH', 'b', 'vb'), B('RPUSH', 'a', 'va')), ('pump', 2, 500), ('sync',), ('pump', 1, 500), ('pump', 3, 500),
                                                 ('call', 2, B('LRANGE', 'a', 0, -1)), ('call', 2, B('LRANGE', 'b', 0, -1))]))
    # two waiters whose time-outs are noticed in the SAME scan of the registry (the command thread is kept busy across
    # both deadlines), with a third waiter queued behind them that must stay registered and be served afterwards
    for op in ('BLPOP', 'BRPOP'):
        S.append(('timeouts-same-scan-%s' % op, [('open', 1), ('open', 2), ('open', 3), ('open', 4), ('send', 1, B(op, 'q', '0.15')), ('sync',),
                                                  ('send', 3, B(op, 'q', '0.2')), ('sync',), ('send', 4, B(op, 'q', 0)), ('sync',),
                                                  ('call', 2, B('SLEEP', 450)), ('pump', 1, 800), ('pump', 3, 800), ('sync',), ('pump', 4, 50),
                                                  ('call', 2, B('RPUSH', 'q', 'x')), ('sync',), ('pump', 4, 800), ('call', 2, B('LRANGE', 'q', 0, -1))]))
    S.append(('timeouts-same-scan-multikey', [('open', 1), ('open', 2), ('open', 3), ('open', 4), ('send', 1, B('BLPOP', 'q', 'r', '0.15')), ('sync',),
                                              ('send', 3, B('BLPOP', 'r', 'q', '0.2')), ('sync',), ('send', 4, B('BLPOP', 'r', '0.9')), ('sync',),
                                              ('call', 2, B('SLEEP', 450)), ('pump', 1, 800), ('pump', 3, 800), ('sync',),
                                              ('call', 2, B('RPUSH', 'r', 'y')), ('sync',), ('pump', 4, 900), ('call', 2, B('LRANGE', 'r', 0, -1))]))
    # a client served through ONE of several keys blocks again on a different key: a push to a key of the first call must
    # neither reach it nor be lost, and the deadline of the first call must not end the second
    for op, push in (('BLPOP', 'RPUSH'), ('BRPOP', 'LPUSH')):
        S.append(('served-multikey-then-reblock-%s' % op, [('open', 1), ('open', 2), ('send', 1, B(op, 'k1', 'k2', 0)), ('sync',), ('call', 2, B(push, 'k1', 'a')), ('sync',),
                                                           ('pump', 1, 500), ('send', 1, B(op, 'k3', 0)), ('sync',), ('call', 2, B(push, 'k2', 'b')), ('sync',), ('pump', 1, 200),
                                                           ('call', 2, B('LRANGE', 'k2', 0, -1)), ('call', 2, B(push, 'k3', 'c')), ('sync',), ('pump', 1, 500),
                                                           ('call', 2, B('LRANGE', 'k2', 0, -1)), ('call', 2, B('LRANGE', 'k3', 0, -1))]))
    S.append(('served-multikey-old-deadline', [('open', 1), ('open', 2), ('send', 1, B('BLPOP', 'k1', 'k2', '0.3')), ('sync',), ('call', 2, B('RPUSH', 'k2', 'a')), ('sync',),
                                               ('pump', 1, 500), ('send', 1, B('BLPOP', 'k3', 'k1', 0)), ('sync',), ('sleep', 600), ('pump', 1, 50),
                                               ('call', 2, B('RPUSH', 'k1', 'late')), ('sync',), ('pump', 1, 500), ('call', 2, B('LRANGE', 'k1', 0, -1))]))
    S.append(('timed-out-multikey-then-reblock', [('open', 1), ('open', 2), ('send', 1, B('BLPOP', 'k1', 'k2', '0.1')), ('pump', 1, 1500), ('send', 1, B('BRPOP', 'k3', 0)), ('sync',),
                                                  ('call', 2, B('RPUSH', 'k2', 'b')), ('sync',), ('call', 2, B('RPUSH', 'k1', 'a')), ('sync',), ('pump', 1, 200),
                                                  ('call', 2, B('LRANGE', 'k1', 0, -1)), ('call', 2, B('LRANGE', 'k2', 0, -1)), ('call', 2, B('RPUSH', 'k3', 'c')), ('sync',), ('pump', 1, 500)]))
    # one client keeps waiting while ANOTHER client's multi-key call times out (or is served, or disconnects): whatever
    # bookkeeping the leaver's several registrations undo must not take the stayer's along
    for how in ('timeout', 'served', 'close'):
        for nkeys in (2, 3):
            ks = ['m1', 'm2', 'm3'][:nkeys]
            leave = {'timeout': [('pump', 3, 900)], 'served': [('call', 2, B('RPUSH', ks[-1], 'for-leaver')), ('sync',), ('pump', 3, 500)],
                     'close': [('close', 3)]}[how]
            S.append(('stayer-beside-multikey-%s-%d' % (how, nkeys),
                      [('open', 1), ('open', 2), ('open', 3), ('send', 1, B('BLPOP', 'x', 0)), ('sync',),
                       ('send', 3, B('BRPOP', *ks, '0.2' if how == 'timeout' else 0)), ('sync',)] + leave +
                      [('sync',), ('call', 2, B('RPUSH', 'x', 'job')), ('sync',), ('pump', 1, 700), ('call', 2, B('LRANGE', 'x', 0, -1)),
                       ('send', 1, B('BLPOP', 'x', ks[0], 0)), ('sync',), ('call', 2, B('LPUSH', ks[0], 'again')), ('sync',), ('pump', 1, 700),
                       ('call', 2, B('LRANGE', ks[0], 0, -1))]))
    # a blocked client whose connection another client ends with CLIENT KILL: its registrations end with it — a later push
    # stays in the list (or goes to the next waiter), nothing is left in the registry
    S.append(('blocked-client-killed', [('open', 1), ('open', 2), ('idof', 1), ('send', 1, B('BLPOP', 'q', 'r', 0)), ('sync',), ('kill', 2, 1), ('sync',),
                                        ('call', 2, B('RPUSH', 'q', 'a')), ('sync',), ('call', 2, B('RPUSH', 'r', 'b')), ('sync',), ('pump', 1, 200),
                                        ('call', 2, B('LRANGE', 'q', 0, -1)), ('call', 2, B('LRANGE', 'r', 0, -1))]))
    S.append(('first-waiter-killed-second-served', [('open', 1), ('open', 2), ('open', 3), ('idof', 1), ('send', 1, B('BRPOP', 'q', 0)), ('sync',), ('send', 3, B('BLPOP', 'q', 0)),
                                                    ('sync',), ('kill', 2, 1), ('sync',), ('call', 2, B('RPUSH', 'q', 'a', 'b')), ('sync',), ('pump', 3, 500), ('pump', 1, 100),
                                                    ('call', 2, B('LRANGE', 'q', 0, -1))]))
    S.append(('killed-while-timed-wait', [('open', 1), ('open', 2), ('idof', 1), ('send', 1, B('BLPOP', 'q', '0.3')), ('sync',), ('kill', 2, 1), ('sleep', 500),
                                          ('call', 2, B('RPUSH', 'q', 'late')), ('sync',), ('call', 2, B('LRANGE', 'q', 0, -1))]))
    return S


def random_schedule(rnd, n):
    keys = ['q', 'r', 't']
    st = [('open', c) for c in (1, 2, 3, 4)]
    blocked = set()
    for _ in range(n):
        k = rnd.randrange(12)
        c = rnd.choice([1, 2, 3])
        if k < 3 and c not in blocked:
            ks = rnd.sample(keys, rnd.choice([1, 1, 2, 2, 3]))
            st.append(('send', c, B(rnd.choice(['BLPOP', 'BRPOP']), *ks, rnd.choice([0, 0, '0.15', '0.3']))))
            st.append(('sync',))
            blocked.add(c)
        elif k < 7:
            els = ['e%d' % rnd.randrange(100) for _ in range(rnd.choice([1, 1, 2, 3]))]
            st.append(('call', 4, B(rnd.choice(['RPUSH', 'LPUSH']), rnd.choice(keys), *els)))
            if rnd.random() < 0.7:
                st.append(('sync',))
        elif k == 7:
            st.append(('send', 4, B('RPUSH', rnd.choice(keys), 'p'), B(rnd.choice(['LPOP', 'RPOP']), rnd.choice(keys))))
            st.append(('pump', 4, 300))
        elif k == 8:
            st.append(('call', 4, B(rnd.choice(['LPOP', 'RPOP', 'LLEN']), rnd.choice(keys))))
        elif k == 9:
            for b in list(blocked):
                st.append(('pump', b, 50))
            blocked.clear()
            st.append(('sleep', 350))
        elif k == 10 and c in blocked and rnd.random() < 0.5:
            st.append(('close', c))
            blocked.discard(c)
            st.append(('open', c))
        else:
            st.append(('sync',))
    st.append(('sleep', 400))
    for c in (1, 2, 3):
        st.append(('pump', c, 100))
    for kx in keys:
        st.append(('call', 4, B('LRANGE', kx, 0, -1)))
    return st


def run_schedule(ctx, srv, name, steps, tr):
    s0 = Session(srv, tr)
    s0.next_id = 900
    c0 = s0.open()
    s0.cmd(c0, [b'FLUSHALL'])
    s0.close(c0)
    tr.emit({'k': 'note', 'text': name})
    run = AsyncRun(srv, tr)
    sids = {}
    try:
        for st in steps:
            op = st[0]
            if op == 'open':
                if st[1] in run.cl:
                    continue
                if st[1] in run.recs:        # re-opened under a fresh index
                    continue
                run.open(st[1])
            elif op == 'send':
                if st[1] in run.cl:
                    run.send(st[1], *st[2:])
            elif op == 'call':
                if st[1] in run.cl:
                    run.call(st[1], st[2], *(st[3:4]))
            elif op == 'eval':
                import luadsl as L
                src = L.render(st[2])
                if st[1] in run.cl:
                    run.call(st[1], [b'EVAL', src, str(len(st[3])).encode()] + st[3] + st[4],
                             extra={'prog': L.clean(st[2]), 'sha': list(L.sha1hex(src))})
            elif op == 'gate':
                if st[1] == 'step':
                    srv.ctl.cmd('STEP 1')
                else:
                    srv.ctl.cmd('GATE ' + st[1])
            elif op == 'idof':
                if st[1] in run.cl:
                    run.call(st[1], [b'CLIENT', b'ID'])
                    r = run.recs[st[1]][-1]['r']
                    sids[st[1]] = r[1] if r and r[0] == 'int' else None
            elif op == 'kill':
                if st[1] in run.cl and sids.get(st[2]) is not None:
                    run.call(st[1], [b'CLIENT', b'KILL', b'ID', str(sids[st[2]]).encode()])
            elif op == 'pump':
                run.pump(st[1], st[2] / 1000.0, want_all=True)
            elif op == 'sync':
                run.sync(3)
            elif op == 'sleep':
                run.sleep(st[1])
            elif op == 'close':
                run.close(st[1])
            if not srv.alive():
                break
    except (OSError, ServerDied):
        pass
    ok = srv.alive()
    if ok:
        try:
            srv.ctl.cmd('GATE off')
        except OSError:         # the process ended between the two lines
            ok = False
    if ok:
        run.finish()
    else:
        run.merge([], None)
        tr.emit({'k': 'crash', 'status': srv.exit_status()})


def run(ctx):
    ctx.model_check('MC_Blocking', 'MC_C13' if ctx.quick else 'MC_C13_full', workers=12, timeout=2400)
    # the mechanism as coded (registry queues, wake queue, the phases of one event-loop pass, the serve loop of wake_client):
    # every interleaving of a few clients' sends, closes and clock ticks with the loop's phases
    ctx.model_check('ImplBlocking', 'MC_Blocking_fixed_quick' if ctx.quick else 'MC_Blocking_fixed', workers=12, timeout=2400, subdir='impl')
    srv = ctx.new_server()
    n = 0
    for name, steps in directed():
        # every schedule starts on a server process of its own: counters and caches that an earlier schedule has pushed out of
        # range (and thereby made harmless) would otherwise hide what this one is about
        srv.restart()
        tr = ctx.new_trace('blk-' + name)
        run_schedule(ctx, srv, name, steps, tr)
        ctx.validate(tr, label='blk-' + name)
        n += 1
        if not srv.alive():
            srv.restart()
    for i in range(8 if ctx.quick else 80):
        srv.restart()
        tr = ctx.new_trace('blk-rand%d' % i)
        run_schedule(ctx, srv, 'rand%d' % i, random_schedule(ctx.rnd, 25 if ctx.quick else 60), tr)
        ctx.validate(tr, label='blk-rand%d' % i)
        n += 1
        if not srv.alive():
            srv.restart()
    ctx.extra_cov['distinct_cases'] = n


def replay(ctx, path):
    workloads.replay_file(ctx, path)
