"""C14 — Pub/Sub delivers each message exactly once per matching subscription."""
import workloads
import gen

LEVEL = 'model_checking'
RULE = ('TLC explores 2-3 connections subscribing / pattern-subscribing / unsubscribing / publishing over overlapping '
        'channels and glob patterns (MC_PubSub) and checks exactly-once delivery per subscription, acknowledgement counts and '
        'cleanup; its transitions are replayed; seeded random multi-client histories with binary payloads, named and unnamed '
        'unsubscription and disconnects are driven serially; a pattern x channel matrix (every pattern over {a,b,*,?} up to length 3/4 '
        'plus classes, escapes and overlapping false starts, every channel over {a,b} up to length 4/5) exercises the matcher; every acknowledgement frame, every PUBLISH count and every '
        'push frame read by every subscriber is matched by TLC against the per-subscriber inbox of the spec, and a final '
        'quiesce event requires that nothing owed is missing.')
ASSUMPTIONS = ['a closed client is considered gone once the server event loop has made 3 further iterations (hook H2); '
               'until then PUBLISH may or may not count it',
               'push frames of one PUBLISH to one client may arrive in any order (bag)']


def glob_matrix(ctx, srv):
    """Every pattern of the matrix (workloads.glob_matrix) against every channel: a subscriber holds a batch of
    patterns, a publisher sends to each channel; receiver counts and pmessage frames are validated by TLC (Glob)."""
    pats, chans = workloads.glob_matrix(ctx.quick)
    s = workloads.fresh_session(ctx, srv, 'globs')
    pairs = 0
    try:
        pub = s.open()
        batch = 12
        for i in range(0, len(pats), batch):
            sub = s.open()
            s.cmd(sub, [b'PSUBSCRIBE'] + pats[i:i + batch])
            for ch in chans:
                s.cmd(pub, [b'PUBLISH', ch, b'm'])
                s.poll_all(0.002)
                pairs += len(pats[i:i + batch])
            s.quiesce(0.01)
            s.poll(sub)
            s.close(sub)
            if s.trace.n > 12000:
                s.close_all()
                ctx.validate(s.trace, label='globs[..%d]' % i)
                s = workloads.fresh_session(ctx, srv, 'globs')
                pub = s.open()
        s.quiesce()
    except (workloads.ServerDied, OSError):
        if not srv.alive():
            s.trace.emit({'k': 'crash', 'status': srv.exit_status()})
    s.close_all()
    ctx.validate(s.trace, label='globs')
    if not srv.alive():
        srv.restart()
    return pairs


def run(ctx):
    ctx.model_check('MC_PubSub', 'MC_C14', workers=8, timeout=1200)
    paths = gen.generate_paths(ctx, 'MC_PubSub', 'MC_C14_gen', conn_paths=True, limit=600 if ctx.quick else 15000)
    ctx.extra_cov['generated_paths'] = len(paths)
    srv = ctx.new_server()
    workloads.replay_pubsub_paths(ctx, srv, paths, label='gen')
    n_hist = 6 if ctx.quick else 60
    for i in range(n_hist):
        workloads.pubsub_history(ctx, srv, workloads.PubSubGen(ctx.rnd, 4 if ctx.quick else 5), 250 if ctx.quick else 800,
                                 'ps%d' % i)
    pairs = glob_matrix(ctx, srv)
    ctx.extra_cov['glob_pairs'] = pairs
    ctx.extra_cov['distinct_cases'] = len(paths) + n_hist + pairs


def replay(ctx, path):
    workloads.replay_file(ctx, path)
