"""C14 — Pub/Sub delivers each message exactly once per matching subscription."""
import workloads
import gen

LEVEL = 'model_checking'
RULE = ('TLC explores 2-3 connections subscribing / pattern-subscribing / unsubscribing / publishing over overlapping '
        'channels and glob patterns (MC_PubSub) and checks exactly-once delivery per subscription, acknowledgement counts and '
        'cleanup; its transitions are replayed; seeded random multi-client histories with binary payloads, named and unnamed '
        'unsubscription and disconnects are driven serially; every acknowledgement frame, every PUBLISH count and every '
        'push frame read by every subscriber is matched by TLC against the per-subscriber inbox of the spec, and a final '
        'quiesce event requires that nothing owed is missing.')
ASSUMPTIONS = ['a closed client is considered gone once the server event loop has made 3 further iterations (hook H2); '
               'until then PUBLISH may or may not count it',
               'push frames of one PUBLISH to one client may arrive in any order (bag)']


def run(ctx):
    ctx.model_check('MC_PubSub', 'MC_C14', workers=8, timeout=1200)
    paths = gen.generate_paths(ctx, 'MC_PubSub', 'MC_C14_gen', conn_paths=True, limit=600 if ctx.quick else 15000)
    ctx.extra_cov['generated_paths'] = len(paths)
    srv = ctx.new_server()
    workloads.replay_pubsub_paths(ctx, srv, paths, label='gen')
    n_hist = 6 if ctx.quick else 60
    for i in range(n_hist):
        workloads.pubsub_history(ctx, srv, workloads.PubSubGen(ctx.rnd, 4 if ctx.quick else 5), 250 if ctx.quick else 800,
                                 'ps%d' % i)
    ctx.extra_cov['distinct_cases'] = len(paths) + n_hist


def replay(ctx, path):
    workloads.replay_file(ctx, path)
