"""C15 — streams are append-only logs with strictly increasing ids and exact ranges."""
import workloads
import gens_streams
import gen

LEVEL = 'model_checking'
RULE = ('TLC checks on MC_Data/MC_C15 that in every reachable state of spec/Streams.tla XLEN equals the number of present '
        'entries, ids strictly increase, the last id dominates every id and never decreases (LastMono), XRANGE - + / '
        'XREVRANGE + - / XREAD 0-0 return exactly the present entries, an id not greater than the last one is refused and '
        'an auto id is greater than it (StreamLaws), plus failure atomicity and read-only-ness; every transition of the '
        'bounded instance is replayed on the real server; seeded random histories (colliding explicit ids, auto ids, '
        'bounds below/inside/between/above, COUNT, XDEL/XTRIM down to emptied streams) with a full read-back every 12 '
        'commands are validated against the spec. Auto ids are taken from the observed reply and must exceed the last id.')
ASSUMPTIONS = ['ids are exact 64-bit pairs (decimal digit strings in the spec)',
               'field order inside an entry is compared as a bag of field-value pairs',
               'two inputs that kill the server process (XADD * after the greatest id; see out/streams_findings.json) are '
               'not generated: a crash cannot be carried as a deviation',
               'stream keys carry no TTL in the generated histories']


def run(ctx):
    ctx.model_check('MC_Data', 'MC_C15' if ctx.quick else 'MC_C15_full', workers=8, timeout=1500)
    paths = gen.generate_paths(ctx, 'MC_Data', 'MC_C15_gen', limit=None)
    paths = [p for p in paths if not gens_streams.crashes_server(p)]
    lim = 3000 if ctx.quick else 40000
    if len(paths) > lim:
        step = len(paths) / float(lim)
        paths = [paths[int(i * step)] for i in range(lim)]
    ctx.extra_cov['generated_paths'] = len(paths)
    srv = ctx.new_server()
    workloads.replay_paths(ctx, srv, paths, label='gen')
    n_hist = 8 if ctx.quick else 60
    for i in range(n_hist):
        gens_streams.stream_history(ctx, srv, gens_streams.StreamGen(ctx.rnd), n=300 if ctx.quick else 1500,
                                    label='xrand%d' % i)
    ctx.extra_cov['distinct_cases'] = len(paths) + n_hist


def replay(ctx, path):
    workloads.replay_file(ctx, path)
