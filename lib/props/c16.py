"""C16 — consumer groups deliver each entry once and account pending entries exactly."""
import workloads
import gens_streams
import gen

LEVEL = 'model_checking'
RULE = ('TLC checks on MC_Data/MC_C16 that in every reachable state of the consumer-group model (spec/Streams.tla: last '
        'delivered id, pending map id -> owner/deliveries, consumer set) XPENDING\'s total, id bounds and per-consumer '
        'counts equal the pending set, rows are in id order and every owner is a consumer (GroupLaws), plus failure '
        'atomicity; every transition of the bounded instance (two consumers, reads with COUNT/NOACK, history reads, XACK, '
        'XCLAIM, XDEL, group/consumer administration) is replayed on the real server; seeded random multi-group histories '
        'are validated with a complete read-back of every group (XPENDING summary, all rows, rows per consumer) every 12 '
        'commands, so that any divergence between the pending indexes and counters becomes visible; hand-over stories (one stream, one group, three consumers: '
        'small deliveries, claims of older and newer entries in both directions, acknowledgement of the lowest / highest / a middle id, consumers deleted while '
        'they hold a bound of the pending set, entries deleted under pending ids) are audited after EVERY command.')
ASSUMPTIONS = ['idle times are not compared (any non-negative integer); XCLAIM is generated with min-idle-time 0 only',
               'the pending-entry structures are observed through XPENDING (no in-process checker hook: /repo is not '
               'modified for this property)',
               'half of the random histories never re-position a group (SETID) or read history, because the known defects '
               'on those paths leave the implementation\'s accounting in a state the model cannot follow',
               'XPENDING with start > end kills the server process and is not generated (see out/streams_findings.json)',
               'Redis 6.2 and 7.0 differ on claiming a pending entry whose stream entry was deleted: both are admitted']


def run(ctx):
    ctx.model_check('MC_Data', 'MC_C16' if ctx.quick else 'MC_C16_full', workers=8, timeout=1500)
    paths = gen.generate_paths(ctx, 'MC_Data', 'MC_C16_gen', limit=None)
    paths = [p for p in paths if not gens_streams.crashes_server(p)]
    lim = 3000 if ctx.quick else 40000
    if len(paths) > lim:
        step = len(paths) / float(lim)
        paths = [paths[int(i * step)] for i in range(lim)]
    ctx.extra_cov['generated_paths'] = len(paths)
    srv = ctx.new_server()
    workloads.replay_paths(ctx, srv, paths, label='gen')
    n_hist = 8 if ctx.quick else 60
    for i in range(n_hist):
        gens_streams.stream_history(ctx, srv, gens_streams.GroupGen(ctx.rnd), n=300 if ctx.quick else 1500,
                                    label='grand%d' % i, groups=True)
    # hand-over stories on one group, audited after every command
    n_story = 10 if ctx.quick else 100
    for i in range(n_story):
        gens_streams.stream_history(ctx, srv, gens_streams.GroupStoryGen(ctx.rnd), n=120 if ctx.quick else 300,
                                    label='story%d' % i, every=1, groups=True)
    ctx.extra_cov['handover_stories'] = n_story
    ctx.extra_cov['distinct_cases'] = len(paths) + n_hist + n_story


def replay(ctx, path):
    workloads.replay_file(ctx, path)
