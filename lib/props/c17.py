"""C17 — with a password set, unauthenticated connections can neither read nor write."""
import os
import re
import workloads
import gen
import resp
from client import Client
from session import Session
import runner

LEVEL = 'model_checking'
RULE = ('TLC explores 2 connections over the authentication catalogue with a password configured (MC_Txn/MC_C17) and '
        'checks C17_Gate (every command but AUTH/PING/QUIT refused, nothing changes, only the exact password '
        'authenticates, per connection); its transitions are replayed on a server started with requirepass; then EVERY '
        'command name the server dispatches (extracted from the match arms of server.rs and required to be in the spec table) '
        'is sent unauthenticated in three connection states and two pipeline positions; any reply other than one error, '
        'any unsolicited byte, and any difference seen afterwards by an authenticated control connection (dataset dump, '
        'PUBLISH receiver counts, INFO replication) is a rejection by the trace spec.')
ASSUMPTIONS = ['command names are extracted from quoted match arms in src/network/server.rs',
               'INFO replication connected_slaves is read by the harness and recorded as a chk event']

PW = b'pw'


def dispatched_names():
    src = open('/repo/src/network/server.rs').read()
    names = set(re.findall(r'^\s*(?:\|\s*)?"([A-Z]{3,})"(?:\s*\|\s*"[A-Z]+")*\s*=>', src, re.M))
    names |= set(re.findall(r'"([A-Z]{3,})"\s*\|', src))
    names |= set(re.findall(r'\|\s*"([A-Z]{3,})"', src))
    names |= set(re.findall(r'command == "([A-Z]+)"', src))
    return names


def spec_names():
    lit = open(os.path.join(runner.VERIF, 'spec', 'Lit.tla')).read()
    m = re.search(r'AllCommandNames == \{(.*?)\}', lit, re.S)
    return set(re.findall(r'"([A-Z]+)"', m.group(1)))


ARGS = {0: [], 1: [b'k'], 2: [b'k', b'v'], 3: [b'k', b'0', b'v']}


def probe(ctx, srv, tr, cid, name, state, position):
    """One unauthenticated connection sends `name`; returns nothing, emits events."""
    s = Session(srv, tr)
    s.next_id = cid
    c = s.open()
    if state == 'failed_auth':
        s.cmd(c, [b'AUTH', b'wrong'])
    reqs = []
    if position == 'second':
        reqs.append([b'GET', b'k'])
    for nargs in (1, 2):
        reqs.append([name.encode()] + ARGS[nargs])
    cl = s.clients[c]
    t0 = tr.now()
    cl.send_raw(b''.join(resp.enc_cmd(a) for a in reqs))
    frames = []
    while True:
        r = cl.recv(0.5 if len(frames) < len(reqs) else 0.03)
        if r[0] in ('none', 'closed'):
            closed = r[0] == 'closed'
            break
        frames.append(r)
        if r[0] == 'garbage':
            closed = False
            break
    t1 = tr.now() + 1
    for i, a in enumerate(reqs):
        rj = resp.to_json(frames[i]) if i < len(frames) else ({'t': 'closed'} if closed else {'t': 'none'})
        tr.emit({'k': 'cmd', 'c': c, 'argv': [list(x) for x in a], 'r': rj, 't0': t0, 't1': t1})
    if len(frames) > len(reqs):
        tr.emit({'k': 'extra', 'c': c, 'rs': [resp.to_json(f) for f in frames[len(reqs):]][:5]})
    if closed:
        tr.emit({'k': 'dropped', 'c': c})
        cl.close()
        del s.clients[c]
    else:
        s.close(c)


def control_view(ctx, srv, s, admin):
    """What an authenticated connection sees: dataset, subscriptions (via PUBLISH counts), replicas."""
    workloads.dump_db(s, admin)
    for ch in (b'k', b'v', b'0'):
        s.cmd(admin, [b'PUBLISH', ch, b'x'])
    r = s.clients[admin].call([b'INFO', b'replication'])
    n = -1
    if r[0] == 'bulk':
        m = re.search(rb'connected_slaves:(\d+)', r[1])
        n = int(m.group(1)) if m else -1
    s.trace.emit({'k': 'chk', 'name': 'no_replicas', 'ok': 1 if n == 0 else 0, 'detail': 'connected_slaves=%d' % n})


def run(ctx):
    missing = dispatched_names() - spec_names() - {'SET', 'GET'} if False else dispatched_names() - spec_names()
    if missing:
        raise runner.ToolError('commands dispatched by server.rs but missing from the spec table (tools/genlit.py): %s'
                               % sorted(missing))
    ctx.model_check('MC_Txn', 'MC_C17', workers=8, timeout=1200)
    paths = gen.generate_paths(ctx, 'MC_Txn', 'MC_C17_gen', conn_paths=True, limit=1500 if ctx.quick else 20000)
    ctx.extra_cov['generated_paths'] = len(paths)
    srv = ctx.new_server(password=PW.decode())
    tr0 = ctx.new_trace('gen')
    tr0.emit({'k': 'config', 'pass': list(PW)})
    tr0.close()
    workloads.replay_conn_paths(ctx, srv, paths, label='gen', password=PW, header=[{'k': 'config', 'pass': list(PW)}])
    # every dispatched command, unauthenticated
    names = sorted(dispatched_names() - {'SHUTDOWN'})
    ctx.extra_cov['dispatched_commands'] = len(names)
    tr = ctx.new_trace('names')
    tr.emit({'k': 'config', 'pass': list(PW)})
    s = Session(srv, tr)
    admin = s.open()
    s.cmd(admin, [b'AUTH', PW])
    s.cmd(admin, [b'FLUSHALL'])
    s.cmd(admin, [b'SET', b'k', b'secret'])
    cid = 100
    cases = 0
    states = ['fresh', 'failed_auth'] if ctx.quick else ['fresh', 'failed_auth', 'fresh']
    for name in names:
        for state in states:
            for position in (['first'] if ctx.quick else ['first', 'second']):
                cid += 1
                probe(ctx, srv, tr, cid, name, state, position)
                cases += 1
                if not srv.alive():
                    tr.emit({'k': 'crash', 'status': srv.exit_status()})
                    break
        if not srv.alive():
            break
    if srv.alive():
        control_view(ctx, srv, s, admin)
    # wrong passwords
    wrongs = [b'p', b'pw ', b'PW', b'Pw', b'', b'pw\x00', b'\xffpw', b'pwpw', b'wp']
    for w in wrongs:
        if not srv.alive():
            break
        c = s.open()
        s.cmd(c, [b'AUTH', w])
        s.cmd(c, [b'GET', b'k'])
        s.cmd(c, [b'AUTH', PW])
        s.cmd(c, [b'GET', b'k'])
        s.close(c)
        cases += 1
    s.close_all()
    ctx.validate(tr, label='names')
    ctx.extra_cov['distinct_cases'] = len(paths) + cases


def replay(ctx, path):
    workloads.replay_file(ctx, path)
