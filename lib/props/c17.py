"""C17 — with a password set, unauthenticated connections can neither read nor write."""
import os
import re
import workloads
import gen
import resp
from client import Client
from session import Session, ServerDied
import runner

LEVEL = 'model_checking'
RULE = ('TLC explores 2 connections over the authentication catalogue with a password configured (MC_Txn/MC_C17) and '
        'checks C17_Gate (every command but AUTH/PING/QUIT refused, nothing changes, only the exact password '
        'authenticates, per connection); its transitions are replayed on a server started with requirepass; then EVERY '
        'command name the server dispatches (extracted from the match arms of server.rs and required to be in the spec table) '
        'is sent unauthenticated in three connection states and two pipeline positions; unauthenticated connections are killed by an authenticated '
        'CLIENT KILL while their pipeline is in flight, both handled in one event-loop pass (hook H2 gate), killer visited before and after the victim; any reply other than one error, '
        'any unsolicited byte, and any difference seen afterwards by an authenticated control connection (dataset dump, '
        'PUBLISH receiver counts, INFO replication) is a rejection by the trace spec.')
ASSUMPTIONS = ['command names are extracted from quoted match arms in src/network/server.rs',
               'INFO replication connected_slaves is read by the harness and recorded as a chk event']

PW = b'pw'
UNKNOWN = set()      # dispatched names the spec table lacks (filled by run)


def dispatched_names():
    src = open('/repo/src/network/server.rs').read()
    names = set(re.findall(r'^\s*(?:\|\s*)?"([A-Z]{3,})"(?:\s*\|\s*"[A-Z]+")*\s*=>', src, re.M))
    names |= set(re.findall(r'"([A-Z]{3,})"\s*\|', src))
    names |= set(re.findall(r'\|\s*"([A-Z]{3,})"', src))
    names |= set(re.findall(r'command == "([A-Z]+)"', src))
    return names


def spec_names():
    lit = open(os.path.join(runner.VERIF, 'spec', 'Lit.tla')).read()
    m = re.search(r'AllCommandNames == \{(.*?)\}', lit, re.S)
    return set(re.findall(r'"([A-Z]+)"', m.group(1)))


ARGS = {0: [], 1: [b'k'], 2: [b'k', b'v'], 3: [b'k', b'0', b'v']}

# Keys of every type that the authenticated control connection creates before the probes.
SETUP = [[b'SET', b'k', b'secret'], [b'SET', b'ks', b'10'], [b'RPUSH', b'kl', b'a', b'b', b'c'], [b'HSET', b'kh', b'f', b'1'],
         [b'SADD', b'kS', b'a', b'b'], [b'ZADD', b'kz', b'1', b'a', b'2', b'b'], [b'XADD', b'kx', b'1-1', b'f', b'v'],
         [b'XGROUP', b'CREATE', b'kx', b'g', b'0-0'], [b'XREADGROUP', b'GROUP', b'g', b'c', b'STREAMS', b'kx', b'>']]

# Well-formed invocations (arguments after the name): what an authenticated connection would be served.  The generic
# forms `NAME k` / `NAME k v` stay in the enumeration; these make the probe meaningful for commands whose generic form
# is refused for its syntax alone (an error either way).  calibrate() demands that every dispatched name has at least
# one form that an authenticated connection is served without error, except the names in NO_CALIBRATION.
F = lambda *xs: [x if isinstance(x, bytes) else x.encode() for x in xs]
FORMS = {
    'APPEND': [F('ks', 'x')], 'BGREWRITEAOF': [F()], 'BGSAVE': [F()], 'BLPOP': [F('kl', '0.01')], 'BRPOP': [F('kl', '0.01')],
    'CLIENT': [F('LIST'), F('ID'), F('GETNAME'), F('SETNAME', 'intruder'), F('INFO'), F('KILL', 'ID', '1')],
    'COMMAND': [F(), F('COUNT')], 'CONFIG': [F('GET', 'requirepass'), F('GET', '*'), F('SET', 'requirepass', ''), F('SET', 'slowlog-max-len', '7')],
    'DBSIZE': [F()], 'DECR': [F('ks')], 'DECRBY': [F('ks', '1')], 'DEL': [F('ks')], 'DISCARD': [F()], 'ECHO': [F('x')],
    'EVAL': [F('return 1', '0'), F("return redis.call('GET','k')", '0'), F("return redis.call('SET','k','owned')", '0')],
    'EVALSHA': [F('e0e1f9fabfc9d4800c877a703b823ac0578ff8db', '0')],
    'EXEC': [F()], 'EXISTS': [F('ks')], 'EXPIRE': [F('ks', '100')], 'FLUSHALL': [F()], 'FLUSHDB': [F()], 'GET': [F('k')],
    'GETRANGE': [F('k', '0', '-1')], 'GETSET': [F('ks', 'x')], 'HDEL': [F('kh', 'f')], 'HEXISTS': [F('kh', 'f')], 'HGET': [F('kh', 'f')],
    'HGETALL': [F('kh')], 'HINCRBY': [F('kh', 'f', '1')], 'HKEYS': [F('kh')], 'HLEN': [F('kh')], 'HMGET': [F('kh', 'f')],
    'HMSET': [F('kh', 'g', '2')], 'HSCAN': [F('kh', '0')], 'HSET': [F('kh', 'g', '2')], 'HVALS': [F('kh')], 'INCR': [F('ks')],
    'INCRBY': [F('ks', '1')], 'INFO': [F(), F('server'), F('keyspace')], 'KEYS': [F('*')], 'LASTSAVE': [F()], 'LINDEX': [F('kl', '0')],
    'LLEN': [F('kl')], 'LPOP': [F('kl')], 'LPUSH': [F('kl', 'x')], 'LRANGE': [F('kl', '0', '-1')], 'LREM': [F('kl', '0', 'a')],
    'LSET': [F('kl', '0', 'x')], 'LTRIM': [F('kl', '0', '0')], 'MEMORY': [F('USAGE', 'k'), F('STATS'), F('DOCTOR')], 'MGET': [F('k', 'ks')],
    'MONITOR': [F()], 'MSET': [F('k', 'x', 'new', 'y')], 'MULTI': [F()], 'PERSIST': [F('ks')], 'PEXPIRE': [F('ks', '100000')],
    'PING': [F()], 'PSETEX': [F('ks', '100000', 'x')], 'PSUBSCRIBE': [F('*')], 'PSYNC': [F('?', '-1')], 'PTTL': [F('ks')],
    'PUBLISH': [F('k', 'm')], 'PUNSUBSCRIBE': [F()], 'QUIT': [F()], 'RANDOMKEY': [F()], 'RENAME': [F('ks', 'moved')],
    'RENAMENX': [F('ks', 'moved')], 'REPLCONF': [F('listening-port', '1'), F('GETACK', '*')], 'REPLICAOF': [F('NO', 'ONE'), F('127.0.0.1', '1')],
    'RPOP': [F('kl')], 'RPUSH': [F('kl', 'x')], 'SADD': [F('kS', 'x')], 'SAVE': [F()], 'SCAN': [F('0')], 'SCARD': [F('kS')],
    'SCRIPT': [F('LOAD', 'return 1'), F('EXISTS', 'e0e1f9fabfc9d4800c877a703b823ac0578ff8db'), F('FLUSH')],
    'SDIFF': [F('kS')], 'SELECT': [F('1')], 'SET': [F('k', 'owned')], 'SETEX': [F('ks', '100', 'x')], 'SETNX': [F('new', 'x')],
    'SETRANGE': [F('ks', '0', 'x')], 'SINTER': [F('kS')], 'SISMEMBER': [F('kS', 'a')], 'SLAVEOF': [F('NO', 'ONE')],
    'SLEEP': [F('1')], 'SLOWLOG': [F('GET'), F('LEN'), F('RESET')], 'SMEMBERS': [F('kS')], 'SPOP': [F('kS')], 'SRANDMEMBER': [F('kS')],
    'SREM': [F('kS', 'a')], 'SSCAN': [F('kS', '0')], 'STRLEN': [F('k')], 'SUBSCRIBE': [F('k')], 'SUNION': [F('kS')], 'SYNC': [F()],
    'TTL': [F('ks')], 'TYPE': [F('k')], 'UNSUBSCRIBE': [F()], 'UNWATCH': [F()], 'WATCH': [F('k')],
    'XACK': [F('kx', 'g', '1-1')], 'XADD': [F('kx', '*', 'f', 'v')], 'XCLAIM': [F('kx', 'g', 'c2', '0', '1-1')], 'XDEL': [F('kx', '1-1')],
    'XGROUP': [F('CREATE', 'kx', 'g2', '$'), F('DESTROY', 'kx', 'g'), F('DELCONSUMER', 'kx', 'g', 'c'), F('SETID', 'kx', 'g', '$')],
    'XINFO': [F('STREAM', 'kx'), F('GROUPS', 'kx'), F('CONSUMERS', 'kx', 'g')], 'XLEN': [F('kx')], 'XPENDING': [F('kx', 'g'), F('kx', 'g', '-', '+', '10')],
    'XRANGE': [F('kx', '-', '+')], 'XREAD': [F('STREAMS', 'kx', '0-0')], 'XREADGROUP': [F('GROUP', 'g', 'c2', 'STREAMS', 'kx', '0-0')],
    'XREVRANGE': [F('kx', '+', '-')], 'XTRIM': [F('kx', 'MAXLEN', '0')], 'ZADD': [F('kz', '3', 'c')], 'ZCARD': [F('kz')],
    'ZCOUNT': [F('kz', '-inf', '+inf')], 'ZINCRBY': [F('kz', '1', 'a')], 'ZPOPMAX': [F('kz')], 'ZPOPMIN': [F('kz')], 'ZRANGE': [F('kz', '0', '-1')],
    'ZRANGEBYSCORE': [F('kz', '-inf', '+inf')], 'ZRANK': [F('kz', 'a')], 'ZREM': [F('kz', 'a')], 'ZREVRANGE': [F('kz', '0', '-1')],
    'ZREVRANGEBYSCORE': [F('kz', '+inf', '-inf')], 'ZREVRANK': [F('kz', 'a')], 'ZSCAN': [F('kz', '0')], 'ZSCORE': [F('kz', 'a')],
}
# not sent by calibrate(): they end the process, turn the connection into a replication link or redirect the server
# (EXEC / DISCARD need a MULTI, which is itself refused; BGREWRITEAOF is refused while appendonly is off)
NO_CALIBRATION = {'SHUTDOWN', 'SYNC', 'PSYNC', 'REPLICAOF', 'SLAVEOF', 'REPLCONF', 'AUTH', 'EVALSHA', 'EXEC', 'DISCARD',
                  'BGREWRITEAOF'}


def calibrate(srv, names):
    """Which names are served (some form answered without an error) to an AUTHENTICATED connection holding the SETUP
    dataset: the guard against a vacuous probe.  Returns the names for which no form was served."""
    unserved = []
    for name in names:
        if name in NO_CALIBRATION:
            continue
        served = False
        for form in FORMS.get(name, []):
            cl = Client(srv.port, timeout=2.0)
            try:
                cl.call([b'AUTH', PW], 2.0)
                cl.call([b'FLUSHALL'], 2.0)
                for a in SETUP:
                    cl.call(a, 2.0)
                r = cl.call([name.encode()] + form, 1.0)
                if r[0] not in ('err', 'none', 'closed', 'garbage') or (name in ('BLPOP', 'BRPOP', 'MONITOR', 'QUIT') and r[0] != 'err'):
                    served = True
            finally:
                cl.close()
            if served:
                break
        if not served:
            unserved.append(name)
    return unserved


def probe(ctx, srv, tr, cid, name, state, position):
    """One unauthenticated connection sends `name`; returns nothing, emits events."""
    s = Session(srv, tr)
    s.next_id = cid
    c = s.open()
    if state == 'failed_auth':
        s.cmd(c, [b'AUTH', b'wrong'])
    reqs = []
    if position == 'second':
        reqs.append([b'GET', b'k'])
    for nargs in (1, 2):
        reqs.append([name.encode()] + ARGS[nargs])
    for form in FORMS.get(name, [[]] if name in UNKNOWN else []):
        reqs.append([name.encode()] + form)
    if name not in ('QUIT', 'SHUTDOWN'):
        reqs.append([b'GET', b'k'])      # canary: whatever the probed command did, the connection is still unauthenticated
    cl = s.clients[c]
    t0 = tr.now()
    cl.send_raw(b''.join(resp.enc_cmd(a) for a in reqs))
    frames = []
    while True:
        r = cl.recv(0.5 if len(frames) < len(reqs) else 0.03)
        if r[0] in ('none', 'closed'):
            closed = r[0] == 'closed'
            break
        frames.append(r)
        if r[0] == 'garbage':
            closed = False
            break
    t1 = tr.now() + 1
    for i, a in enumerate(reqs):
        rj = resp.to_json(frames[i]) if i < len(frames) else ({'t': 'closed'} if closed else {'t': 'none'})
        tr.emit({'k': 'cmd', 'c': c, 'argv': [list(x) for x in a], 'r': rj, 't0': t0, 't1': t1})
    if len(frames) > len(reqs):
        tr.emit({'k': 'extra', 'c': c, 'rs': [resp.to_json(f) for f in frames[len(reqs):]][:5]})
    if closed:
        tr.emit({'k': 'dropped', 'c': c})
        cl.close()
        del s.clients[c]
    else:
        s.close(c)


def kill_race(ctx, srv, tr, s, rounds):
    """Connection state dimension: an unauthenticated connection that an authenticated client kills (CLIENT KILL ID) while
    it has requests in flight.  The event loop is held at its top (hook H2 gate) until both the kill and the victim's
    pipeline sit in the socket buffers, then released, so that both are handled in ONE pass — with the killer visited
    before and after the victim.  Whatever the victim is answered must be an error (or nothing: the connection is gone)."""
    cases = 0
    a1 = s.open()
    s.cmd(a1, [b'AUTH', PW])
    pipeline = [[b'SET', b'k', b'owned'], [b'GET', b'k'], [b'RPUSH', b'kl', b'owned'], [b'EVAL', b"return redis.call('SET','ks','owned')", b'0'],
                [b'SUBSCRIBE', b'k'], [b'FLUSHALL']]
    for i in range(rounds):
        if not srv.alive():
            break
        v = s.open()                     # the victim: never authenticates
        a2 = s.open()
        s.cmd(a2, [b'AUTH', PW])
        killer = a1 if i % 2 == 0 else a2
        vport = s.clients[v].s.getsockname()[1]
        r = s.clients[killer].call([b'CLIENT', b'LIST'])
        vid = None
        if r[0] == 'bulk':
            for line in r[1].split(b'\n'):
                m = re.match(rb'id=(\d+) addr=\S*:(\d+) ', line)
                if m and int(m.group(2)) == vport:
                    vid = m.group(1)
        if vid is None:
            tr.emit({'k': 'note', 'text': 'kill-race: victim not found in CLIENT LIST'})
            s.close(v); s.close(a2)
            continue
        srv.ctl.cmd('GATE on')
        try:
            t0 = tr.now()
            reqs = pipeline[i % 3:] + pipeline[:i % 3]
            s.clients[v].send_raw(b''.join(resp.enc_cmd(a) for a in reqs))
            s.clients[killer].send([b'CLIENT', b'KILL', b'ID', vid])
            srv.ctl.cmd('STEP 1')
        finally:
            srv.ctl.cmd('GATE off')
        kr = s.clients[killer].recv(2.0)
        frames = []
        closed = False
        while len(frames) < len(reqs) + 2:
            f = s.clients[v].recv(0.3)
            if f[0] in ('none', 'closed', 'garbage'):
                closed = f[0] == 'closed'
                break
            frames.append(f)
        t1 = tr.now() + 1
        tr.emit({'k': 'cmd', 'c': killer, 'argv': [list(x) for x in [b'CLIENT', b'KILL', b'ID', vid]], 'r': resp.to_json(kr), 't0': t0, 't1': t1})
        for j, f in enumerate(frames[:len(reqs)]):
            tr.emit({'k': 'cmd', 'c': v, 'argv': [list(x) for x in reqs[j]], 'r': resp.to_json(f), 't0': t0, 't1': t1})
        if len(frames) > len(reqs):
            tr.emit({'k': 'extra', 'c': v, 'rs': [resp.to_json(f) for f in frames[len(reqs):]][:5]})
        s.clients[v].close()
        del s.clients[v]
        tr.emit({'k': 'dropped', 'c': v})
        # what the authenticated side sees afterwards
        s.cmd(a2, [b'GET', b'k'])
        s.cmd(a2, [b'GET', b'ks'])
        s.cmd(a2, [b'LRANGE', b'kl', b'0', b'-1'])
        s.cmd(a2, [b'PUBLISH', b'k', b'x'])
        s.close(a2)
        cases += 1
    s.close(a1)
    return cases


def control_view(ctx, srv, s, admin):
    """What an authenticated connection sees: dataset, subscriptions (via PUBLISH counts), replicas."""
    workloads.dump_db(s, admin)
    for ch in (b'k', b'v', b'0'):
        s.cmd(admin, [b'PUBLISH', ch, b'x'])
    r = s.clients[admin].call([b'INFO', b'replication'])
    n = -1
    if r[0] == 'bulk':
        m = re.search(rb'connected_slaves:(\d+)', r[1])
        n = int(m.group(1)) if m else -1
    s.trace.emit({'k': 'chk', 'name': 'no_replicas', 'ok': 1 if n == 0 else 0, 'detail': 'connected_slaves=%d' % n})


def run(ctx):
    # a name the server dispatches but the specification's table does not know (a newly added command) is probed all the
    # same: to the specification it is an unknown command, which an unauthenticated connection must be refused like any other
    missing = dispatched_names() - spec_names()
    UNKNOWN.clear()
    UNKNOWN.update(missing)
    if missing:
        ctx.note('dispatched by server.rs but not in the spec table (probed as unknown commands): %s' % sorted(missing))
    ctx.extra_cov['names_outside_spec_table'] = sorted(missing)
    ctx.model_check('MC_Txn', 'MC_C17', workers=8, timeout=1200)
    paths = gen.generate_paths(ctx, 'MC_Txn', 'MC_C17_gen', conn_paths=True, limit=1500 if ctx.quick else 20000)
    ctx.extra_cov['generated_paths'] = len(paths)
    srv = ctx.new_server(password=PW.decode())
    tr0 = ctx.new_trace('gen')
    tr0.emit({'k': 'config', 'pass': list(PW)})
    tr0.close()
    workloads.replay_conn_paths(ctx, srv, paths, label='gen', password=PW, header=[{'k': 'config', 'pass': list(PW)}])
    # every dispatched command, unauthenticated
    names = sorted(dispatched_names() - {'SHUTDOWN'})
    ctx.extra_cov['dispatched_commands'] = len(names)
    tr = ctx.new_trace('names')
    tr.emit({'k': 'config', 'pass': list(PW)})
    s = Session(srv, tr)
    admin = s.open()
    s.cmd(admin, [b'AUTH', PW])
    unserved = [n for n in calibrate(srv, names) if n not in UNKNOWN]
    if unserved:
        raise runner.ToolError('no well-formed invocation in FORMS is served to an authenticated connection for: %s '
                               '(the unauthenticated probe of these names would be vacuous)' % unserved)
    s.cmd(admin, [b'FLUSHALL'])
    s.cmd(admin, [b'SCRIPT', b'FLUSH'])
    s.cmd(admin, [b'CONFIG', b'SET', b'slowlog-max-len', b'128'])
    for a in SETUP:
        s.cmd(admin, a)
    cid = 100
    cases = 0
    states = ['fresh', 'failed_auth'] if ctx.quick else ['fresh', 'failed_auth', 'fresh']
    for name in names:
        for state in states:
            for position in (['first'] if ctx.quick else ['first', 'second']):
                cid += 1
                probe(ctx, srv, tr, cid, name, state, position)
                cases += 1
                if not srv.alive():
                    tr.emit({'k': 'crash', 'status': srv.exit_status()})
                    break
        if not srv.alive():
            break
    if srv.alive():
        control_view(ctx, srv, s, admin)
    if srv.alive():
        nk = kill_race(ctx, srv, tr, s, 12 if ctx.quick else 96)
        ctx.extra_cov['kill_races'] = nk
        cases += nk
        control_view(ctx, srv, s, admin)
    # wrong passwords
    wrongs = [b'p', b'pw ', b'PW', b'Pw', b'', b'pw\x00', b'\xffpw', b'pwpw', b'wp']
    for w in wrongs:
        if not srv.alive():
            break
        c = s.open()
        s.cmd(c, [b'AUTH', w])
        s.cmd(c, [b'GET', b'k'])
        s.cmd(c, [b'AUTH', PW])
        s.cmd(c, [b'GET', b'k'])
        s.close(c)
        cases += 1
    s.close_all()
    ctx.validate(tr, label='names')
    cases += configured_passwords(ctx)
    ctx.extra_cov['distinct_cases'] = len(paths) + cases


CONF_PASSWORDS = [b'tr0ub4dor #3 horse', b'a#b', b'#lead', b'two  spaces', b'semi;colon x', b'eq=sign y', b'back\\slash n', b'in"quote"s', b"in'quote's",
                  b'dollar$HOME x', b'tab\there', b'caf\xc3\xa9 au lait', b'x' * 200, b'pw', b'UPPER lower']


def configured_passwords(ctx):
    """The password reaches the server the way a deployment sets it: through a configuration file read by ferrous' own parser.
    Passwords with characters that configuration syntaxes tend to treat specially (space, #, quotes, =, ;, $, backslash, tab,
    non-ASCII, long); the configured password is the rest of the requirepass line.  Every truncation at such a character, the
    password with one byte less / more and in another case must be refused — and leave the connection unauthenticated —, the
    exact bytes accepted."""
    special = b' #"\'=;$\\\t'
    n = 0
    pool = CONF_PASSWORDS if not ctx.quick else CONF_PASSWORDS[:3] + [CONF_PASSWORDS[3 + (ctx.seed + i) % (len(CONF_PASSWORDS) - 3)] for i in range(4)]
    for i, pw in enumerate(pool):
        srv = ctx.new_server(name='conf', conf=b'# generated\nrequirepass ' + pw + b'\ndatabases 16\n')
        tr = ctx.new_trace('confpw%d' % i)
        tr.emit({'k': 'config', 'pass': list(pw)})
        s = Session(srv, tr)
        wrongs = {pw[:j] for j in range(1, len(pw)) if pw[j] in special or pw[j - 1] in special}
        wrongs |= {pw[:-1], pw + b'x', pw + b' ', pw.upper(), pw.lower(), pw.split(b' ')[0], pw.replace(b' ', b''), b''}
        wrongs.discard(pw)
        try:
            for w in sorted(wrongs):
                c = s.open()
                s.cmd(c, [b'AUTH', w])
                s.cmd(c, [b'GET', b'k'])
                s.close(c)
                n += 1
            c = s.open()
            s.cmd(c, [b'GET', b'k'])
            s.cmd(c, [b'AUTH', pw])
            s.cmd(c, [b'SET', b'k', b'v'])
            s.cmd(c, [b'GET', b'k'])
            n += 1
        except ServerDied:
            tr.emit({'k': 'crash', 'status': srv.exit_status()})
        s.close_all()
        ctx.validate(tr, label='confpw%d' % i)
        srv.kill()
    ctx.extra_cov['configured_passwords'] = len(pool)
    return n


def replay(ctx, path):
    workloads.replay_file(ctx, path)
