"""C18 — numbered databases are fully isolated from one another."""
import workloads
import gen
import forms
import formspaths
from session import Session, ServerDied

LEVEL = 'model_checking'
RULE = ('TLC checks C18_Frame (a step touches only the database selected on that connection, FLUSHALL excepted) and '
        'C18_SelectRange over all interleavings of 2 connections selecting databases and running commands directly and '
        'inside transactions (MC_Txn/MC_C18); its transitions are replayed; seeded random histories run every command '
        'family on equal key names in several databases through direct commands, MULTI/EXEC (with SELECT inside), scripts '
        '(EVAL/EVALSHA) and blocking pops, and end with a dump of all 16 databases; the forms catalogue (lib/forms.py) runs in a '
        'non-zero database while another database holds the same key names with other values, through direct dispatch, '
        'MULTI/EXEC, EVAL and SCRIPT LOAD + EVALSHA, each form followed by a dump of both databases; all validated by TLC.')
ASSUMPTIONS = ['the 16-way model is the dbs component of the spec state']


def run(ctx):
    ctx.model_check('MC_Txn', 'MC_C18', workers=12, timeout=1500)
    paths = gen.generate_paths(ctx, 'MC_Txn', 'MC_C18_gen', conn_paths=True, limit=2000 if ctx.quick else 30000)
    ctx.extra_cov['generated_paths'] = len(paths)
    srv = ctx.new_server()
    workloads.replay_conn_paths(ctx, srv, paths, label='gen', dump_dbs=(0, 1))
    n_hist = 4 if ctx.quick else 40
    for i in range(n_hist):
        workloads.random_history(ctx, srv, workloads.MultiDbGen(ctx.rnd), n=1200 if ctx.quick else 4000,
                                 label='dbs%d' % i, dbs=tuple(range(16)))
    # blocking pops: waiters on the same key name in several databases, pushes to all of them handled in one pass of the event loop
    import props.c13 as c13
    for name, steps in c13.crossdb_schedules():
        trb = ctx.new_trace('blk-' + name)
        c13.run_schedule(ctx, srv, name, steps, trb)
        ctx.validate(trb, label='blk-' + name)
        if not srv.alive():
            srv.restart()
    # the forms catalogue in a non-zero database while another database holds the same key names, through every path
    tr = ctx.new_trace('forms')
    s = Session(srv, tr)
    n = 0
    PATHS = ['direct', 'multi', 'script-lit', 'script-sha']
    try:
        if ctx.quick:
            # commands that address a whole database (or all of them) go through every path, the others through one
            whole = [a for a in forms.FORMS if a[0].upper() in (b'FLUSHALL', b'FLUSHDB', b'KEYS', b'DBSIZE', b'SCAN', b'RANDOMKEY',
                                                               b'RENAME', b'RENAMENX', b'DEL', b'EXISTS', b'MSET', b'MGET')]
            rest = [a for a in forms.FORMS if a not in whole]
            for i, path in enumerate(PATHS):
                db, odb = (1, 3, 15, 2)[i], (0, 2, 0, 1)[i]
                n += formspaths.run_forms(s, path, db, odb, subset=whole + rest[i::4])
        else:
            for path in PATHS:
                for db, odb in ((1, 0), (15, 2), (0, 3)):
                    n += formspaths.run_forms(s, path, db, odb)
    except ServerDied:
        tr.emit({'k': 'crash', 'status': srv.exit_status()})
    s.close_all()
    ctx.validate_segments(tr, 'forms')
    ctx.extra_cov['form_segments'] = n
    ctx.extra_cov['distinct_cases'] = len(paths) + n_hist + n


def replay(ctx, path):
    workloads.replay_file(ctx, path)
