"""C18 — numbered databases are fully isolated from one another."""
import workloads
import gen
import forms
import formspaths
from session import Session, ServerDied

LEVEL = 'model_checking'
RULE = ('TLC checks C18_Frame (a step touches only the database selected on that connection, FLUSHALL excepted) and '
        'C18_SelectRange over all interleavings of 2 connections selecting databases and running commands directly and '
        'inside transactions (MC_Txn/MC_C18); its transitions are replayed; seeded random histories run every command '
        'family on equal key names in several databases through direct commands, MULTI/EXEC (with SELECT inside), scripts '
        '(EVAL/EVALSHA) and blocking pops, and end with a dump of all 16 databases; the forms catalogue (lib/forms.py) runs in a '
        'non-zero database while another database holds the same key names with other values, through direct dispatch, '
        'MULTI/EXEC, EVAL and SCRIPT LOAD + EVALSHA, each form followed by a dump of both databases; all validated by TLC.')
ASSUMPTIONS = ['the 16-way model is the dbs component of the spec state']


def run(ctx):
    ctx.model_check('MC_Txn', 'MC_C18', workers=12, timeout=1500)
    paths = gen.generate_paths(ctx, 'MC_Txn', 'MC_C18_gen', conn_paths=True, limit=2000 if ctx.quick else 30000)
    ctx.extra_cov['generated_paths'] = len(paths)
    srv = ctx.new_server()
    workloads.replay_conn_paths(ctx, srv, paths, label='gen', dump_dbs=(0, 1))
    n_hist = 4 if ctx.quick else 40
    for i in range(n_hist):
        workloads.random_history(ctx, srv, workloads.MultiDbGen(ctx.rnd), n=1200 if ctx.quick else 4000,
                                 label='dbs%d' % i, dbs=tuple(range(16)))
    # blocking pops: waiters on the same key name in several databases, pushes to all of them handled in one pass of the event loop
    import props.c13 as c13
    for name, steps in c13.crossdb_schedules():
        trb = ctx.new_trace('blk-' + name)
        c13.run_schedule(ctx, srv, name, steps, trb)
        ctx.validate(trb, label='blk-' + name)
        if not srv.alive():
            srv.restart()
    # the selected database inside ONE write: SELECT outside and inside MULTI / EXEC / DISCARD with commands behind it in the same batch
    # (whatever a batch caches about its connection must follow), whole and cut in two; the server-side log gives what was executed
    import props.c05 as c05
    trp = ctx.new_trace('pipes')
    s0 = Session(srv, trp)
    c0 = s0.open(); s0.cmd(c0, [b'FLUSHALL']); s0.close(c0)
    B = lambda *a: [x if isinstance(x, bytes) else str(x).encode() for x in a]
    batches = [
        [B('MULTI'), B('SELECT', 4), B('SET', 'inside', 'four'), B('EXEC'), B('SET', 'after', 'four'), B('GET', 'inside'), B('DBSIZE')],
        [B('SELECT', 2), B('SET', 'a', 'two'), B('SELECT', 3), B('SET', 'a', 'three'), B('MULTI'), B('SELECT', 2), B('APPEND', 'a', '!'), B('EXEC'), B('GET', 'a'), B('SELECT', 3), B('GET', 'a')],
        [B('SELECT', 6), B('MULTI'), B('SELECT', 7), B('SET', 'x', 'seven'), B('DISCARD'), B('SET', 'x', 'six'), B('DBSIZE')],
        [B('MULTI'), B('SELECT', 99), B('SET', 'y', 'zero'), B('SELECT', 5), B('SET', 'y', 'five'), B('EXEC'), B('RPUSH', 'l', 'five'), B('SELECT', 0), B('EXISTS', 'y', 'l')],
        [B('SELECT', 8), B('LPUSH', 'e', 'eight'), B('MULTI'), B('SELECT', 9), B('LPUSH', 'e', 'nine'), B('FLUSHDB'), B('SELECT', 8), B('EXEC'), B('LRANGE', 'e', 0, -1), B('DBSIZE')],
        [B('SELECT', 1), B('WATCH', 'w'), B('MULTI'), B('SELECT', 2), B('SET', 'w', 'two'), B('EXEC'), B('GET', 'w'), B('SELECT', 1), B('GET', 'w')],
    ]
    cid = 500
    for reqs in batches:
        data_len = sum(len(__import__('resp').enc_cmd(a)) for a in reqs)
        for cuts in ([], [data_len // 2], [data_len - 9]):
            cid += 1
            c05.run_pipeline(ctx, srv, trp, cid, reqs, cuts)
    sd = Session(srv, trp)
    sd.next_id = 900
    try:
        c = sd.open()
        for d in range(10):
            sd.cmd(c, B('SELECT', d))
            workloads.dump_db(sd, c)
        sd.close(c)
    except ServerDied:
        pass
    ctx.validate(trp, label='select-in-batches')
    if not srv.alive():
        srv.restart()
    # scripts that try to change the selection (a connection command): refused, or valid until the script ends — whichever way the
    # script ends (normally, in an error raised behind the SELECT, behind a failing pcall), the scripts and commands that follow on
    # the same and on another connection, directly, by digest and inside EXEC, act on the database selected on THEIR connection
    import luadsl as L
    trs = ctx.new_trace('script-select')
    ss = Session(srv, trs)
    nsel = 0
    lit = lambda *a: [L.arg_lit(x if isinstance(x, bytes) else str(x).encode()) for x in a]
    try:
        for ending in ('normal', 'raise', 'pcall-fails', 'returns-select'):
            for pc in (False, True):
                for cid in list(ss.clients):
                    ss.close(cid)
                trs.emit({'k': 'reset'})
                ss.note('script-select/%s/%s' % (ending, 'pcall' if pc else 'call'))
                a, b = ss.open(), ss.open()
                ss.cmd(a, B('FLUSHALL'))
                ss.cmd(a, B('SET', 'str', 'text'))
                ss.cmd(b, B('SELECT', 2))
                prog = [L.call(lit('SELECT', 5), pcall=pc), L.call(lit('SET', 'in-script', 'x'))]
                if ending == 'raise':
                    prog.append(L.call(lit('INCR', 'in-script')))
                elif ending == 'pcall-fails':
                    prog += [L.call(lit('LPUSH', 'in-script', 'y'), pcall=True), L.call(lit('SET', 'behind', 'z'), ret=1)]
                elif ending == 'returns-select':
                    prog.append(L.call(lit('SELECT', 7), ret=1, pcall=pc))
                else:
                    prog.append(L.call(lit('DBSIZE'), ret=1))
                formspaths.eval_prog(ss, a, prog, [], [])
                nxt = [L.call(lit('SET', 'next', 'n')), L.call(lit('DBSIZE'), ret=1)]
                formspaths.eval_prog(ss, a, nxt, [], [])
                formspaths.eval_prog(ss, b, nxt, [], [], bysha=True)
                ss.cmd(a, B('SET', 'direct', 'd'))
                ss.cmd(a, B('MULTI'))
                formspaths.eval_prog(ss, a, [L.call(lit('RPUSH', 'queued', 'q'), ret=1)], [], [])
                ss.cmd(a, B('EXEC'))
                for d in (0, 2, 5, 7):
                    ss.cmd(a, B('SELECT', d))
                    workloads.dump_db(ss, a)
                nsel += 1
    except ServerDied:
        trs.emit({'k': 'crash', 'status': srv.exit_status()})
    ss.close_all()
    ctx.validate_segments(trs, 'script-select')
    ctx.extra_cov['script_select_stories'] = nsel
    if not srv.alive():
        srv.restart()
    # the forms catalogue in a non-zero database while another database holds the same key names, through every path
    tr = ctx.new_trace('forms')
    s = Session(srv, tr)
    n = 0
    PATHS = ['direct', 'multi', 'script-lit', 'script-sha']
    try:
        if ctx.quick:
            # commands that address a whole database (or all of them) go through every path, the others through one
            whole = [a for a in forms.FORMS if a[0].upper() in (b'FLUSHALL', b'FLUSHDB', b'KEYS', b'DBSIZE', b'SCAN', b'RANDOMKEY',
                                                               b'RENAME', b'RENAMENX', b'DEL', b'EXISTS', b'MSET', b'MGET')]
            rest = [a for a in forms.FORMS if a not in whole]
            for i, path in enumerate(PATHS):
                db, odb = (1, 3, 15, 2)[i], (0, 2, 0, 1)[i]
                n += formspaths.run_forms(s, path, db, odb, subset=whole + rest[i::4])
        else:
            for path in PATHS:
                for db, odb in ((1, 0), (15, 2), (0, 3)):
                    n += formspaths.run_forms(s, path, db, odb)
    except ServerDied:
        tr.emit({'k': 'crash', 'status': srv.exit_status()})
    s.close_all()
    ctx.validate_segments(tr, 'forms')
    ctx.extra_cov['form_segments'] = n
    ctx.extra_cov['distinct_cases'] = len(paths) + n_hist + n


def replay(ctx, path):
    workloads.replay_file(ctx, path)
