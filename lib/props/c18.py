"""C18 — numbered databases are fully isolated from one another."""
import workloads
import gen

LEVEL = 'model_checking'
RULE = ('TLC checks C18_Frame (a step touches only the database selected on that connection, FLUSHALL excepted) and '
        'C18_SelectRange over all interleavings of 2 connections selecting databases and running commands directly and '
        'inside transactions (MC_Txn/MC_C18); its transitions are replayed; seeded random histories run every command '
        'family on equal key names in several databases through direct commands, MULTI/EXEC (with SELECT inside), scripts '
        '(EVAL/EVALSHA) and blocking pops, and end with a dump of all 16 databases; all validated by TLC.')
ASSUMPTIONS = ['the 16-way model is the dbs component of the spec state']


def run(ctx):
    ctx.model_check('MC_Txn', 'MC_C18', workers=12, timeout=1500)
    paths = gen.generate_paths(ctx, 'MC_Txn', 'MC_C18_gen', conn_paths=True, limit=2000 if ctx.quick else 30000)
    ctx.extra_cov['generated_paths'] = len(paths)
    srv = ctx.new_server()
    workloads.replay_conn_paths(ctx, srv, paths, label='gen', dump_dbs=(0, 1))
    n_hist = 4 if ctx.quick else 40
    for i in range(n_hist):
        workloads.random_history(ctx, srv, workloads.MultiDbGen(ctx.rnd), n=1200 if ctx.quick else 4000,
                                 label='dbs%d' % i, dbs=tuple(range(16)))
    ctx.extra_cov['distinct_cases'] = len(paths) + n_hist


def replay(ctx, path):
    workloads.replay_file(ctx, path)
