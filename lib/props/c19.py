"""C19 — a full SCAN iteration returns every element present throughout it."""
import workloads
from session import ServerDied

LEVEL = 'model_checking'
RULE = ('TLC checks the iteration guarantee on the implementation-shaped cursor model spec/impl/ImplScan.tla (cursor = '
        'position in hash order, repaired design; the pinned index-into-sorted-list design is kept as a switch and yields the '
        'skip schedule), and Apalache discharges an inductive invariant of the repaired mechanism (spec/impl/ImplScanInd.tla: every element present throughout and in front of the cursor has been returned) for any number of '
        'additions and deletions between calls and any COUNT, with the index cursor as a control that must fail; on the real server full cursor iterations of SCAN/HSCAN/SSCAN/ZSCAN with every COUNT from 1, MATCH '
        'globs and TYPE run while other elements are added and deleted between calls (TLC-found skip schedules first, then '
        'seeded random ones, then large collections in which MATCH selects a handful of elements so that many calls in a row '
        'return nothing, then MATCH over the glob matrix — every pattern over {a,b,*,?} up to length 3/4 plus classes, escapes and overlapping false starts against every subject over {a,b} up to length 4/5); the trace spec keeps per iteration the sets stable/ever/returned and requires, when the cursor '
        'returns to 0, returned >= stable, returned <= ever, and termination when nothing grows. Distinct = distinct iteration.')
ASSUMPTIONS = ['one open iteration per (connection, db, command, key); a cursor the spec did not hand out is Unspecified']


def B(*a):
    return [x if isinstance(x, bytes) else str(x).encode() for x in a]


def iterate(s, c, cmd, key, count, rnd, mutate, match=None, typ=None, max_calls=400):
    cur = b'0'
    calls = 0
    while True:
        a = [cmd] + ([key] if key is not None else []) + [cur]
        if match is not None:
            a += [b'MATCH', match]
        if count is not None:
            a += [b'COUNT', str(count).encode()]
        if typ is not None:
            a += [b'TYPE', typ]
        r = s.cmd(c, a)
        calls += 1
        if r[0] != 'arr' or len(r[1]) != 2 or r[1][0][0] != 'bulk':
            return calls
        cur = r[1][0][1]
        if cur == b'0' or calls >= max_calls:
            return calls
        mutate()


def run_iterations(ctx, srv, n_iter, label):
    rnd = ctx.rnd
    s = workloads.fresh_session(ctx, srv, label)
    done = 0
    try:
        c = s.open()
        m = s.open()
        for it in range(n_iter):
            s.cmd(c, [b'FLUSHALL'])
            kind = rnd.choice(['SCAN', 'SCAN', 'HSCAN', 'SSCAN', 'ZSCAN'])
            n = rnd.choice([1, 3, 7, 12, 25])
            names = [b'e%02d' % i for i in range(n)] + [b'x' + bytes([200 + i]) for i in range(min(n, 3))]
            extra = [b'n%02d' % i for i in range(40)]
            key = None
            if kind == 'SCAN':
                for e in names:
                    s.cmd(m, rnd.choice([B('SET', e, 'v'), B('RPUSH', e, 'a'), B('SADD', e, 'a')]))
            elif kind == 'HSCAN':
                key = b'H'
                s.cmd(m, [b'HSET', key] + [x for e in names for x in (e, b'v')])
            elif kind == 'SSCAN':
                key = b'S'
                s.cmd(m, [b'SADD', key] + names)
            else:
                key = b'Z'
                s.cmd(m, [b'ZADD', key] + [x for i, e in enumerate(names) for x in (str(i % 5).encode(), e)])
            pool = list(names)

            def mutate():
                k = rnd.randrange(6)
                if k < 2 and pool:
                    e = pool.pop(rnd.randrange(len(pool)))
                    if kind == 'SCAN': s.cmd(m, B('DEL', e))
                    elif kind == 'HSCAN': s.cmd(m, [b'HDEL', key, e])
                    elif kind == 'SSCAN': s.cmd(m, [b'SREM', key, e])
                    else: s.cmd(m, [b'ZREM', key, e])
                elif k < 4 and extra:
                    e = extra.pop()
                    pool.append(e)
                    if kind == 'SCAN': s.cmd(m, B('SET', e, 'v'))
                    elif kind == 'HSCAN': s.cmd(m, [b'HSET', key, e, b'w'])
                    elif kind == 'SSCAN': s.cmd(m, [b'SADD', key, e])
                    else: s.cmd(m, [b'ZADD', key, b'9', e])

            count = rnd.choice([None, 1, 1, 2, 3, 5, 10, 100])
            match = rnd.choice([None, None, b'e*', b'*1', b'e?[0-4]', b'n*'])
            typ = rnd.choice([None, None, b'string', b'list']) if kind == 'SCAN' else None
            iterate(s, c, kind.encode(), key, count, rnd, mutate, match, typ)
            done += 1
    except ServerDied:
        pass
    s.close_all()
    ctx.validate(s.trace, label=label)
    if not srv.alive():
        srv.restart()
    return done


def sparse_iterations(ctx, srv, sizes, counts):
    """A large collection in which MATCH selects a handful of elements: many calls in a row find nothing (an empty or
    short page is not the end of the iteration), with and without additions / deletions of non-matching elements."""
    rnd = ctx.rnd
    s = workloads.fresh_session(ctx, srv, 'sparse')
    done = 0
    try:
        c = s.open()
        m = s.open()
        for kind in ('SCAN', 'HSCAN', 'SSCAN', 'ZSCAN'):
            for n in sizes:
                for count in counts:
                    s.cmd(c, [b'FLUSHALL'])
                    bulk = [b'bulk:%03d' % i for i in range(n)]
                    rare = [b'rare:%d' % i for i in range(5)]
                    names = bulk + rare
                    rnd.shuffle(names)
                    key = None
                    if kind == 'SCAN':
                        for i in range(0, len(names), 40):
                            s.cmd(m, [b'MSET'] + [x for e in names[i:i + 40] for x in (e, b'v')])
                    elif kind == 'HSCAN':
                        key = b'H'
                        s.cmd(m, [b'HSET', key] + [x for e in names for x in (e, b'v')])
                    elif kind == 'SSCAN':
                        key = b'S'
                        s.cmd(m, [b'SADD', key] + names)
                    else:
                        key = b'Z'
                        s.cmd(m, [b'ZADD', key] + [x for i, e in enumerate(names) for x in (str(i % 7).encode(), e)])
                    pool = list(bulk)
                    fresh = [b'bulk:n%02d' % i for i in range(30)]

                    def mutate():
                        k = rnd.randrange(8)
                        if k == 0 and pool:
                            e = pool.pop(rnd.randrange(len(pool)))
                            if kind == 'SCAN': s.cmd(m, B('DEL', e))
                            elif kind == 'HSCAN': s.cmd(m, [b'HDEL', key, e])
                            elif kind == 'SSCAN': s.cmd(m, [b'SREM', key, e])
                            else: s.cmd(m, [b'ZREM', key, e])
                        elif k == 1 and fresh:
                            e = fresh.pop()
                            if kind == 'SCAN': s.cmd(m, B('SET', e, 'v'))
                            elif kind == 'HSCAN': s.cmd(m, [b'HSET', key, e, b'w'])
                            elif kind == 'SSCAN': s.cmd(m, [b'SADD', key, e])
                            else: s.cmd(m, [b'ZADD', key, b'9', e])
                    iterate(s, c, kind.encode(), key, count, rnd, mutate, b'rare:*', None, max_calls=1000)
                    done += 1
    except ServerDied:
        pass
    s.close_all()
    ctx.validate(s.trace, label='sparse')
    if not srv.alive():
        srv.restart()
    return done


def large_count_iterations(ctx, srv):
    """Key spaces and collections of more than a thousand elements iterated with COUNTs around and far above any internal page
    limit (999, 1000, 1001, 1500, 5000, 100000), with and without TYPE / MATCH *: however many elements a call returns, the
    cursor may only move past elements that were returned."""
    s = workloads.fresh_session(ctx, srv, 'largecount')
    n = 0
    size = 1300 if ctx.quick else 2600
    counts = [1000, 1001, 1200, 100000] if ctx.quick else [999, 1000, 1001, 1024, 1500, 2000, 2600, 5000, 100000]
    try:
        c = s.open()
        s.cmd(c, [b'FLUSHALL'])
        names = [b'k%05d' % i for i in range(size)]
        for i in range(0, size, 100):
            s.cmd(c, [b'MSET'] + [x for e in names[i:i + 100] for x in (e, b'v')])
        s.cmd(c, [b'RPUSH', b'alist', b'x'])
        none = lambda: None
        for count in counts:
            iterate(s, c, b'SCAN', None, count, ctx.rnd, none); n += 1
            iterate(s, c, b'SCAN', None, count, ctx.rnd, none, typ=b'string'); n += 1
            if not ctx.quick or count == 1001:
                iterate(s, c, b'SCAN', None, count, ctx.rnd, none, match=b'*'); n += 1
        s.cmd(c, [b'FLUSHALL'])
        s.cmd(c, [b'SADD', b'S'] + names)
        for count in counts:
            iterate(s, c, b'SSCAN', b'S', count, ctx.rnd, none); n += 1
        if not ctx.quick:
            s.cmd(c, [b'DEL', b'S'])
            s.cmd(c, [b'HSET', b'H'] + [x for e in names for x in (e, b'v')])
            s.cmd(c, [b'ZADD', b'Z'] + [x for i, e in enumerate(names) for x in (str(i % 5).encode(), e)])
            for count in counts:
                iterate(s, c, b'HSCAN', b'H', count, ctx.rnd, none); n += 1
                iterate(s, c, b'ZSCAN', b'Z', count, ctx.rnd, none); n += 1
        s.cmd(c, [b'FLUSHALL'])
    except ServerDied:
        pass
    s.close_all()
    ctx.validate(s.trace, label='largecount')
    if not srv.alive():
        srv.restart()
    return n


def glob_iterations(ctx, srv):
    """MATCH over the glob matrix (workloads.glob_matrix: every pattern over {a,b,*,?} up to a length, classes, escapes,
    overlapping false starts) against every subject over {a,b} up to a length, for all four commands: a full iteration
    must return exactly the matching elements."""
    pats, subs = workloads.glob_matrix(ctx.quick)
    rnd = ctx.rnd
    done = 0
    for kind in ('SCAN', 'HSCAN', 'SSCAN', 'ZSCAN'):
        s = workloads.fresh_session(ctx, srv, 'globs')
        try:
            c = s.open()
            s.cmd(c, [b'FLUSHALL'])
            key = None
            if kind == 'SCAN':
                for i in range(0, len(subs), 20):
                    s.cmd(c, [b'MSET'] + [x for e in subs[i:i + 20] for x in (e, b'v')])
            elif kind == 'HSCAN':
                key = b'H'
                s.cmd(c, [b'HSET', key] + [x for e in subs for x in (e, b'v')])
            elif kind == 'SSCAN':
                key = b'S'
                s.cmd(c, [b'SADD', key] + subs)
            else:
                key = b'Z'
                s.cmd(c, [b'ZADD', key] + [x for i, e in enumerate(subs) for x in (str(i % 3).encode(), e)])
            for i, p in enumerate(pats):
                if ctx.quick and (i + done) % 2 and len(p) <= 3 and kind != 'SCAN':
                    continue
                iterate(s, c, kind.encode(), key, rnd.choice([1000, 1000, 7, None]), rnd, lambda: None, p, None)
                done += 1
        except ServerDied:
            pass
        s.close_all()
        ctx.validate(s.trace, label='globs-' + kind)
        if not srv.alive():
            srv.restart()
    return done


def stale_ttl_iterations(ctx, srv):
    """Keys whose time to live was discarded (overwritten, PERSISTed, the collection emptied and re-created) or extended,
    scanned right after the OLD deadline and before the sweeper's next pass: they exist, they stay, a full iteration
    returns them (an index or cache of deadlines is a hint, not the truth).  Keys whose deadline really passed are absent."""
    import time
    rnd = ctx.rnd
    s = workloads.fresh_session(ctx, srv, 'stalettl')
    done = 0
    try:
        c = s.open()
        for rounds in range(2 if ctx.quick else 8):
            s.cmd(c, [b'FLUSHALL'])
            n = 12
            for i in range(n):
                s.cmd(c, [b'SET', b'str:%d' % i, b'v', b'PX', b'70'])
                s.cmd(c, [b'RPUSH', b'lst:%d' % i, b'a'])
                s.cmd(c, [b'PEXPIRE', b'lst:%d' % i, b'70'])
            for i in range(n):
                k = i % 6
                if k == 0: s.cmd(c, [b'SET', b'str:%d' % i, b'v2'])
                elif k == 1: s.cmd(c, [b'PERSIST', b'str:%d' % i])
                elif k == 2: s.cmd(c, [b'PEXPIRE', b'str:%d' % i, b'600000'])
                elif k == 3: s.cmd(c, [b'GETSET', b'str:%d' % i, b'v3'])
                elif k == 4: s.cmd(c, [b'RENAME', b'str:%d' % i, b'moved:%d' % i])
                # k == 5: left alone, really expires
                if k < 3:
                    s.cmd(c, [b'LPOP', b'lst:%d' % i])
                    s.cmd(c, [b'RPUSH', b'lst:%d' % i, b'again'])
            s.cmd(c, [b'HSET', b'H', b'f', b'v'])
            time.sleep(0.085)
            for count in (None, 1, 3, 100):
                iterate(s, c, b'SCAN', None, count, rnd, lambda: None, rnd.choice([None, b'str:*', b'*:1*']), rnd.choice([None, None, b'string']))
                done += 1
    except ServerDied:
        pass
    s.close_all()
    ctx.validate(s.trace, label='stalettl')
    if not srv.alive():
        srv.restart()
    return done


def skip_schedule(ctx, srv):
    """The schedule TLC finds on the pinned design: delete an element that sorts before the cursor."""
    s = workloads.fresh_session(ctx, srv, 'skip')
    try:
        c = s.open()
        for kind in ('SCAN', 'HSCAN', 'SSCAN', 'ZSCAN'):
            s.cmd(c, [b'FLUSHALL'])
            names = [b'k%d' % i for i in range(6)]
            if kind == 'SCAN':
                s.cmd(c, [b'MSET'] + [x for e in names for x in (e, b'v')])
                key = []
            elif kind == 'HSCAN':
                s.cmd(c, [b'HSET', b'H'] + [x for e in names for x in (e, b'v')]); key = [b'H']
            elif kind == 'SSCAN':
                s.cmd(c, [b'SADD', b'S'] + names); key = [b'S']
            else:
                s.cmd(c, [b'ZADD', b'Z'] + [x for e in names for x in (b'1', e)]); key = [b'Z']
            cur = b'0'
            first = True
            for _ in range(20):
                r = s.cmd(c, [kind.encode()] + key + [cur, b'COUNT', b'2'])
                if r[0] != 'arr':
                    break
                cur = r[1][0][1]
                if cur == b'0':
                    break
                if first:
                    first = False
                    got = [x[1] for x in r[1][1] if x[0] == 'bulk']
                    victim = got[0] if got else names[0]
                    if kind == 'SCAN': s.cmd(c, [b'DEL', victim])
                    elif kind == 'HSCAN': s.cmd(c, [b'HDEL', b'H', victim])
                    elif kind == 'SSCAN': s.cmd(c, [b'SREM', b'S', victim])
                    else: s.cmd(c, [b'ZREM', b'Z', victim])
    except ServerDied:
        pass
    s.close_all()
    ctx.validate(s.trace, label='skip-schedule')


def run(ctx):
    # an inductive invariant of the repaired cursor mechanism (any number of additions and deletions between calls, any COUNT),
    # discharged by Apalache in the background; TLC checks in ImplScan that the set formulation used there agrees with the sequence one
    apa = ctx.apalache_start('ImplScanInd', [
        ('init-implies-inv', ['--cinit=CInit', '--init=Init', '--inv=IndInv', '--length=0'], 'ok'),
        ('inv-is-inductive', ['--cinit=CInit', '--init=IndInit', '--inv=IndInv', '--length=1'], 'ok'),
        ('inv-implies-guarantee', ['--cinit=CInit', '--init=IndInit', '--inv=Guarantee', '--length=0'], 'ok'),
        ('control-index-cursor-is-not-inductive', ['--cinit=CInit', '--init=IndInit', '--next=NextPinned', '--inv=IndInv', '--length=1'], 'violated')])
    ctx.model_check('ImplScan', 'MC_Scan_fixed', workers=8, timeout=1200, subdir='impl')
    srv = ctx.new_server()
    skip_schedule(ctx, srv)
    n = 0
    for i in range(4 if ctx.quick else 30):
        n += run_iterations(ctx, srv, 12 if ctx.quick else 40, 'scan%d' % i)
    n += sparse_iterations(ctx, srv, [60] if ctx.quick else [60, 150, 400], [1, 3] if ctx.quick else [1, 2, 3, 10, 25])
    n += stale_ttl_iterations(ctx, srv)
    nl = large_count_iterations(ctx, srv)
    ctx.extra_cov['large_count_iterations'] = nl
    n += nl
    ng = glob_iterations(ctx, srv)
    ctx.extra_cov['glob_iterations'] = ng
    n += ng
    ctx.apalache_wait(apa)
    ctx.extra_cov['iterations'] = n
    ctx.extra_cov['distinct_cases'] = n + 4


def replay(ctx, path):
    workloads.replay_file(ctx, path)
