"""C20 — the RESP codec round-trips and is independent of how bytes are chunked."""
import json
import os
import re
import struct
import subprocess

import runner
import tlc
from session import Trace

LEVEL = 'model_checking'
RULE = ('spec/impl/ImplParser.tla transcribes RespParser::parse/parse_frame; TLC checks the round trip Ser -> parse on 11,823 '
        'frame trees (MC_RoundTrip) and enumerates every byte string over 17 '
        'protocol symbols up to length 5 (quick) / 6 (thorough) as one state each and checks Total, PrefixStable (an answer '
        'given for a prefix never changes when more bytes arrive), TrailNeutral and ChunkIndependent (all 2^(n-1) chunkings) '
        'on the design with the repaired raw-PING case (FixedPing=TRUE); the transcription of the code as it is '
        '(FixedPing=FALSE) is run only to extract the strings at which an answer changes, which become test inputs. '
        'The decider for the real code: `fvh codec` feeds the REAL RespParser / serialize_resp_frame in a child process with '
        'the same enumeration of strings x chunkings (whole, every single cut, byte by byte), enumerated frame trees of '
        'every RESP2/RESP3 type up to depth 3, absurd declared lengths, deep nesting and random long streams cut at random '
        'points; TLC validates the recorded events against spec/CodecTrace.tla: serializer output = RespCodec!Ser(tree), '
        'every chunking parses back to exactly the tree with nothing left, result sequences of all chunkings equal the '
        'whole feed, peak heap <= 64*received+64KiB; a crash of the child is an event without action.')
ASSUMPTIONS = ['the private read offset of RespParser is observed indirectly: a sentinel frame fed after the input must come out next',
               'doubles are compared by bit pattern; only the canonical quiet NaN is generated (RESP3 has a single nan)',
               'simple strings / errors containing CR or LF are not RESP values and are not generated',
               'thorough: the 25.5 M strings of length 5 and 6 are compared across chunkings inside the harness (mode diff); only '
               'strings whose runs differ or exceed the allocation bound become events for TLC (lengths 0-4: every string is an event)',
               'peak heap is measured by a counting global allocator around the calls into the parser (its buffer, '
               'temporaries and returned frames)']

from server import FVH
ALPHABET = b'*$+:-012\r\nPING_#t'
MAX_REJECTIONS = 40


# ------------------------------------------------------------------------------------------------
# the child process
class Codec:
    def __init__(self, ctx):
        self.ctx = ctx
        self.errpath = os.path.join(ctx.out, 'codec.stderr')
        self.p = None
        self.restarts = 0

    def start(self):
        self.errf = open(self.errpath, 'wb')
        self.p = subprocess.Popen([FVH, 'codec'], stdin=subprocess.PIPE, stdout=subprocess.PIPE, stderr=self.errf)

    def stop(self):
        if self.p:
            try:
                self.p.stdin.close()
            except Exception:
                pass
            try:
                self.p.wait(timeout=5)
            except Exception:
                self.p.kill()
            self.p = None

    def _once(self, req, until=None):
        """lines answered to req (one, or all up to the line of kind `until`); None if the child died."""
        if self.p is None or self.p.poll() is not None:
            self.start()
        try:
            self.p.stdin.write((json.dumps(req, separators=(',', ':')) + '\n').encode())
            self.p.stdin.flush()
        except (BrokenPipeError, OSError):
            return None, []
        lines = []
        while True:
            line = self.p.stdout.readline()
            if not line:
                return None, lines
            lines.append(line.decode().rstrip('\n'))
            if until is None or ('"k":"%s"' % until) in lines[-1]:
                return True, lines

    def died(self):
        rc = self.p.wait()
        self.errf.close()
        err = open(self.errpath, 'rb').read()[:200000].decode(errors='replace')
        self.p = None
        self.restarts += 1
        m = re.search(r'memory allocation of \d+ bytes failed|has overflowed its stack|panicked at [^\n]*\n[^\n]*', err)
        return rc, (m.group(0) if m else err[-200:]).replace('\n', ' ')

    def request(self, req, until=None):
        """-> (lines, None) or (partial lines, crash info).  A death is confirmed by a second attempt in a
        fresh child (another process on this machine may have killed ours)."""
        ok, lines = self._once(req, until)
        if ok:
            return lines, None
        rc1, tail1 = self.died()
        ok, lines = self._once(req, until)
        if ok:
            self.ctx.note('codec child died once (rc=%s) but the input did not reproduce it' % rc1)
            return lines, None
        rc, tail = self.died()
        what = 'signal %d' % -rc if rc < 0 else 'exit status %d' % rc
        return lines, {'rc': rc, 'how': what, 'stderr': tail}


# ------------------------------------------------------------------------------------------------
# frame trees (JSON representation of harness/src/jsonx.rs) and the python-side reference encoder
def B(x):
    return list(x if isinstance(x, bytes) else x.encode())


def st(b): return {'t': 'st', 'v': B(b)}
def er(b): return {'t': 'err', 'v': B(b)}
def it(n): return {'t': 'int', 'v': B(str(n))}
def bulk(b): return {'t': 'bulk', 'v': B(b)}
def arr(v): return {'t': 'arr', 'v': list(v)}
def set3(v): return {'t': 'set3', 'v': list(v)}
def map3(v): return {'t': 'map', 'v': [list(p) for p in v]}
def dbl(x): return {'t': 'dbl', 'v': B(struct.pack('>d', x).hex())}
def boolean(b): return {'t': 'bool', 'v': 1 if b else 0}


NIL, NILARR, NULL3 = {'t': 'nil'}, {'t': 'nilarr'}, {'t': 'null3'}
NAN = {'t': 'dbl', 'v': B('7ff8000000000000')}
PINNED = {'0000000000000000': '0', '8000000000000000': '-0', '3ff0000000000000': '1', '3ff8000000000000': '1.5',
          'c002000000000000': '-2.25', '3fb999999999999a': '0.1', '7ff0000000000000': 'inf',
          'fff0000000000000': '-inf', '7ff8000000000000': 'nan'}


def leaves(thorough):
    out = [st(''), st('OK'), st(b'a b\x00\xff\t'), er(''), er('ERR wrong number of arguments'), er(b'\xfe'),
           it(0), it(1), it(-1), it(9223372036854775807), it(-9223372036854775808), it(10 ** 18), it(-4294967296),
           bulk(''), bulk('a'), bulk('\r\n'), bulk('$-1\r\n'), bulk(b'\x00\xff\r'), bulk('PING'), bulk(' +OK\r\n*3\r\n'),
           bulk(bytes(range(256))), NIL, NILARR, NULL3, boolean(True), boolean(False),
           dbl(0.0), dbl(-0.0), dbl(1.0), dbl(1.5), dbl(-2.25), dbl(0.1), dbl(float('inf')), dbl(float('-inf')), NAN,
           dbl(5e-324), dbl(1.7976931348623157e308), dbl(1e21), dbl(-1e-7), dbl(123456789.125), dbl(2.2250738585072014e-308),
           arr([]), set3([]), map3([])]
    if thorough:
        out += [bulk(b'x' * 1000), it(2 ** 53 + 1), dbl(3.141592653589793), dbl(-1.0e100), st('x' * 300)]
    return out


def trees(rnd, thorough):
    """every type at depth 1, every leaf inside every container (depth 2), containers of containers (depth 3)"""
    L = leaves(thorough)
    out = [('leaf', x) for x in L]
    d2 = []
    for x in L:
        d2 += [arr([x]), set3([x])]
    for i, x in enumerate(L):
        d2.append(map3([(x, L[(i + 7) % len(L)])]))
    d2 += [arr(L), set3(L), map3([(L[i], L[-1 - i]) for i in range(len(L))]), arr([NIL, NILARR]), arr([bulk('a')] * 3),
           arr([it(i) for i in range(300)])]
    out += [('d2', x) for x in d2]
    d3 = []
    pick = d2 if thorough else rnd.sample(d2, 60)
    for x in pick:
        d3 += [arr([x]), set3([x, x]), map3([(x, x)])]
    d3 += [arr([arr([arr([])])]), map3([(map3([]), set3([]))]), arr(rnd.sample(d2, 20)), set3(rnd.sample(d2, 20)),
           map3([(a, b) for a, b in zip(rnd.sample(d2, 15), rnd.sample(d2, 15))])]
    for _ in range(2000 if thorough else 150):
        d3.append(rand_tree(rnd, L, 3))
    out += [('d3', x) for x in d3]
    out.append(('big', bulk(bytes(rnd.getrandbits(8) for _ in range(70000)))))
    out.append(('big', arr([bulk(b'v%d' % i) for i in range(5000)])))
    return out


def rand_tree(rnd, L, depth):
    if depth <= 1 or rnd.random() < 0.3:
        return rnd.choice(L)
    n = rnd.choice([0, 1, 1, 2, 3, 5])
    kind = rnd.choice(['arr', 'set3', 'map'])
    if kind == 'map':
        return map3([(rand_tree(rnd, L, depth - 1), rand_tree(rnd, L, depth - 1)) for _ in range(n)])
    return {'t': kind, 'v': [rand_tree(rnd, L, depth - 1) for _ in range(n)]}


def ser(f):
    """reference encoding (python side; CodecTrace re-checks it against RespCodec!Ser for stream events)"""
    t = f['t']
    v = bytes(f['v']) if t in ('st', 'err', 'int', 'bulk', 'dbl') else f.get('v')
    if t == 'st':
        return b'+' + v + b'\r\n'
    if t == 'err':
        return b'-' + v + b'\r\n'
    if t == 'int':
        return b':' + v + b'\r\n'
    if t == 'bulk':
        return b'$%d\r\n' % len(v) + v + b'\r\n'
    if t == 'nil':
        return b'$-1\r\n'
    if t == 'nilarr':
        return b'*-1\r\n'
    if t == 'null3':
        return b'_\r\n'
    if t == 'bool':
        return b'#t\r\n' if v else b'#f\r\n'
    if t == 'dbl':
        h = v.decode()
        txt = PINNED.get(h) or repr(struct.unpack('>d', bytes.fromhex(h))[0])
        return b',' + txt.encode() + b'\r\n'
    if t == 'arr':
        return b'*%d\r\n' % len(v) + b''.join(ser(x) for x in v)
    if t == 'set3':
        return b'~%d\r\n' % len(v) + b''.join(ser(x) for x in v)
    if t == 'map':
        return b'%%%d\r\n' % len(v) + b''.join(ser(k) + ser(x) for k, x in v)
    raise ValueError(t)


# ------------------------------------------------------------------------------------------------
# inputs that are described by a recipe (too long to store): tag -> bytes
def from_recipe(tag):
    k, _, arg = tag.partition(':')
    if k == 'nest':      # nest:<depth>:<closed 0|1>
        d, closed = arg.split(':')
        return b'*1\r\n' * int(d) + (b':1\r\n' if closed == '1' else b'')
    if k == 'nestmap':
        return b'%1\r\n+k\r\n' * int(arg)
    if k == 'hex':
        return bytes.fromhex(arg)
    return None


ABSURD = [b'*3000000000\r\n', b'*30000000\r\n', b'*9223372036854775807\r\n', b'*2147483648\r\n$1\r\na\r\n',
          b'$9223372036854775807\r\n', b'$9223372036854775806\r\nab', b'$3000000000\r\nabc\r\n',
          b'%99999999999\r\n', b'%18446744073709551615\r\n', b'%40000000\r\n+k\r\n', b'~99999999999\r\n',
          b'~18446744073709551615\r\n', b'~30000000\r\n:1\r\n', b'*1\r\n*1\r\n*400000000\r\n',
          b'*3000\r\n', b'*2000\r\n', b'*100\r\n$1\r\na\r\n',
          b'$18446744073709551616\r\n', b'*-2\r\n', b'$-2\r\n', b'%-1\r\n', b':9223372036854775808\r\n',
          b'$-9223372036854775808\r\n', b'*+1\r\n:1\r\n', b'$+1\r\na\r\n', b'$-0\r\n\r\n', b'*-01\r\n', b'$1\r\nabc\r\n',
          b' +OK\r\n', b'\t\r\n +OK\r\n', b'+OK\r\n\r\n\r\n+OK\r\n', b'PING\r\n', b'PING', b'PINGPING', b'ping\r\n',
          b'PING \r\n\t+OK\r\n', b'+OK\r\nPING\r\n', b'*1\r\n$4\r\nPING\r\nPING\r\n', b'\r\nPIN', b'GET k\r\n',
          b',nan\r\n', b',NaN\r\n', b',-nan\r\n', b',inf\r\n', b',-Infinity\r\n', b',1e400\r\n', b',.\r\n', b',\r\n', b',1e\r\n',
          b'_x\r\n', b'#x\r\n', b'#t\n\r', b'_\r', b'#t\r', b'+a\rb\r\n', b'+a\nb\r\n', b'\xff\xfe', b':\xff\r\n', b'$\xc3\xa9\r\n',
          b'!3\r\nabc\r\n', b'=3\r\nabc\r\n', b'(123\r\n', b'>1\r\n+x\r\n', b'|1\r\n+a\r\n+b\r\n']


def nestings(thorough):
    out = ['nest:100:1', 'nest:1000:1', 'nest:10000:1', 'nest:100000:1', 'nest:100000:0', 'nestmap:100000']
    if thorough:
        out += ['nest:%d:1' % d for d in (20000, 30000, 50000, 70000, 1000000)]
    return out


# ------------------------------------------------------------------------------------------------
class Recorder:
    """Writes events into traces of bounded size and validates them; after a rejection the rest of the trace is
    validated on its own, so that every rejected input is reported (the events are independent)."""

    def __init__(self, ctx, codec):
        self.ctx = ctx
        self.codec = codec
        self.tr = None
        self.label = None
        self.rejected = []   # (label, event summary)
        self.crashes = 0
        self.kinds = {}

    def begin(self, label):
        self.end()
        self.label = label
        self.tr = self.ctx.new_trace(label)

    def raw(self, line):
        self.tr.f.write(line + '\n')
        self.tr.n += 1

    def emit(self, ev):
        self.tr.emit(ev)

    def end(self):
        if self.tr is None:
            return
        tr, self.tr = self.tr, None
        tr.close()
        if tr.n == 0:
            return
        label = self.label
        rounds = 0
        base = tr.path.replace('.ndjson', '')
        while True:
            ok = self.ctx.validate(tr, label=label, module='CodecTrace')
            if ok:
                return
            info = json.load(open(self.ctx.violations[-1][1]))
            i = info['rejected_at']
            lines = open(tr.path).read().split('\n')
            ev = json.loads(lines[i - 1])
            # the replayable trace of this violation is the rejected event alone (events are independent)
            open(info['trace'], 'w').write(lines[i - 1] + '\n')
            info['rejected_at'] = 1
            info['what'] = summary(ev)
            json.dump(info, open(self.ctx.violations[-1][1], 'w'), indent=1)
            self.rejected.append((label, summary(ev)))
            self.ctx.violations[-1] = ('%s: %s' % (label, summary(ev)), self.ctx.violations[-1][1])
            rest = [x for x in lines[i:] if x]
            rounds += 1
            if not rest:
                return
            if rounds >= MAX_REJECTIONS:
                cls = {}
                for x in rest:
                    w = summary(json.loads(x)).split(' ')[0]
                    cls[w] = cls.get(w, 0) + 1
                self.ctx.note('%s: more than %d rejections; %d further events not submitted to TLC (harness-side classes: %s)'
                              % (label, MAX_REJECTIONS, len(rest), cls))
                return
            nt = Trace('%s-r%d.ndjson' % (base, rounds))
            nt.f.write('\n'.join(rest) + '\n')
            nt.close()
            nt.n = 0          # already counted
            tr = nt

    # -- requests ---------------------------------------------------------
    def bytes_input(self, data=None, tag='', chunkings=None, recipe=None):
        """arbitrary bytes through all standard chunkings; a crash becomes a crash event"""
        if data is None:
            data = from_recipe(recipe)
        req = {'op': 'bytes', 'hex': data.hex(), 'tag': recipe or tag}
        if chunkings:
            req['chunkings'] = chunkings
        lines, crash = self.codec.request(req)
        if crash:
            self.crashes += 1
            ev = {'k': 'crash', 'tag': recipe or tag, 'n': len(data), 'rc': crash['rc'], 'how': crash['how'],
                  'stderr': crash['stderr']}
            if len(data) <= 4096:
                ev['hex'] = data.hex()
            # which chunking?  try the whole feed alone to say so
            l2, c2 = self.codec.request({'op': 'parse', 'hex': data.hex(), 'chunks': []})
            ev['whole_feed_crashes'] = bool(c2)
            self.emit(ev)
            return None
        self.raw(lines[0])
        return lines[0]

    def tree_input(self, tree, tag):
        lines, crash = self.codec.request({'op': 'rt', 'tree': tree, 'tag': tag})
        if crash:
            self.crashes += 1
            self.emit({'k': 'crash', 'tag': tag, 'tree': tree, 'rc': crash['rc'], 'how': crash['how'], 'stderr': crash['stderr']})
            return
        self.raw(lines[0])

    def stream_input(self, trees_, data, chunkings, tag):
        """concatenation of valid frames: every chunking must return exactly these frames"""
        lines, crash = self.codec.request({'op': 'bytes', 'hex': data.hex(), 'tag': tag, 'chunkings': chunkings})
        if crash:
            self.crashes += 1
            self.emit({'k': 'crash', 'tag': tag, 'n': len(data), 'hex': data.hex()[:8192], 'rc': crash['rc'],
                       'how': crash['how'], 'stderr': crash['stderr']})
            return
        ev = json.loads(lines[0])
        ev['k'] = 'stream'
        ev['trees'] = trees_
        ev['bytes'] = list(data)
        self.emit(ev)

    def enumerate(self, maxlen, minlen, mode, chunkings='std', per_trace=25000):
        req = {'op': 'enum', 'alphabet': ALPHABET.hex(), 'len': maxlen, 'from': minlen, 'mode': mode, 'chunkings': chunkings}
        lines, crash = self.codec.request(req, until='enumsum')
        label = self.label
        n = 0
        for ln in lines:
            if self.tr.n >= per_trace:
                self.begin(label)
            self.raw(ln)
            n += 1
        if crash:
            self.crashes += 1
            last = json.loads(lines[-1]).get('hex') if lines else None
            self.emit({'k': 'crash', 'tag': 'enum len<=%d: the string after %s in enumeration order' % (maxlen, last),
                       'rc': crash['rc'], 'how': crash['how'], 'stderr': crash['stderr']})
            return None
        return json.loads(lines[-1])


def summary(ev):
    k = ev.get('k')
    if k == 'crash':
        what = ev.get('hex') and repr(bytes.fromhex(ev['hex']))[:80] or ev.get('tag')
        return 'CRASH (%s; %s) on %s' % (ev.get('how'), ev.get('stderr', '')[:90], what)
    if k in ('bytes', 'stream'):
        data = bytes.fromhex(ev['hex']) if 'hex' in ev else None
        what = repr(data)[:80] if data is not None else ev.get('tag')
        runs = ev['runs']
        bound = 64 * ev['n'] + 65536
        over = [r for r in runs if r['peak'] > bound]
        if over:
            return 'ALLOC peak %d bytes for %d bytes received (bound %d) on %s' % (over[0]['peak'], ev['n'], bound, what)

        def sig(r):
            return [x['k'] == 'f' and json.dumps(x['f'], sort_keys=True) or 'err' for x in r['results']]
        diff = [r for r in runs if sig(r) != sig(runs[0])]
        if diff:
            return 'CHUNKING %s fed as %s gives %s but whole gives %s' % (
                what, diff[0]['chunks'], short_results(diff[0]), short_results(runs[0]))
        return '%s event rejected: %s' % (k, what)
    if k == 'rt':
        return 'ROUNDTRIP %s -> %s' % (json.dumps(ev.get('tree'))[:120], repr(bytes(ev.get('bytes', [])))[:80])
    return json.dumps(ev)[:200]


def short_results(r):
    out = []
    for x in r['results']:
        out.append('err' if x['k'] == 'err' else runner.render_reply(x['f']) if x['f'].get('t') in
                   ('st', 'err', 'bulk', 'int', 'arr') else x['f'].get('t'))
    return '[' + ', '.join(out)[:100] + ']'


# ------------------------------------------------------------------------------------------------
def extract_counterexamples(ctx):
    """Strings at which the code as it is (FixedPing = FALSE) changes an answer already given for a prefix.
    This run has no property invariant: its purpose is test inputs, the verdict comes from the real code."""
    wd = os.path.join(ctx.out, 'mc-MC_Parser_cex')
    cfg = os.path.join(runner.VERIF, 'spec', 'impl', 'MC_Parser_cex.cfg')
    rc, out, wall = tlc.run_tlc(os.path.join('impl', 'MC_Parser'), cfg, wd, workers=12, timeout=600, xmx='8g')
    open(os.path.join(wd, 'tlc.out'), 'w').write(out)
    gen_, dist = tlc.parse_stats(out)
    ctx.mc_runs.append({'module': 'MC_Parser', 'cfg': 'MC_Parser_cex', 'states': dist, 'transitions': gen_,
                        'wall_s': round(wall, 1), 'purpose': 'test input extraction (FixedPing=FALSE)'})
    if 'No error has been found' not in out:
        raise runner.ToolError('TLC failed on MC_Parser_cex')
    cex = [bytes(int(x) for x in m.split(',')) for m in re.findall(r'<<"CEX", <<([\d, ]+)>>>>', out)]
    ctx.extra_cov['tlc_counterexample_strings'] = [repr(c) for c in cex]
    return cex


def all_cuts(n):
    out = []
    for mask in range(1 << max(n - 1, 0)):
        sizes, last = [], 0
        for c in range(1, n):
            if mask & (1 << (c - 1)):
                sizes.append(c - last)
                last = c
        out.append(sizes)
    return out


def run(ctx):
    thorough = not ctx.quick
    # (a) the design: the transcription with the repaired PING case satisfies the properties
    ctx.model_check('MC_Parser', 'MC_Parser_fixed_N6' if thorough else 'MC_Parser_fixed_N5', workers=12, timeout=1500,
                    subdir='impl')
    # round trip on the design: Ser (spec/RespCodec.tla) against the transcription, 11,823 trees up to depth 3
    ctx.model_check('MC_RoundTrip', 'MC_RoundTrip', workers=4, timeout=1500, subdir='impl')
    cex = extract_counterexamples(ctx)

    codec = Codec(ctx)
    rec = Recorder(ctx, codec)
    try:
        # (b1) TLC's counter-example strings, alone and embedded, in ALL chunkings
        rec.begin('cex')
        for c in cex:
            for data in (c, c + b'\r\n', b'+OK\r\n' + c, c + c, b'*1\r\n$1\r\na\r\n' + c + b'\r\n+x\r\n'):
                rec.bytes_input(data, tag='tlc-cex', chunkings=all_cuts(len(data)) if len(data) <= 9 else None)
        # (b2) every string over the alphabet x chunkings
        rec.begin('enum')
        s = rec.enumerate(4, 0, 'all', chunkings='all')
        cases = s['strings'] if s else 0
        if thorough:
            rec.begin('enum56')   # only strings whose runs differ come back: each of them will be rejected
            s = rec.enumerate(6, 5, 'diff')
            cases += s['strings'] if s else 0
        ctx.extra_cov['enumerated_strings'] = cases
        # (b3) frame trees
        rec.begin('trees')
        ts = trees(ctx.rnd, thorough)
        for tag, t in ts:
            rec.tree_input(t, tag)
        ctx.extra_cov['frame_trees'] = len(ts)
        # (b4) absurd declared lengths, malformed headers, tolerated noise
        rec.begin('absurd')
        for data in ABSURD:
            rec.bytes_input(data, tag='absurd')
        # (b5) deep nesting
        rec.begin('nest')
        for r in nestings(thorough):
            rec.bytes_input(recipe=r)
        # (b6) random long streams of valid frames cut at random points, then mutated copies
        rec.begin('streams')
        L = leaves(False)
        n_streams = 150 if thorough else 25
        for i in range(n_streams):
            fs = [rand_tree(ctx.rnd, L, 3) for _ in range(ctx.rnd.choice([1, 5, 30, 200]))]
            data = b''.join(ser(f) for f in fs)
            rec.stream_input(fs, data, random_chunkings(ctx.rnd, len(data)), 'stream%d' % i)
            for j in range(4):
                m = mutate(ctx.rnd, data)
                rec.bytes_input(m, tag='mut%d.%d' % (i, j), chunkings=random_chunkings(ctx.rnd, len(m)))
        rec.end()
    finally:
        codec.stop()
    ctx.extra_cov['distinct_cases'] = cases + len(ts) + len(ABSURD) + n_streams * 5
    ctx.extra_cov['child_crashes'] = rec.crashes
    ctx.extra_cov['rejected_inputs'] = [r[1] for r in rec.rejected]


def random_chunkings(rnd, n):
    out = [[]]
    for _ in range(5):
        k = rnd.choice([1, 2, 5, 20, 100])
        cuts = sorted(set(rnd.randrange(1, n) for _ in range(min(k, n - 1)))) if n >= 2 else []
        sizes, last = [], 0
        for c in cuts:
            sizes.append(c - last)
            last = c
        out.append(sizes)
    if n <= 4096:
        out.append('each1')
    out.append('each7')
    return out


def mutate(rnd, data):
    b = bytearray(data)
    for _ in range(rnd.choice([1, 1, 2, 5])):
        if not b:
            break
        i = rnd.randrange(len(b))
        how = rnd.random()
        if how < 0.4:
            b[i] = rnd.choice(ALPHABET + b'%~,f \t')
        elif how < 0.6:
            del b[i]
        elif how < 0.8:
            b.insert(i, rnd.choice(ALPHABET))
        elif how < 0.9:
            del b[i:]
        else:
            b[i:i] = rnd.choice([b'PING', b'\r\n', b' ', b'$-1\r\n', b'*-1\r\n'])
    return bytes(b)


def replay(ctx, path):
    info = json.load(open(path))
    if info.get('kind') == 'model':
        ctx.model_check('MC_Parser', info.get('cfg'), workers=12, timeout=1500, subdir='impl')
        return
    codec = Codec(ctx)
    rec = Recorder(ctx, codec)
    try:
        rec.begin('replay')
        for line in open(info['trace']):
            ev = json.loads(line)
            k = ev.get('k')
            if k == 'rt' or (k == 'crash' and 'tree' in ev):
                rec.tree_input(ev['tree'], ev.get('tag', 'replay'))
            elif k in ('bytes', 'stream', 'crash'):
                data = bytes(ev['bytes']) if 'bytes' in ev else bytes.fromhex(ev['hex']) if 'hex' in ev and \
                    len(ev['hex']) == 2 * ev.get('n', -1) else from_recipe(ev.get('tag', ''))
                if data is None:
                    ctx.note('event not replayable: %s' % json.dumps(ev)[:120])
                    continue
                chunkings = [r['chunks'] for r in ev.get('runs', [])] or None
                if k == 'stream':
                    rec.stream_input(ev['trees'], data, chunkings, ev.get('tag', 'replay'))
                else:
                    rec.bytes_input(data, tag=ev.get('tag', 'replay'), chunkings=chunkings)
        rec.end()
    finally:
        codec.stop()
