"""X01 (beyond the listed properties) — the connection registry: CLIENT ID / SETNAME / GETNAME / KILL ID / LIST."""
import workloads
from session import ServerDied

LEVEL = 'model_checking'
RULE = ('The registry is part of the spec state (conn.sid, conn.name, S.killed; spec/Ferrous.tla CmdCLIENT): identifiers are '
        'unique, stable and grow in accept order; names are per connection and refuse spaces / control bytes; CLIENT KILL ID '
        'closes exactly the named connection (its next request is answered by a close), ends its subscriptions, watches and '
        'transaction at once, refuses to kill the caller and answers 0 for an identifier nobody holds; CLIENT LIST has one '
        'line per connection. Seeded random histories of 5 connections mixing these with SUBSCRIBE/PUBLISH and reconnects are '
        'validated by TLC (CLIENT inside MULTI is not prescribed and not generated).')
ASSUMPTIONS = ['every connection asks for CLIENT ID right after connecting, so that every identifier is known to the spec']


class RegistryGen:
    NAMES = [b'alice', b'bob', b'', b'with space', b'new\nline', b'x' * 40, b'\xffbin', b'tab\there', b'a:b-c_d', b'~']

    def __init__(self, rnd, n=5):
        self.rnd = rnd
        self.n = n
        self.sids = {}      # client index -> last known identifier (may be stale after a reconnect / kill)

    def next(self):
        r = self.rnd
        c = r.randrange(self.n)
        k = r.randrange(24)
        if k < 3:
            return c, [b'CLIENT', b'SETNAME', r.choice(self.NAMES)]
        if k < 6:
            return c, [b'CLIENT', b'GETNAME']
        if k < 8:
            return c, [b'CLIENT', r.choice([b'ID', b'id'])]
        if k < 12:
            cands = list(self.sids.values()) + [999999, 0]
            return c, [b'CLIENT', b'KILL', b'ID', str(r.choice(cands)).encode()]
        if k < 14:
            return c, [b'CLIENT', b'LIST']
        if k == 14:
            return c, [b'SUBSCRIBE', r.choice([b'ch1', b'ch2'])]
        if k == 15:
            return c, [b'PSUBSCRIBE', b'ch*']
        if k < 18:
            return c, [b'PUBLISH', r.choice([b'ch1', b'ch2']), b'm']
        if k == 18:
            return c, r.choice([[b'SET', b'k', b'v'], [b'GET', b'k'], [b'UNSUBSCRIBE'], [b'PUNSUBSCRIBE']])
        if k == 19:
            return ('close', c)
        if k == 20:
            return c, r.choice([[b'CLIENT'], [b'CLIENT', b'SETNAME'], [b'CLIENT', b'KILL', b'ID', b'x'], [b'CLIENT', b'GETNAME', b'x'],
                                [b'CLIENT', b'ID', b'x'], [b'CLIENT', b'KILL', b'ID'], [b'CLIENT', b'KILL', b'ID', b'-1']])
        return c, [b'PING']


def history(ctx, srv, n, label):
    s = workloads.fresh_session(ctx, srv, label)
    g = RegistryGen(ctx.rnd)
    cmap = {}
    try:
        admin = s.open()
        s.cmd(admin, [b'FLUSHALL'])
        s.close(admin)
        for _ in range(n):
            st = g.next()
            if st[0] == 'close':
                c = st[1]
                if cmap.get(c) in s.clients:
                    s.poll(cmap[c])
                    s.close(cmap.pop(c))
                    g.sids.pop(c, None) if ctx.rnd.random() < 0.5 else None      # sometimes keep the stale identifier around
                continue
            c, a = st
            if cmap.get(c) not in s.clients:
                cmap[c] = s.open()
                r = s.cmd(cmap[c], [b'CLIENT', b'ID'])
                if r[0] == 'int':
                    g.sids[c] = r[1]
            if cmap.get(c) not in s.clients:
                continue
            s.cmd(cmap[c], a)
            if a[:2] == [b'CLIENT', b'KILL']:
                s.wait_loop(3)       # the victim is cleaned up at the end of the pass; the next request comes after it
            if a[0] == b'PUBLISH':
                s.poll_all()
        s.quiesce()
    except (ServerDied, OSError):
        if not srv.alive():
            s.trace.emit({'k': 'crash', 'status': srv.exit_status()})
    s.close_all()
    ctx.validate(s.trace, label=label)
    if not srv.alive():
        srv.restart()


def run(ctx):
    srv = ctx.new_server()
    n = 6 if ctx.quick else 60
    for i in range(n):
        history(ctx, srv, 250 if ctx.quick else 800, 'reg%d' % i)
    ctx.extra_cov['distinct_cases'] = n


def replay(ctx, path):
    workloads.replay_file(ctx, path)
