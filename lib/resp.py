"""Independent RESP2/RESP3 encoder and incremental decoder (no code shared with ferrous).

Replies are python tuples:
  ('st', bytes) ('err', bytes) ('int', int) ('bulk', bytes) ('nil',) ('arr', [..]) ('nilarr',)
  RESP3: ('null3',) ('bool', 0/1) ('dbl', bytes) ('map', [(k,v)..]) ('set3', [..])
Pseudo replies produced by the driver: ('closed',) ('none',) ('garbage', bytes)
"""


class ProtocolError(Exception):
    pass


def enc_cmd(argv):
    out = [b'*%d\r\n' % len(argv)]
    for a in argv:
        out.append(b'$%d\r\n' % len(a))
        out.append(a)
        out.append(b'\r\n')
    return b''.join(out)


class Reader:
    def __init__(self):
        self.buf = bytearray()

    def feed(self, data):
        self.buf += data

    def next(self):
        """Return one complete reply or None if more data is needed."""
        r = self._parse(0, 0)
        if r is None:
            return None
        val, end = r
        del self.buf[:end]
        return val

    def _line(self, pos):
        i = self.buf.find(b'\r\n', pos)
        if i < 0:
            return None
        return bytes(self.buf[pos:i]), i + 2

    def _parse(self, pos, depth):
        if depth > 300:
            raise ProtocolError('nesting too deep')
        if pos >= len(self.buf):
            return None
        t = self.buf[pos:pos + 1]
        ln = self._line(pos + 1)
        if ln is None:
            return None
        line, p = ln
        if t == b'+':
            return ('st', line), p
        if t == b'-':
            return ('err', line), p
        if t == b':':
            try:
                return ('int', int(line)), p
            except ValueError:
                raise ProtocolError('bad integer %r' % line)
        if t == b'$':
            try:
                n = int(line)
            except ValueError:
                raise ProtocolError('bad bulk length %r' % line)
            if n == -1:
                return ('nil',), p
            if n < 0:
                raise ProtocolError('negative bulk length')
            if len(self.buf) < p + n + 2:
                return None
            if self.buf[p + n:p + n + 2] != b'\r\n':
                raise ProtocolError('bulk not terminated by CRLF')
            return ('bulk', bytes(self.buf[p:p + n])), p + n + 2
        if t in (b'*', b'~', b'%'):
            try:
                n = int(line)
            except ValueError:
                raise ProtocolError('bad array length %r' % line)
            if n == -1 and t == b'*':
                return ('nilarr',), p
            if n < 0:
                raise ProtocolError('negative array length')
            items = []
            cnt = n * 2 if t == b'%' else n
            for _ in range(cnt):
                r = self._parse(p, depth + 1)
                if r is None:
                    return None
                v, p = r
                items.append(v)
            if t == b'*':
                return ('arr', items), p
            if t == b'~':
                return ('set3', items), p
            return ('map', [(items[i], items[i + 1]) for i in range(0, len(items), 2)]), p
        if t == b'_':
            return ('null3',), p
        if t == b'#':
            return ('bool', 1 if line == b't' else 0), p
        if t == b',':
            return ('dbl', line), p
        raise ProtocolError('unknown type byte %r' % t)


def to_json(r):
    """Reply tuple -> trace JSON (bytes as int arrays; ints as decimal byte strings)."""
    t = r[0]
    if t in ('st', 'err', 'bulk', 'dbl', 'garbage'):
        return {'t': t, 'v': list(r[1])}
    if t == 'int':
        return {'t': 'int', 'v': list(str(r[1]).encode())}
    if t in ('arr', 'set3'):
        return {'t': t, 'v': [to_json(x) for x in r[1]]}
    if t == 'map':
        return {'t': t, 'v': [[to_json(k), to_json(v)] for k, v in r[1]]}
    if t == 'bool':
        return {'t': t, 'v': r[1]}
    return {'t': t}


def from_json(j):
    t = j['t']
    if t in ('st', 'err', 'bulk', 'dbl', 'garbage'):
        return (t, bytes(j['v']))
    if t == 'int':
        return ('int', int(bytes(j['v']).decode()))
    if t in ('arr', 'set3'):
        return (t, [from_json(x) for x in j['v']])
    if t == 'map':
        return (t, [(from_json(k), from_json(v)) for k, v in j['v']])
    if t == 'bool':
        return (t, j['v'])
    return (t,)


def show(r):
    t = r[0]
    if t in ('st', 'err', 'bulk'):
        return '%s:%r' % (t, r[1])
    if t == 'int':
        return ':%d' % r[1]
    if t == 'arr':
        return '[' + ', '.join(show(x) for x in r[1]) + ']'
    return t
