"""Common machinery of ./check: build, TLC runs, trace validation, evidence, verdict."""
import importlib
import json
import os
import random
import re
import shutil
import subprocess
import sys
import time
import traceback

HERE = os.path.dirname(os.path.abspath(__file__))
VERIF = os.path.dirname(HERE)
OUT = os.path.join(VERIF, 'out')
sys.path.insert(0, HERE)

import tlc  # noqa: E402
from server import Server  # noqa: E402
from session import Trace, Session  # noqa: E402

LEVELS = {}


class ToolError(Exception):
    pass


def load_findings():
    p = os.path.join(VERIF, 'known_findings.json')
    if not os.path.exists(p):
        return {'open': [], 'fixed': []}
    return json.load(open(p))


def build_harness():
    """cargo build the harness; this recompiles ferrous from /repo's working tree with hooks on."""
    # development aid: tools/seedrun.py patches /repo for a moment; other checks wait with their build until it is undone
    while os.path.exists('/tmp/ferrous-seedrun.lock') and not os.environ.get('VERIF_SEEDRUN'):
        time.sleep(1.0)
    t = time.time()
    if os.environ.get('VERIF_FVH') and os.environ.get('VERIF_NOBUILD'):
        return 0.0      # development aid (tools/seedpar.py): the harness was built elsewhere, against a patched scratch worktree
    lock = os.path.join(VERIF, 'harness', 'Cargo.lock')
    if not os.path.exists(lock):
        shutil.copy('/repo/Cargo.lock', lock)
    env = dict(os.environ)
    env['CARGO_NET_OFFLINE'] = 'true'
    p = subprocess.run(['cargo', 'build', '--offline', '--quiet'], cwd=os.path.join(VERIF, 'harness'),
                       stdout=subprocess.PIPE, stderr=subprocess.STDOUT, env=env)
    if p.returncode != 0:
        sys.stdout.write(p.stdout.decode(errors='replace')[-4000:])
        raise ToolError('cargo build of the harness failed')
    return time.time() - t


class Ctx:
    def __init__(self, prop, tier, seed):
        self.prop = prop
        self.tier = tier
        self.seed = seed
        self.rnd = random.Random(seed)
        self.out = os.path.join(OUT, prop)
        shutil.rmtree(self.out, ignore_errors=True)
        os.makedirs(self.out, exist_ok=True)
        self.findings = load_findings()
        self.open_devs = {f['deviation']: f for f in self.findings.get('open', []) if f.get('deviation')}
        for d in os.environ.get('VERIF_EXTRA_DEVS', '').split(','):      # deviations under triage, not yet listed
            if d and d not in self.open_devs:
                self.open_devs[d] = {'deviation': d, 'what': d + ' (VERIF_EXTRA_DEVS)'}
        self.mc_states = 0
        self.mc_transitions = 0
        self.trace_states = 0
        self.traces = 0
        self.events = 0
        self.samples = []
        self.fired = {}
        self.violations = []
        self.notes = []
        self.servers = []
        self.extra_cov = {}
        self.mc_runs = []
        self.fired_segments = {}
        self.t_start = time.time()
        self.quick = tier == 'quick'
        self.counter = 0

    # -- servers ---------------------------------------------------------
    def new_server(self, name='srv', **kw):
        self.counter += 1
        d = os.path.join(self.out, '%s%d' % (name, self.counter))
        s = Server(d, **kw).start()
        self.servers.append(s)
        return s

    def cleanup(self):
        for s in self.servers:
            try:
                s.kill()
            except Exception:
                pass

    def new_trace(self, label):
        self.counter += 1
        return Trace(os.path.join(self.out, '%s-%d.ndjson' % (label, self.counter)))

    # -- model checking --------------------------------------------------
    def model_check(self, module, cfg=None, workers=8, timeout=900, must_take=(), xmx='8g', coverage=False, subdir='mc'):
        """Exhaustive TLC run of spec/mc/<module>; invariant violation => property violation."""
        cfgp = os.path.join(VERIF, 'spec', subdir, (cfg or module) + '.cfg')
        wd = os.path.join(self.out, 'mc-' + (cfg or module))
        rc, out, wall = tlc.run_tlc(os.path.join(subdir, module), cfgp, wd, workers=workers, timeout=timeout,
                                    extra=(['-coverage', '1'] if coverage or must_take else None), xmx=xmx)
        open(os.path.join(wd, 'tlc.out'), 'w').write(out)
        gen, dist = tlc.parse_stats(out)
        self.mc_states += dist
        self.mc_transitions += gen
        run = {'module': module, 'cfg': cfg or module, 'states': dist, 'transitions': gen, 'wall_s': round(wall, 1)}
        self.mc_runs.append(run)
        if rc == 124:
            raise ToolError('TLC timed out on %s' % module)
        if 'No error has been found' in out:
            cov = tlc.parse_coverage(out)
            run['actions'] = cov
            never = [a for a in must_take if cov.get(a, 0) == 0]
            if never:
                raise ToolError('vacuous model: actions never taken in %s: %s' % (module, never))
            return out
        m = re.search(r'Error: (Invariant|Action property|Temporal properties?) (\S+)?.*?(violated|is violated)', out)
        if m or 'is violated' in out:
            path = self.save_violation({'kind': 'model', 'module': module, 'cfg': cfg or module,
                                        'tlc_output_tail': out[-6000:]})
            self.violations.append(('model invariant violated in %s' % module, path))
            return out
        sys.stdout.write(out[-3000:])
        raise ToolError('TLC failed on %s (rc=%s)' % (module, rc))

    def model_control(self, module, cfg, subdir='impl', workers=4, timeout=300):
        """Vacuity control: a configuration of an implementation-shaped model with a design switch set to the pinned /
        a wrong design MUST violate an invariant; if TLC finds nothing the model cannot tell the designs apart."""
        cfgp = os.path.join(VERIF, 'spec', subdir, cfg + '.cfg')
        wd = os.path.join(self.out, 'mc-' + cfg)
        rc, out, wall = tlc.run_tlc(os.path.join(subdir, module), cfgp, wd, workers=workers, timeout=timeout, xmx='4g')
        open(os.path.join(wd, 'tlc.out'), 'w').write(out)
        m = re.search(r'Error: Invariant (\S+) is violated', out)
        self.mc_runs.append({'module': module, 'cfg': cfg, 'wall_s': round(wall, 1), 'purpose': 'control that must fail',
                             'violated': m.group(1) if m else None})
        if not m:
            raise ToolError('control %s of %s did not fail: the model does not tell the designs apart' % (cfg, module))
        return m.group(1)

    def simulate_paths(self, module, cfg, num, depth, subdir='impl', timeout=300):
        """Sample behaviours of a model with TLC's simulation mode; the model prints each finished behaviour as
        <<"GEN", ToJson(path)>>.  Returns the list of decoded paths."""
        import json as _json
        cfgp = os.path.join(VERIF, 'spec', subdir, cfg + '.cfg')
        wd = os.path.join(self.out, 'sim-' + cfg)
        rc, out, wall = tlc.run_tlc(os.path.join(subdir, module), cfgp, wd, workers=1, timeout=timeout, xmx='4g',
                                    extra=['-simulate', 'num=%d' % num, '-depth', str(depth), '-seed', str(self.seed + 1)])
        open(os.path.join(wd, 'tlc.out'), 'w').write(out)
        if 'is violated' in out:
            path = self.save_violation({'kind': 'model', 'module': module, 'cfg': cfg, 'tlc_output_tail': out[-6000:]})
            self.violations.append(('model invariant violated in %s (simulation)' % module, path))
        paths = []
        for m in re.finditer(r'<<\s*"GEN",\s*"(.*?)"\s*>>', out, re.S):
            paths.append(_json.loads(m.group(1).replace('\\"', '"')))
        self.mc_runs.append({'module': module, 'cfg': cfg, 'wall_s': round(wall, 1), 'purpose': 'behaviour sampling',
                             'behaviours': len(paths)})
        if not paths:
            sys.stdout.write(out[-2000:])
            raise ToolError('no behaviours sampled from %s' % module)
        return paths

    # -- inductive invariants (Apalache) ---------------------------------
    def apalache_start(self, module, obligations, subdir='impl'):
        """Start Apalache on spec/<subdir>/<module>.tla for each (name, args, expect) in obligations — in the background,
        one after the other, while the check drives the server.  expect: 'ok' (no error) or 'violated' (a vacuity
        control that must fail).  Collect with apalache_wait()."""
        import threading
        wd = os.path.join(self.out, 'apalache-' + module)
        os.makedirs(wd, exist_ok=True)
        src = os.path.join(VERIF, 'spec', subdir)
        for f in os.listdir(src):
            if f.endswith('.tla'):
                shutil.copy(os.path.join(src, f), wd)
        results = []

        def work():
            for name, args, expect in obligations:
                t = time.time()
                try:
                    p = subprocess.run(['timeout', '900', 'apalache-mc', 'check'] + args + [module + '.tla'], cwd=wd,
                                       stdout=subprocess.PIPE, stderr=subprocess.STDOUT)
                    out = p.stdout.decode(errors='replace')
                    rc = p.returncode
                except Exception as e:        # noqa
                    out, rc = str(e), 255
                got = 'ok' if 'The outcome is: NoError' in out and rc == 0 else ('violated' if 'The outcome is: Error' in out else 'toolerror')
                open(os.path.join(wd, name + '.out'), 'w').write(out)
                results.append({'obligation': name, 'expected': expect, 'outcome': got, 'wall_s': round(time.time() - t, 1)})
        th = threading.Thread(target=work)
        th.start()
        return (th, results, module)

    def apalache_wait(self, handle):
        th, results, module = handle
        th.join()
        self.extra_cov.setdefault('apalache', []).extend(results)
        self.extra_cov['obligations'] = self.extra_cov.get('obligations', 0) + len(results)
        self.extra_cov['discharged'] = self.extra_cov.get('discharged', 0) + sum(1 for r in results if r['outcome'] == r['expected'])
        bad = [r for r in results if r['outcome'] != r['expected']]
        if any(r['outcome'] == 'toolerror' for r in bad):
            raise ToolError('Apalache failed on %s: %s' % (module, bad))
        for r in bad:
            path = self.save_violation({'kind': 'model', 'module': module, 'obligation': r})
            self.violations.append(('inductive invariant obligation %s of %s: expected %s, got %s' % (r['obligation'], module, r['expected'], r['outcome']), path))
        return results

    # -- trace validation ------------------------------------------------
    def validate(self, trace, label=None, sample=True, scenario=None, module='FerrousTrace'):
        """Validate a recorded trace; returns True if accepted. Records violations / fired deviations."""
        trace.close()
        path = trace.path
        self.traces += 1
        self.events += trace.n
        wd = os.path.join(self.out, 'tlc-' + os.path.basename(path))
        res = tlc.validate_trace(path, wd, deviations=self.open_devs.keys(), module=module,
                                 timeout=1200 if not self.quick else 600)
        self.trace_states += res.get('states', 0)
        self.mc_transitions_traces = getattr(self, 'mc_transitions_traces', 0) + res.get('transitions', 0)
        if res['tool_error']:
            open(os.path.join(wd, 'tlc.out'), 'w').write(res['out'])
            sys.stdout.write(res['out'][-3000:])
            raise ToolError('TLC failed while validating %s' % path)
        if sample and len(self.samples) < 6:
            self.samples.append(self.sample_of(path))
        if res['ok']:
            for d in res['devs']:
                self.fired.setdefault(d, path)
            shutil.rmtree(wd, ignore_errors=True)
            return True
        tail = res['out'][res['out'].find('"TRACE-REJECTED-AT"') - 2:][:6000]
        vp = self.save_violation({'kind': 'trace', 'label': label or os.path.basename(path),
                                  'rejected_at': res['rejected_at'], 'tlc': tail, 'scenario': scenario},
                                 trace_path=path)
        self.violations.append(('trace %s rejected at event %s' % (label or path, res['rejected_at']), vp))
        return False

    def validate_segments(self, trace, label, cap=80, module='FerrousTrace'):
        """A trace made of independent segments (each starts with a `reset` event followed by a `note` naming it).
        A rejection removes the offending segment and the rest is validated again, so every failing segment is
        found. Segments matching an open finding's `segment` regex are known findings, the others violations."""
        trace.close()
        lines = open(trace.path).readlines()
        self.traces += 1
        self.events += len(lines)
        if len(self.samples) < 6:
            self.samples.append(self.sample_of(trace.path))
        rejected = []
        rounds = 0
        # Segments are independent (each begins with a reset), so after a rejection only what FOLLOWS the rejected segment
        # is validated again; the accepted part in front of it is validated once more on its own to learn which listed
        # deviations it relied on.  Total cost stays linear in the trace however many segments fail.
        while lines:
            rounds += 1
            cur = os.path.join(self.out, 'seg-%s-%d.ndjson' % (label, rounds))
            open(cur, 'w').writelines(lines)
            wd = os.path.join(self.out, 'tlc-seg-' + label)
            res = tlc.validate_trace(cur, wd, deviations=self.open_devs.keys(), module=module, timeout=1200)
            self.trace_states += res.get('states', 0)
            self.mc_transitions_traces = getattr(self, 'mc_transitions_traces', 0) + res.get('transitions', 0)
            if res['tool_error']:
                sys.stdout.write(res['out'][-3000:])
                raise ToolError('TLC failed while validating %s' % cur)
            if res['ok']:
                for d in res['devs']:
                    self.fired.setdefault(d, cur)
                break
            at = res['rejected_at']
            start = at - 1
            while start > 0 and json.loads(lines[start]).get('k') != 'reset':
                start -= 1
            end = at
            while end < len(lines) and json.loads(lines[end]).get('k') != 'reset':
                end += 1
            name = '?'
            for l in lines[start:end]:
                e = json.loads(l)
                if e.get('k') == 'note':
                    name = e.get('text', '?')
                    break
            tail = res['out'][res['out'].find('"TRACE-REJECTED-AT"') - 2:][:3000]
            rejected.append({'segment': name, 'event': render_event(json.loads(lines[at - 1])), 'tlc': tail,
                             'lines': lines[start:end]})
            if start > 0:
                pre = os.path.join(self.out, 'seg-%s-%d-accepted.ndjson' % (label, rounds))
                open(pre, 'w').writelines(lines[:start])
                pres = tlc.validate_trace(pre, wd, deviations=self.open_devs.keys(), module=module, timeout=1200)
                if pres['tool_error'] or not pres['ok']:
                    raise ToolError('an accepted prefix was not accepted on its own: %s' % pre)
                for d in pres['devs']:
                    self.fired.setdefault(d, pre)
            lines = lines[end:]
            if len(rejected) >= cap:
                self.note('segment validation capped at %d rejections for %s' % (cap, label))
                break
        self.extra_cov['segments_rejected'] = self.extra_cov.get('segments_rejected', 0) + len(rejected)
        for r in rejected:
            known = None
            for f in self.findings.get('open', []):
                pat = f.get('segment')
                if pat and re.search(pat, r['segment']):
                    known = f
                    break
            if known:
                self.fired_segments.setdefault(known['id'], []).append(r['segment'])
            else:
                d = os.path.join(OUT, 'violations')
                os.makedirs(d, exist_ok=True)
                base = os.path.join(d, '%s-%d-%d' % (self.prop, int(time.time()), len(self.violations)))
                open(base + '.ndjson', 'w').writelines(r['lines'])
                json.dump({'kind': 'segment', 'label': r['segment'], 'rejected_at': None, 'event': r['event'], 'tlc': r['tlc'],
                           'trace': base + '.ndjson', 'property': self.prop, 'seed': self.seed}, open(base + '.json', 'w'), indent=1)
                self.violations.append(('segment %s rejected: %s' % (r['segment'], r['event'][:160]), base + '.json'))
        return rejected

    def sample_of(self, path, n=6):
        out = []
        with open(path) as f:
            for i, line in enumerate(f):
                if i >= n:
                    break
                ev = json.loads(line)
                out.append(render_event(ev))
        return out

    def save_violation(self, info, trace_path=None):
        d = os.path.join(OUT, 'violations')
        os.makedirs(d, exist_ok=True)
        base = os.path.join(d, '%s-%d-%d' % (self.prop, int(time.time()), len(self.violations)))
        if trace_path:
            shutil.copy(trace_path, base + '.ndjson')
            info['trace'] = base + '.ndjson'
        info['property'] = self.prop
        info['seed'] = self.seed
        json.dump(info, open(base + '.json', 'w'), indent=1)
        return base + '.json'

    def note(self, s):
        self.notes.append(s)


def render_bytes(a):
    b = bytes(a)
    try:
        s = b.decode('ascii')
        if all(32 <= c < 127 for c in b):
            return s
    except Exception:
        pass
    return repr(b)


def render_reply(r):
    t = r.get('t')
    if t in ('st', 'err', 'bulk', 'int'):
        return '%s:%s' % (t, render_bytes(r.get('v', [])))
    if t in ('arr', 'bag'):
        return '[' + ', '.join(render_reply(x) for x in r['v']) + ']'
    return t


def render_event(ev):
    if ev.get('k') == 'cmd':
        return 'c%s %s -> %s' % (ev['c'], ' '.join(render_bytes(a) for a in ev['argv'])[:200], render_reply(ev['r'])[:200])
    return json.dumps(ev)[:200]


def write_evidence(ctx, level, rule, assumptions, extra=None):
    cov = {
        'states': ctx.mc_states + ctx.trace_states,
        'transitions': ctx.mc_transitions + getattr(ctx, 'mc_transitions_traces', 0),
        'traces_validated_against_impl': ctx.traces,
        'samples': ctx.samples or ['(none)'],
        'model_states': ctx.mc_states,
        'model_transitions': ctx.mc_transitions,
        'trace_validation_states': ctx.trace_states,
        'trace_events': ctx.events,
        'evaluations': ctx.events,
        'rule': rule,
        'mc_runs': ctx.mc_runs,
        'known_findings_fired': sorted(ctx.fired.keys()),
        'notes': ctx.notes,
    }
    cov.update(ctx.extra_cov)
    if extra:
        cov.update(extra)
    if 'distinct_nontrivial' not in cov:
        cov['distinct_nontrivial'] = cov.get('distinct_cases', 0)
    ev = {
        'property_id': ctx.prop,
        'tier': ctx.tier,
        'seed': ctx.seed,
        'level': level,
        'coverage': cov,
        'assumptions': assumptions,
        'wall_s': round(time.time() - ctx.t_start, 1),
        'violations': len(ctx.violations),
    }
    # checks of behaviour outside the listed properties (X..) keep their evidence apart
    edir = os.path.join(VERIF, 'evidence' if ctx.prop.startswith('C') else 'evidence_extra')
    os.makedirs(edir, exist_ok=True)
    json.dump(ev, open(os.path.join(edir, ctx.prop + '.json'), 'w'), indent=1)


def main(argv):
    if len(argv) < 2:
        print(__doc__ if __doc__ else 'usage: check <Cxx> quick|thorough|--replay <path>')
        return 2
    prop = argv[0]
    replay = None
    tier = os.environ.get('VERIF_TIER') or 'quick'
    if argv[1] == '--replay':
        replay = argv[2]
    else:
        tier = argv[1]
    seed = int(os.environ.get('VERIF_SEED', '1') or '1')
    ctx = Ctx(prop, tier, seed)
    rc = 2
    try:
        mod = importlib.import_module('props.' + prop.lower())
        bt = build_harness()
        ctx.note('harness build %.1fs' % bt)
        if replay:
            mod.replay(ctx, replay)
        else:
            mod.run(ctx)
        level, rule, assumptions = mod.LEVEL, mod.RULE, mod.ASSUMPTIONS
        write_evidence(ctx, level, rule, assumptions)
        for fid, segs in sorted(ctx.fired_segments.items()):
            f = [x for x in ctx.findings.get('open', []) if x['id'] == fid][0]
            pid = prop if prop in f.get('properties', [prop]) else f.get('properties', [prop])[0]
            print('KNOWN-FINDING: property=%s %s [%s; %d segments, e.g. %s]' % (pid, f.get('what', fid), fid, len(segs), segs[0]))
        for d, where in sorted(ctx.fired.items()):
            f = ctx.open_devs.get(d, {})
            pid = prop if prop in f.get('properties', [prop]) else f.get('properties', [prop])[0]
            print('KNOWN-FINDING: property=%s %s [%s]' % (pid, f.get('what', d), d))
        if ctx.violations:
            for what, path in ctx.violations:
                print('VIOLATION property=%s replay=%s' % (prop, path))
                print('  ' + what)
            rc = 1
        else:
            print('OK property=%s tier=%s traces=%d events=%d model_states=%d wall=%.0fs' % (
                prop, tier, ctx.traces, ctx.events, ctx.mc_states, time.time() - ctx.t_start))
            rc = 0
    except ToolError as e:
        print('TOOL-ERROR: %s' % e)
        rc = 2
    except Exception:
        traceback.print_exc()
        print('TOOL-ERROR: internal error in check')
        rc = 2
    finally:
        ctx.cleanup()
    return rc
