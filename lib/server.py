"""Start / stop / control the real ferrous server (fvh serve) as a child process."""
import os
import socket
import subprocess
import time
import json
import signal

HERE = os.path.dirname(os.path.abspath(__file__))
VERIF = os.path.dirname(HERE)
FVH = os.environ.get('VERIF_FVH') or os.path.join(VERIF, 'harness', 'target', 'debug', 'fvh')      # VERIF_FVH: development aid (coverage-instrumented build)


def free_port():
    s = socket.socket()
    s.bind(('127.0.0.1', 0))
    p = s.getsockname()[1]
    s.close()
    return p


class Ctl:
    def __init__(self, port):
        self.s = socket.create_connection(('127.0.0.1', port), timeout=10)
        self.s.setsockopt(socket.IPPROTO_TCP, socket.TCP_NODELAY, 1)
        self.f = self.s.makefile('rb')

    def cmd(self, line):
        self.s.sendall(line.encode() + b'\n')
        return self.f.readline().decode().rstrip('\n')

    def drain(self):
        self.s.sendall(b'DRAIN\n')
        out = []
        while True:
            l = self.f.readline()
            if not l:
                raise IOError('control connection closed')
            l = l.rstrip(b'\n')
            if l == b'.':
                return out
            out.append(json.loads(l))

    def close(self):
        try:
            self.s.close()
        except Exception:
            pass


class Server:
    def __init__(self, workdir, password=None, appendonly=False, autosave=None, logon=False, extra=None, quiet=False, conf=None):
        self.conf = conf            # bytes of a configuration file the server is started from (read by ferrous' own parser)
        self.dir = workdir
        os.makedirs(workdir, exist_ok=True)
        self.password = password
        self.appendonly = appendonly
        self.autosave = autosave
        self.logon = logon
        self.extra = extra or []
        self.quiet = quiet          # output to /dev/null (a server whose file-size limit is lowered must not fail on its own log)
        self.proc = None
        self.port = None
        self.ctl_port = None
        self.ctl = None
        self.starts = 0

    def start(self):
        self.port = free_port()
        self.ctl_port = free_port()
        args = [FVH, 'serve', '--port', str(self.port), '--ctl', str(self.ctl_port), '--dir', self.dir]
        if self.password is not None:
            args += ['--requirepass', self.password]
        if self.conf is not None:
            cp = os.path.join(self.dir, 'fvh.conf')
            open(cp, 'wb').write(self.conf)
            args += ['--conf', cp]
        if self.appendonly:
            args += ['--appendonly']
        if self.autosave:
            args += ['--autosave', self.autosave]
        if self.logon:
            args += ['--logon']
        args += self.extra
        self.starts += 1
        self.log = open(os.path.join(self.dir, 'server.%d.log' % self.starts), 'wb')
        def pre():
            os.setsid()
            signal.signal(signal.SIGXFSZ, signal.SIG_IGN)      # a write beyond RLIMIT_FSIZE fails with EFBIG instead of killing the process
        self.proc = subprocess.Popen(args, stdout=subprocess.DEVNULL if self.quiet else self.log, stderr=subprocess.STDOUT, cwd=self.dir,
                                     preexec_fn=pre)
        deadline = time.time() + 20
        while time.time() < deadline:
            if self.proc.poll() is not None:
                raise RuntimeError('fvh serve exited at start with %s' % self.proc.returncode)
            try:
                s = socket.create_connection(('127.0.0.1', self.port), timeout=0.2)
                s.close()
                break
            except OSError:
                time.sleep(0.01)
        else:
            raise RuntimeError('server did not come up')
        self.ctl = Ctl(self.ctl_port)
        return self

    def alive(self):
        return self.proc is not None and self.proc.poll() is None

    def exit_status(self):
        return None if self.proc is None else self.proc.poll()

    def kill(self):
        if self.proc is not None and os.environ.get('VERIF_COV') and self.ctl and self.proc.poll() is None:
            try:                       # development aid: a coverage-instrumented build writes its profile on an orderly exit
                self.ctl.s.settimeout(2.0)
                self.ctl.s.sendall(b'EXIT\n')
                self.proc.wait(timeout=3)
            except Exception:
                pass
        if self.proc is not None:
            try:
                os.killpg(self.proc.pid, signal.SIGKILL)
            except Exception:
                pass
            try:
                self.proc.wait(timeout=5)
            except Exception:
                pass
        if self.ctl:
            self.ctl.close()
            self.ctl = None
        try:
            self.log.close()
        except Exception:
            pass

    stop = kill

    def restart(self):
        self.kill()
        return self.start()
