"""Recording sessions: drive the real server and write the ndjson trace the TLA+ trace spec reads."""
import json
import time
from client import Client
import resp


def jb(b):
    return list(b)


class Trace:
    def __init__(self, path):
        self.path = path
        self.f = open(path, 'w')
        self.n = 0
        self.t_base = time.monotonic()

    def now(self):
        return int((time.monotonic() - self.t_base) * 1000)

    def emit(self, ev):
        self.f.write(json.dumps(ev, separators=(',', ':')) + '\n')
        self.n += 1

    def close(self):
        self.f.close()


class ServerDied(Exception):
    pass


class Session:
    """Sequential recording: each call waits for its reply; events are in client order."""

    def __init__(self, server, trace, reply_timeout=5.0):
        self.server = server
        self.trace = trace
        self.clients = {}
        self.next_id = 1
        self.reply_timeout = reply_timeout
        self.pubsub_timeout = 0.5
        self.crashed = False
        self.subscribed = set()
        self.in_multi = {}
        self.deferred = []
        self.enrich = None      # optional function(ev) -> None called on every cmd event before it is written

    def reset(self):
        self.trace.emit({'k': 'reset'})

    def open(self):
        cid = self.next_id
        self.next_id += 1
        try:
            self.clients[cid] = Client(self.server.port)
        except OSError:
            time.sleep(0.2)
            if not self.server.alive():
                self.trace.emit({'k': 'crash', 'status': self.server.exit_status()})
                raise ServerDied()
            self.clients[cid] = Client(self.server.port)
        self.trace.emit({'k': 'open', 'c': cid})
        return cid

    def wait_loop(self, n=3, timeout=3.0):
        """Wait until the server's event loop has started n more iterations (hook H2)."""
        ctl = self.server.ctl
        if ctl is None or not self.server.alive():
            return False
        try:
            start = int(ctl.cmd('ITER'))
            deadline = time.monotonic() + timeout
            while time.monotonic() < deadline:
                if int(ctl.cmd('ITER')) >= start + n:
                    return True
                time.sleep(0.0005)
        except (OSError, ValueError):
            pass
        return False

    def close(self, cid):
        self.clients[cid].close()
        del self.clients[cid]
        self.trace.emit({'k': 'close', 'c': cid})
        if self.wait_loop(3):
            self.trace.emit({'k': 'gone', 'c': cid})

    def close_all(self):
        for cid in list(self.clients):
            self.close(cid)

    # -- pub/sub aware reading ---------------------------------------------
    @staticmethod
    def is_push(r):
        return (r[0] == 'arr' and len(r[1]) >= 3 and r[1][0][0] == 'bulk'
                and r[1][0][1] in (b'message', b'pmessage'))

    def poll(self, cid, quiet=0.004):
        """Read unsolicited frames from cid until the socket stays quiet; they become push events."""
        cl = self.clients.get(cid)
        n = 0
        while cl is not None:
            r = cl.recv(quiet)
            if r[0] in ('none', 'closed'):
                break
            self.trace.emit({'k': 'push', 'c': cid, 'frame': resp.to_json(r)})
            n += 1
        return n

    def poll_all(self, quiet=0.004):
        for cid in sorted(self.subscribed):
            if cid in self.clients:
                self.poll(cid, quiet)

    def quiesce(self, wait=0.15):
        self.poll_all(wait)
        self.trace.emit({'k': 'quiesce'})

    def _recv_reply(self, cid, cl, timeout):
        """One reply frame for a request of cid; push frames read on the way are emitted first."""
        while True:
            r = cl.recv(timeout)
            if cid in self.subscribed and self.is_push(r):
                # read before the reply (e.g. a client publishing to itself): recorded after the request
                self.deferred.append({'k': 'push', 'c': cid, 'frame': resp.to_json(r)})
                continue
            return r

    def cmd(self, cid, argv, timeout=None):
        cl = self.clients[cid]
        name = argv[0].upper() if argv else b''
        if name in (b'SUBSCRIBE', b'PSUBSCRIBE', b'UNSUBSCRIBE', b'PUNSUBSCRIBE') and not self.in_multi.get(cid):
            return self.cmd_pubsub(cid, argv, name)
        if name == b'MULTI':
            self.in_multi[cid] = True
        elif name in (b'EXEC', b'DISCARD'):
            self.in_multi[cid] = False
        t0 = self.trace.now()
        if not cl.send(argv):
            r = ('closed',)
        else:
            r = self._recv_reply(cid, cl, timeout if timeout is not None else self.reply_timeout)
        t1 = self.trace.now() + 1
        ev = {'k': 'cmd', 'c': cid, 'argv': [jb(a) for a in argv], 'r': resp.to_json(r), 't0': t0, 't1': t1}
        if self.enrich:
            self.enrich(ev)
        self.trace.emit(ev)
        for ev in self.deferred:
            self.trace.emit(ev)
        self.deferred = []
        if r[0] == 'closed':
            # the server dropped the connection: record it so the spec forgets the connection
            self.trace.emit({'k': 'dropped', 'c': cid})
            cl.close()
            del self.clients[cid]
        return r

    def cmd_pubsub(self, cid, argv, name):
        """(P)(UN)SUBSCRIBE are answered by one frame per name (or per current subscription)."""
        cl = self.clients[cid]
        self.subscribed.add(cid)
        t0 = self.trace.now()
        frames = []
        closed = False
        if not cl.send(argv):
            closed = True
        else:
            want = len(argv) - 1 if len(argv) > 1 else None
            while True:
                first = not frames
                r = cl.recv(self.pubsub_timeout if (first or want) else 0.03)
                if r[0] == 'closed':
                    closed = True
                    break
                if r[0] == 'none':
                    break
                if self.is_push(r):
                    self.deferred.append({'k': 'push', 'c': cid, 'frame': resp.to_json(r)})
                    continue
                frames.append(r)
                if r[0] == 'err':
                    break
                if want is not None and len(frames) >= want:
                    break
        t1 = self.trace.now() + 1
        if len(frames) == 1 and frames[0][0] == 'err':
            rj = resp.to_json(frames[0])
        elif not frames:
            rj = {'t': 'closed'} if closed else {'t': 'none'}
        else:
            rj = {'t': 'multi', 'v': [resp.to_json(f) for f in frames]}
        self.trace.emit({'k': 'cmd', 'c': cid, 'argv': [jb(a) for a in argv], 'r': rj, 't0': t0, 't1': t1})
        for ev in self.deferred:
            self.trace.emit(ev)
        self.deferred = []
        if closed:
            self.trace.emit({'k': 'dropped', 'c': cid})
            cl.close()
            del self.clients[cid]
        return frames

    def note(self, text):
        self.trace.emit({'k': 'note', 'text': text})
