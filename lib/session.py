"""Recording sessions: drive the real server and write the ndjson trace the TLA+ trace spec reads."""
import json
import time
from client import Client
import resp


def jb(b):
    return list(b)


class Trace:
    def __init__(self, path):
        self.path = path
        self.f = open(path, 'w')
        self.n = 0
        self.t_base = time.monotonic()

    def now(self):
        return int((time.monotonic() - self.t_base) * 1000)

    def emit(self, ev):
        self.f.write(json.dumps(ev, separators=(',', ':')) + '\n')
        self.n += 1

    def close(self):
        self.f.close()


class ServerDied(Exception):
    pass


class Session:
    """Sequential recording: each call waits for its reply; events are in client order."""

    def __init__(self, server, trace, reply_timeout=5.0):
        self.server = server
        self.trace = trace
        self.clients = {}
        self.next_id = 1
        self.reply_timeout = reply_timeout
        self.crashed = False

    def reset(self):
        self.trace.emit({'k': 'reset'})

    def open(self):
        cid = self.next_id
        self.next_id += 1
        try:
            self.clients[cid] = Client(self.server.port)
        except OSError:
            time.sleep(0.2)
            if not self.server.alive():
                self.trace.emit({'k': 'crash', 'status': self.server.exit_status()})
                raise ServerDied()
            self.clients[cid] = Client(self.server.port)
        self.trace.emit({'k': 'open', 'c': cid})
        return cid

    def close(self, cid):
        self.clients[cid].close()
        del self.clients[cid]
        self.trace.emit({'k': 'close', 'c': cid})

    def close_all(self):
        for cid in list(self.clients):
            self.close(cid)

    def cmd(self, cid, argv, timeout=None):
        cl = self.clients[cid]
        t0 = self.trace.now()
        r = cl.call(argv, timeout if timeout is not None else self.reply_timeout)
        t1 = self.trace.now() + 1
        self.trace.emit({'k': 'cmd', 'c': cid, 'argv': [jb(a) for a in argv], 'r': resp.to_json(r),
                         't0': t0, 't1': t1})
        if r[0] == 'closed':
            # the server dropped the connection: record it so the spec forgets the connection
            self.trace.emit({'k': 'dropped', 'c': cid})
            cl.close()
            del self.clients[cid]
        return r

    def note(self, text):
        self.trace.emit({'k': 'note', 'text': text})
