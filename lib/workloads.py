"""Workload drivers: replay of TLC-generated paths, seeded random histories, dumps, replays."""
import json
import os
import time

from session import Session, Trace, ServerDied
import resp

I64MAX = b'9223372036854775807'
I64MIN = b'-9223372036854775808'

CHUNK = 25000


def casefuzz(rnd, a, p=0.12):
    """Command names are case-insensitive: now and then send the name in lower or mixed case."""
    if not isinstance(a, list) or not a or rnd.random() >= p:
        return a
    n = a[0]
    k = rnd.randrange(3)
    n2 = n.lower() if k == 0 else (n[:1].upper() + n[1:].lower() if k == 1 else bytes(
        (c ^ 0x20) if (65 <= (c & ~0x20) <= 90 and rnd.random() < 0.5) else c for c in n))
    return [n2] + list(a[1:])


def glob_matrix(quick):
    """(patterns, subjects) for the glob matchers: every pattern over {a, b, *, ?} up to a length, character classes,
    escapes and the overlapping false starts behind a star; every subject over {a, b} up to a length."""
    import itertools
    pl, sl = (3, 4) if quick else (4, 5)
    pats = [''.join(t).encode() for n in range(1, pl + 1) for t in itertools.product('ab*?', repeat=n)]
    pats += [b'*aab', b'*ab*', b'*a*b', b'a*b*a', b'**a', b'*?b', b'?*?', b'[ab]*', b'*[ab]', b'[^a]*', b'*[a-b]b', b'a[b]', b'\\*a',
             b'a\\*', b'[\\a]*', b'*[\\b]', b'[a\\]b]*', b'*abab', b'*ba*ab', b'a*a*a', b'*aa*aa', b'[ab]b', b'a[^b]', b'*-done', b'*.a.b']
    subs = [''.join(t).encode() for n in range(1, sl + 1) for t in itertools.product('ab', repeat=n)]
    subs += [b'aaab', b'ababab', b'babab', b'aabaab', b'*a', b'a*', b'job--done', b'job-done', b'x.a.a.b', b'aaaaab', b'abaabaab']
    return pats, subs


def fresh_session(ctx, srv, label):
    tr = ctx.new_trace(label)
    s = Session(srv, tr)
    s.reset_marker = True
    return s


def ensure_conn(s, cid):
    if cid in s.clients:
        return cid
    return s.open()


def check_alive(ctx, s, srv):
    """If the server process died, record it (the spec has no action for a crash => rejection)."""
    if not srv.alive():
        s.trace.emit({'k': 'crash', 'status': srv.exit_status()})
        return False
    return True


def dump_db(s, cid):
    """Canonical read-out of the selected database through ordinary (spec'd) commands."""
    r = s.cmd(cid, [b'KEYS', b'*'])
    if r[0] != 'arr':
        return
    for kr in sorted(x[1] for x in r[1] if x[0] == 'bulk'):
        if cid not in s.clients:
            return
        t = s.cmd(cid, [b'TYPE', kr])
        if cid not in s.clients:
            return
        ty = t[1] if t[0] == 'st' else b''
        if ty == b'string':
            s.cmd(cid, [b'GET', kr])
        elif ty == b'list':
            s.cmd(cid, [b'LRANGE', kr, b'0', b'-1'])
        elif ty == b'set':
            s.cmd(cid, [b'SMEMBERS', kr])
        elif ty == b'hash':
            s.cmd(cid, [b'HGETALL', kr])
        elif ty == b'zset':
            s.cmd(cid, [b'ZRANGE', kr, b'0', b'-1', b'WITHSCORES'])
        elif ty == b'stream':
            s.cmd(cid, [b'XRANGE', kr, b'-', b'+'])
        if cid in s.clients:
            s.cmd(cid, [b'PTTL', kr])


def replay_paths(ctx, srv, paths, label='gen', pre=None, dump_every=0):
    """Each path is a list of argvs, run after FLUSHALL on one connection; traces are cut into chunks."""
    i = 0
    ok = True
    while i < len(paths) and ok:
        s = fresh_session(ctx, srv, label)
        cid = s.open()
        s.cmd(cid, [b'FLUSHALL'])
        try:
            while i < len(paths) and s.trace.n < CHUNK:
                cid = ensure_conn(s, cid)
                s.cmd(cid, [b'FLUSHALL'])
                if pre:
                    for a in pre:
                        s.cmd(cid, a)
                for a in paths[i]:
                    cid = ensure_conn(s, cid)
                    s.cmd(cid, casefuzz(ctx.rnd, a))
                i += 1
                if dump_every and i % dump_every == 0:
                    cid = ensure_conn(s, cid)
                    dump_db(s, cid)
        except ServerDied:
            ok = False
        s.close_all()
        if not ctx.validate(s.trace, label='%s[..%d]' % (label, i)):
            ok = False
        if not srv.alive():
            srv.restart()
    return ok


def random_history(ctx, srv, g, n, label='rand', dbs=(0,)):
    s = fresh_session(ctx, srv, label)
    cid = s.open()
    s.cmd(cid, [b'FLUSHALL'])
    try:
        for j in range(n):
            cid = ensure_conn(s, cid)
            a = g.next()
            if isinstance(a, tuple) and a[0] == 'sleep':
                time.sleep(a[1] / 1000.0)
                continue
            s.cmd(cid, casefuzz(ctx.rnd, a))
        cid = ensure_conn(s, cid)
        for d in dbs:
            if len(dbs) > 1 or d != 0:
                s.cmd(cid, [b'SELECT', str(d).encode()])
            dump_db(s, cid)
    except ServerDied:
        pass
    s.close_all()
    ok = ctx.validate(s.trace, label=label)
    if not srv.alive():
        srv.restart()
    return ok


def set_algebra_history(ctx, srv, label='setalg'):
    """SUNION / SINTER / SDIFF over every sequence of up to three keys (four in the thorough tier) drawn from: a set, a set
    disjoint from it, a set overlapping it, a subset of it, a missing key, a key of another type — including the same key
    several times.  The running result being empty, or a key missing, must not hide a wrong-typed key behind it."""
    import itertools
    kinds = [b'sa', b'sdis', b'sover', b'ssub', b'nokey', b'str', b'lst']
    setup = [[b'SADD', b'sa', b'a', b'b', b'c'], [b'SADD', b'sdis', b'x', b'y'], [b'SADD', b'sover', b'b', b'c', b'd'], [b'SADD', b'ssub', b'a'],
             [b'SET', b'str', b'v'], [b'RPUSH', b'lst', b'a']]
    s = fresh_session(ctx, srv, label)
    n = 0
    try:
        cid = s.open()
        s.cmd(cid, [b'FLUSHALL'])
        for a in setup:
            s.cmd(cid, a)
        for length in ((1, 2, 3) if ctx.quick else (1, 2, 3, 4)):
            for combo in itertools.product(kinds, repeat=length):
                if length == 4 and (combo.count(b'str') + combo.count(b'lst') + combo.count(b'nokey')) == 0:
                    continue
                for cmd in (b'SINTER', b'SUNION', b'SDIFF'):
                    cid = ensure_conn(s, cid)
                    s.cmd(cid, casefuzz(ctx.rnd, [cmd] + list(combo)))
                    n += 1
        cid = ensure_conn(s, cid)
        dump_db(s, cid)
    except ServerDied:
        pass
    s.close_all()
    ctx.validate(s.trace, label=label)
    if not srv.alive():
        srv.restart()
    return n


def lifecycle_history(ctx, srv, label='lifecycles', zsets=False):
    """A key's successive lives: a collection is created and read through EVERY read command (whatever a read may leave behind in
    a cache or an index), ceases to exist in every way a key can (its last elements removed by each removing command, DEL, a
    deadline, RENAME away, overwritten, FLUSHDB), is read again, is created again under the same name with OTHER content — also
    as another type — and read again: nothing of an earlier life may show in a later one."""
    import time as _t
    K = b'life'
    kinds = {
        'list': dict(mk=[[b'RPUSH', K, b'a', b'a', b'b']], mk2=[[b'LPUSH', K, b'x', b'y']],
                     reads=[[b'LRANGE', K, b'0', b'-1'], [b'LLEN', K], [b'LINDEX', K, b'0'], [b'LINDEX', K, b'-1'], [b'LRANGE', K, b'1', b'5']],
                     ends=[[[b'LPOP', K]] * 3, [[b'RPOP', K]] * 3, [[b'LTRIM', K, b'1', b'0']], [[b'LREM', K, b'0', b'a'], [b'LREM', K, b'1', b'b']]]),
        'set': dict(mk=[[b'SADD', K, b'a', b'b', b'c']], mk2=[[b'SADD', K, b'x', b'y']],
                    reads=[[b'SRANDMEMBER', K], [b'SRANDMEMBER', K, b'2'], [b'SRANDMEMBER', K, b'-4'], [b'SMEMBERS', K], [b'SCARD', K], [b'SISMEMBER', K, b'a'],
                           [b'SISMEMBER', K, b'x'], [b'SUNION', K], [b'SINTER', K, K], [b'SDIFF', K, b'nokey'], [b'SSCAN', K, b'0']],
                    ends=[[[b'SREM', K, b'a', b'b', b'c']], [[b'SREM', K, b'a'], [b'SREM', K, b'c', b'b']], [[b'SPOP', K, b'3']], [[b'SPOP', K]] * 3]),
        'hash': dict(mk=[[b'HSET', K, b'f', b'1', b'g', b'2']], mk2=[[b'HSET', K, b'x', b'9']],
                     reads=[[b'HGETALL', K], [b'HLEN', K], [b'HGET', K, b'f'], [b'HGET', K, b'x'], [b'HKEYS', K], [b'HVALS', K], [b'HEXISTS', K, b'f'], [b'HMGET', K, b'f', b'x'],
                            [b'HSCAN', K, b'0']],
                     ends=[[[b'HDEL', K, b'f', b'g']], [[b'HDEL', K, b'g'], [b'HDEL', K, b'f']]]),
        'zset': dict(mk=[[b'ZADD', K, b'1', b'a', b'2', b'b']], mk2=[[b'ZADD', K, b'5', b'x', b'1', b'y']],
                     reads=[[b'ZRANGE', K, b'0', b'-1', b'WITHSCORES'], [b'ZCARD', K], [b'ZSCORE', K, b'a'], [b'ZSCORE', K, b'x'], [b'ZRANK', K, b'b'], [b'ZREVRANK', K, b'y'],
                            [b'ZCOUNT', K, b'-inf', b'+inf'], [b'ZRANGEBYSCORE', K, b'0', b'9'], [b'ZREVRANGE', K, b'0', b'0'], [b'ZSCAN', K, b'0']],
                     ends=[[[b'ZREM', K, b'a', b'b']], [[b'ZPOPMIN', K, b'2']], [[b'ZPOPMAX', K], [b'ZPOPMIN', K]]]),
    }
    common = [[[b'DEL', K]], [[b'PEXPIRE', K, b'40'], 'sleep'], [[b'RENAME', K, b'elsewhere']], [[b'SET', K, b'v'], [b'DEL', K]], [[b'FLUSHDB']], [[b'PEXPIRE', K, b'0']],
              [[b'RENAME', K, b'elsewhere'], [b'RENAME', b'elsewhere', K], [b'DEL', K]]]
    types = ['zset'] if zsets else ['list', 'set', 'hash']
    s = fresh_session(ctx, srv, label)
    n = 0
    try:
        cid = s.open()
        for ty in types:
            k = kinds[ty]
            others = [kinds[o]['mk2'] for o in kinds if o != ty]
            for ei, end in enumerate(k['ends'] + common):
                for again in ([k['mk2']] + ([others[(ei + ctx.seed) % len(others)]] if ctx.quick else others)):
                    cid = ensure_conn(s, cid)
                    s.cmd(cid, [b'FLUSHALL'])
                    s.cmd(cid, [b'SET', b'bystander', b'1'])
                    for a in k['mk'] + k['reads']:
                        s.cmd(cid, a)
                    for a in end:
                        if a == 'sleep':
                            _t.sleep(0.06)
                        else:
                            s.cmd(cid, a)
                    for a in [[b'EXISTS', K], [b'TYPE', K]] + k['reads'] + again + [[b'TYPE', K]] + k['reads']:
                        s.cmd(cid, a)
                    for o in kinds:
                        if again == kinds[o]['mk2'] and o != ty:
                            for a in kinds[o]['reads']:
                                s.cmd(cid, a)
                    n += 1
        cid = ensure_conn(s, cid)
        dump_db(s, cid)
    except ServerDied:
        pass
    s.close_all()
    ctx.validate(s.trace, label=label)
    if not srv.alive():
        srv.restart()
    return n


def list_shape_history(ctx, srv, label='listshapes'):
    """Commands whose result depends on WHERE equal elements sit: LREM with every count from -3 to 3 (and far beyond) on every
    list over {x, y} up to length 5 (adjacent repetitions, runs at either end, no occurrence at all), LRANGE / LINDEX / LSET /
    LTRIM index forms on the survivors, LPOP / RPOP until the key goes away."""
    import itertools
    s = fresh_session(ctx, srv, label)
    n = 0
    try:
        cid = s.open()
        s.cmd(cid, [b'FLUSHALL'])
        maxlen = 4 if ctx.quick else 5
        for length in range(1, maxlen + 1):
            for shape in itertools.product([b'x', b'y'], repeat=length):
                for count in (1, 2, 3, -1, -2, -3, 0, 9, -9):
                    if ctx.quick and length == maxlen and count in (9, -9, 3, -3) and (n % 2):
                        n += 1
                        continue
                    cid = ensure_conn(s, cid)
                    s.cmd(cid, [b'DEL', b'L'])
                    s.cmd(cid, [b'RPUSH', b'L'] + list(shape))
                    s.cmd(cid, [b'LREM', b'L', str(count).encode(), b'x'])
                    s.cmd(cid, [b'LRANGE', b'L', b'0', b'-1'])
                    s.cmd(cid, [b'EXISTS', b'L'])
                    n += 1
        cid = ensure_conn(s, cid)
        dump_db(s, cid)
    except ServerDied:
        pass
    s.close_all()
    ctx.validate(s.trace, label=label)
    if not srv.alive():
        srv.restart()
    return n


LOOSE = [b'+%d', b'00%d', b'-0']          # written forms Redis' string2ll refuses; %d is filled with the intended value


def loose(n, rnd):
    """A non-canonical decimal spelling of the integer n ('+5', '007', '-0' for 0, '-007')."""
    if n == 0:
        return rnd.choice([b'-0', b'00', b'+0'])
    if n < 0:
        return b'-00%d' % -n
    return rnd.choice([b'+%d' % n, b'00%d' % n])


def lenient_int_history(ctx, srv, family, label='lenient'):
    """Directed history: every integer position of the family's commands (and the stored values the INCR family reads)
    written in a spelling the reference refuses ('+5', '007', '-0').  Reference: error reply, nothing changes."""
    rnd = ctx.rnd
    L = lambda n: loose(n, rnd)
    B = lambda *a: [x if isinstance(x, bytes) else str(x).encode() for x in a]
    cmds = []
    if family == 'strings':
        cmds += [B('SET', 'n', '10'), B('INCRBY', 'n', L(5)), B('GET', 'n'), B('DECRBY', 'n', L(3)), B('GET', 'n'),
                 B('INCRBY', 'n', L(0)), B('INCRBY', 'n', L(-7)), B('GET', 'n'),
                 B('SET', 'z', L(7)), B('INCR', 'z'), B('GET', 'z'), B('SET', 'z', L(0)), B('DECR', 'z'), B('GET', 'z'),
                 B('SET', 'z', L(-4)), B('INCRBY', 'z', '1'), B('GET', 'z'), B('SET', 'z', L(9)), B('DECRBY', 'z', L(2)), B('GET', 'z'),
                 B('SET', 's', 'abcdef'), B('GETRANGE', 's', L(1), '3'), B('GETRANGE', 's', '0', L(-2)), B('GETRANGE', 's', L(0), L(2)),
                 B('SETRANGE', 's', L(1), 'ZZ'), B('GET', 's'), B('SETRANGE', 'new', L(0), 'ab'), B('EXISTS', 'new'),
                 B('SET', 'e', 'v', 'EX', L(100)), B('TTL', 'e'), B('SET', 'e2', 'v', 'PX', L(100000)), B('TTL', 'e2'), B('EXISTS', 'e2'),
                 B('SETEX', 'e3', L(100), 'v'), B('EXISTS', 'e3'), B('PSETEX', 'e4', L(100000), 'v'), B('EXISTS', 'e4'),
                 B('SET', 'p', 'v'), B('EXPIRE', 'p', L(100)), B('TTL', 'p'), B('PEXPIRE', 'p', L(100000)), B('TTL', 'p'),
                 B('EXPIRE', 'p', L(0)), B('EXISTS', 'p'),
                 B('SELECT', L(1)), B('SET', 'where', 'x'), B('SELECT', '0'), B('EXISTS', 'where'), B('SELECT', '1'), B('EXISTS', 'where'),
                 B('SELECT', '0')]
    elif family == 'colls':
        cmds += [B('RPUSH', 'l', 'a', 'b', 'c', 'b', 'a'), B('LRANGE', 'l', L(0), '-1'), B('LRANGE', 'l', '0', L(-2)), B('LINDEX', 'l', L(1)),
                 B('LINDEX', 'l', L(-1)), B('LSET', 'l', L(1), 'X'), B('LRANGE', 'l', '0', '-1'), B('LREM', 'l', L(1), 'a'),
                 B('LRANGE', 'l', '0', '-1'), B('LREM', 'l', L(-1), 'b'), B('LRANGE', 'l', '0', '-1'), B('LREM', 'l', L(0), 'c'),
                 B('LRANGE', 'l', '0', '-1'), B('RPUSH', 'l', 'p', 'q', 'r'), B('LTRIM', 'l', L(1), '-1'), B('LRANGE', 'l', '0', '-1'),
                 B('LTRIM', 'l', '0', L(-2)), B('LRANGE', 'l', '0', '-1'),
                 B('SADD', 's', 'a', 'b', 'c', 'd'), B('SRANDMEMBER', 's', L(2)), B('SRANDMEMBER', 's', L(-2)), B('SRANDMEMBER', 's', L(0)),
                 B('SPOP', 's', L(1)), B('SCARD', 's'), B('SPOP', 's', L(0)), B('SCARD', 's'),
                 B('HSET', 'h', 'f', '10', 'g', L(7)), B('HINCRBY', 'h', 'f', L(5)), B('HGET', 'h', 'f'), B('HINCRBY', 'h', 'f', L(-3)),
                 B('HGET', 'h', 'f'), B('HINCRBY', 'h', 'g', '1'), B('HGET', 'h', 'g'), B('HINCRBY', 'h', 'g', L(0)), B('HGET', 'h', 'g'),
                 B('HINCRBY', 'h', 'new', L(4)), B('HGET', 'h', 'new')]
    elif family == 'zsets':
        cmds += [B('ZADD', 'z', '1', 'a', '2', 'b', '3', 'c', '4', 'd'), B('ZRANGE', 'z', L(0), '-1'), B('ZRANGE', 'z', '0', L(-2)),
                 B('ZREVRANGE', 'z', L(1), L(2)), B('ZRANGE', 'z', L(0), L(1), 'WITHSCORES'),
                 B('ZPOPMIN', 'z', L(1)), B('ZCARD', 'z'), B('ZPOPMAX', 'z', L(2)), B('ZCARD', 'z'), B('ZPOPMIN', 'z', L(0)), B('ZCARD', 'z')]
    s = fresh_session(ctx, srv, label)
    try:
        cid = s.open()
        s.cmd(cid, [b'FLUSHALL'])
        for a in cmds:
            cid = ensure_conn(s, cid)
            s.cmd(cid, a)
        cid = ensure_conn(s, cid)
        dump_db(s, cid)
        s.cmd(cid, [b'SELECT', b'1'])
        dump_db(s, cid)
    except ServerDied:
        pass
    s.close_all()
    ok = ctx.validate(s.trace, label=label)
    if not srv.alive():
        srv.restart()
    return ok


def replay_file(ctx, path):
    """Re-run a stored violation (its recorded trace is the scenario) on the current tree."""
    info = json.load(open(path)) if path.endswith('.json') else {'trace': path}
    tpath = info.get('trace')
    if not tpath or not os.path.exists(tpath):
        raise RuntimeError('replay file has no trace')
    evs = [json.loads(l) for l in open(tpath)]
    srv = ctx.new_server()
    tr = ctx.new_trace('replay')
    s = Session(srv, tr)
    cmap = {}
    t_first = None
    t_wall = time.monotonic()
    for ev in evs:
        k = ev.get('k')
        if k == 'open':
            cmap[ev['c']] = s.open()
        elif k == 'close':
            if cmap.get(ev['c']) in s.clients:
                s.close(cmap[ev['c']])
        elif k == 'cmd':
            c = cmap.get(ev['c'])
            if c not in s.clients:
                c = s.open()
                cmap[ev['c']] = c
            if t_first is None:
                t_first = ev['t0']
            # keep the original pacing (matters for expiry)
            due = t_wall + (ev['t0'] - t_first) / 1000.0
            dt = due - time.monotonic()
            if dt > 0:
                time.sleep(min(dt, 5.0))
            s.cmd(c, [bytes(a) for a in ev['argv']])
        if not srv.alive():
            tr.emit({'k': 'crash', 'status': srv.exit_status()})
            break
    s.close_all()
    ctx.validate(tr, label='replay')


# ---------------------------------------------------------------------------
# random command generators
# ---------------------------------------------------------------------------
class Pool:
    def __init__(self, rnd):
        self.rnd = rnd
        self.keys = [b'k1', b'k2', b'key:3', b'\xff\x00bin', b'a b', b'k\r\nx', b'K1', b'kk', b'{t}1', b'z' * 40, b'']
        self.vals = [b'', b'a', b'10', b'-1', b'0', I64MAX, I64MIN, b'9223372036854775806', b'hello world',
                     b'\r\n', b'\x00\x01\xfe\xff', b'1.5', b' 1', b'1 ', b'abc' * 30, b'-', b'12345678901234567890123']
        self.ints = [b'0', b'1', b'-1', b'2', b'-2', b'3', b'5', b'-5', b'10', b'-10', b'100', I64MAX, I64MIN,
                     b'9223372036854775806', b'-9223372036854775807', b'x', b'', b'1.0', b'1e3', b' 1',
                     b'99999999999999999999']

    def key(self):
        return self.rnd.choice(self.keys)

    def val(self):
        if self.rnd.random() < 0.15:
            return bytes(self.rnd.randrange(256) for _ in range(self.rnd.randrange(0, 12)))
        return self.rnd.choice(self.vals)

    def int(self):
        return self.rnd.choice(self.ints)

    def small(self):
        return str(self.rnd.randrange(-8, 9)).encode()


class StringsGen(Pool):
    """C01 traffic: strings + generic key commands (no TTL expiry within the run: long TTLs only)."""

    def next(self):
        r = self.rnd
        k, v = self.key(), self.val()
        c = r.randrange(40)
        if c == 0: return [b'SET', k, v]
        if c == 1: return [b'GET', k]
        if c == 2: return [b'APPEND', k, v]
        if c == 3: return [r.choice([b'INCR', b'DECR']), k]
        if c == 4: return [r.choice([b'INCRBY', b'DECRBY']), k, self.int()]
        if c == 5: return [b'STRLEN', k]
        if c == 6: return [b'DEL', k] + [self.key() for _ in range(r.randrange(3))]
        if c == 7: return [b'EXISTS', k] + [self.key() for _ in range(r.randrange(3))]
        if c == 8: return [b'TYPE', k]
        if c == 9: return [b'GETRANGE', k, self.small(), self.small()]
        if c == 10: return [b'SETRANGE', k, str(r.randrange(0, 12)).encode(), v if v else b'x']
        if c == 11: return [b'KEYS', r.choice([b'*', b'k*', b'?1', b'k?', b'*1', b'[kK]1', b'k[0-9]', b'*\xff*', b'nomatch', k])]
        if c == 12: return [b'DBSIZE']
        if c == 13: return [b'MSET'] + [x for _ in range(r.randrange(1, 4)) for x in (self.key(), self.val())]
        if c == 14: return [b'MGET'] + [self.key() for _ in range(r.randrange(1, 4))]
        if c == 15: return [b'RENAME', k, self.key()]
        if c == 16: return [b'RENAMENX', k, self.key()]
        if c == 17: return [b'SETNX', k, v]
        if c == 18: return [b'GETSET', k, v]
        if c == 19: return [r.choice([b'SET', b'set', b'Set']), k, v, r.choice([b'NX', b'nx', b'XX', b'xx'])]
        if c == 20: return [b'RANDOMKEY']
        if c == 21: return [b'SET', k, v, r.choice([b'EX', b'ex', b'PX']), r.choice([b'100000', b'0', b'-1', b'abc', b'1000000'])]
        if c == 22: return [b'SETEX', k, r.choice([b'1000', b'0', b'-5', b'x']), v]
        if c == 23: return [b'PSETEX', k, r.choice([b'1000000', b'0', b'x']), v]
        if c == 24: return [b'EXPIRE', k, r.choice([b'1000', b'100000', b'x'])]
        if c == 25: return [b'TTL', k]
        if c == 26: return [b'PTTL', k]
        if c == 27: return [b'PERSIST', k]
        if c == 28: return [b'PEXPIRE', k, r.choice([b'10000000', b'abc', b'-1', b'0'])]
        if c == 29: return [b'SET', k, v, b'NX', b'XX']
        if c == 30: return [b'SET', k, v, b'EX']
        if c == 31: return [r.choice([b'GET', b'SET', b'APPEND', b'INCRBY', b'RENAME', b'MSET', b'GETRANGE'])] + [self.key() for _ in range(r.choice([0, 3, 4]))]
        if c == 32: return [b'FLUSHDB'] if r.random() < 0.2 else [b'GET', k]
        if c == 33: return [r.choice([b'NOSUCHCMD', b'get\xff', b''])] + [k]
        if c == 34: return [b'EXPIRE', k, r.choice([b'0', b'-1'])]
        return [b'SET', k, v]


# ---------------------------------------------------------------------------
# multi-connection paths (TLC-generated <<conn, argv>> sequences), sequential replay
# ---------------------------------------------------------------------------
def replay_conn_paths(ctx, srv, paths, label='gen', password=None, header=None, dump_dbs=None):
    i = 0
    ok = True
    while i < len(paths) and ok:
        s = fresh_session(ctx, srv, label)
        for ev in (header or []):
            s.trace.emit(ev)
        try:
            while i < len(paths) and s.trace.n < CHUNK:
                admin = s.open()
                if password:
                    s.cmd(admin, [b'AUTH', password])
                s.cmd(admin, [b'FLUSHALL'])
                s.close(admin)
                cmap = {}
                for c, a in paths[i]:
                    if c not in cmap or cmap[c] not in s.clients:
                        cmap[c] = s.open()
                    s.cmd(cmap[c], casefuzz(ctx.rnd, a))
                for c in list(cmap.values()):
                    if c in s.clients:
                        s.close(c)
                if dump_dbs:
                    admin = s.open()
                    for d in dump_dbs:
                        s.cmd(admin, [b'SELECT', str(d).encode()])
                        dump_db(s, admin)
                    s.close(admin)
                i += 1
        except ServerDied:
            ok = False
        s.close_all()
        if not ctx.validate(s.trace, label='%s[..%d]' % (label, i)):
            ok = False
        if not srv.alive():
            srv.restart()
    return ok


def txn_script(rnd, ci, nsteps, accounts, shared, evalheavy=False):
    """Steps for one client of the concurrent C07/C08 workload."""
    steps = []
    def acct():
        return rnd.choice(accounts)
    import luadsl as L
    def eval_step(prog, keys, args):
        src = L.render(prog)
        return ('eval', [b'EVAL', src, str(len(keys)).encode()] + keys + args,
                {'prog': L.clean(prog), 'sha': list(L.sha1hex(src))})
    for _ in range(nsteps):
        c = rnd.randrange(14)
        if evalheavy and rnd.random() < 0.5:
            c = rnd.choice([12, 13])
        if c == 12:     # the transfer as a script: both halves and the read-back are one step for everybody else
            a, b = acct(), acct()
            x = str(rnd.randrange(1, 9)).encode()
            steps.append(eval_step([L.call([L.arg_lit(b'DECRBY'), L.arg_key(1), L.arg_arg(1)]),
                                    L.call([L.arg_lit(b'INCRBY'), L.arg_key(2), L.arg_arg(1)]),
                                    L.call([L.arg_lit(b'MGET'), L.arg_key(1), L.arg_key(2)], ret=1)], [a, b], [x]))
        elif c == 13:   # a script whose second call fails: the first effect stays, the rest does not run
            a = acct()
            steps.append(eval_step([L.call([L.arg_lit(b'INCR'), L.arg_key(1)]),
                                    L.call([L.arg_lit(b'INCRBY'), L.arg_key(2), L.arg_lit(b'notanint')], pcall=rnd.random() < 0.5),
                                    L.call([L.arg_lit(b'INCR'), L.arg_key(2)], ret=1)], [a, shared], []))
        elif c <= 2:      # transfer inside MULTI/EXEC, sent as separate requests
            a, b = acct(), acct()
            x = str(rnd.randrange(1, 9)).encode()
            steps += [('cmd', [b'MULTI']), ('cmd', [b'DECRBY', a, x]), ('cmd', [b'INCRBY', b, x]), ('cmd', [b'EXEC'])]
        elif c == 3:    # the same, pipelined in one write
            a, b = acct(), acct()
            x = str(rnd.randrange(1, 9)).encode()
            steps.append(('pipe', [[b'MULTI'], [b'DECRBY', a, x], [b'INCRBY', b, x], [b'EXEC']]))
        elif c == 4:
            steps.append(('cmd', [b'MGET'] + accounts))
        elif c == 5:    # optimistic update with WATCH
            k = acct()
            steps += [('cmd', [b'WATCH', k]), ('cmd', [b'GET', k]), ('cmd', [b'MULTI']),
                      ('cmd', [b'INCRBY', k, b'100']), ('cmd', [b'EXEC'])]
        elif c == 6:    # a failing command inside a transaction does not stop the others
            steps += [('cmd', [b'MULTI']), ('cmd', [b'INCR', acct()]), ('cmd', [b'LPUSH', acct(), b'x']),
                      ('cmd', [b'INCRBY', shared, b'notanint']), ('cmd', [b'INCR', shared]), ('cmd', [b'EXEC'])]
        elif c == 7:
            steps += [('cmd', [b'MULTI']), ('cmd', [b'SET', acct(), b'0']), ('cmd', [b'DISCARD'])]
        elif c == 8:
            steps.append(('pipe', [[b'INCR', shared], [b'GET', shared], [b'INCRBY', acct(), b'1'], [b'MGET'] + accounts]))
        elif c == 9:
            steps.append(('cmd', [b'INCR', shared]))
        elif c == 10:   # WATCH + UNWATCH / nested MULTI / EXEC without MULTI
            steps += [('cmd', [b'WATCH', acct()]), ('cmd', [b'UNWATCH']), ('cmd', [b'EXEC']), ('cmd', [b'MULTI']),
                      ('cmd', [b'MULTI']), ('cmd', [b'GET', shared]), ('cmd', [b'EXEC'])]
        else:           # watch, let others interfere, then transaction in one pipeline
            k = acct()
            steps += [('cmd', [b'WATCH', k, shared]), ('sleep', rnd.randrange(0, 3)),
                      ('pipe', [[b'MULTI'], [b'GET', k], [b'SET', k, b'7'], [b'EXEC']])]
    return steps


class CollsGen(Pool):
    """C03 traffic: lists, sets, hashes on a small pool of keys with duplicate-prone elements."""

    def __init__(self, rnd):
        Pool.__init__(self, rnd)
        self.keys = [b'l1', b'l2', b's1', b's2', b's3', b'h1', b'h2', b'x\xffy', b'str']
        self.els = [b'a', b'b', b'c', b'a', b'', b'1', b'2', b'10', b'-5', b'\x00\xff', b'x y', b'9223372036854775807']
        self.seeded = False

    def el(self):
        return self.rnd.choice(self.els)

    def idx(self):
        return self.rnd.choice([b'0', b'1', b'-1', b'2', b'-2', b'3', b'-3', b'5', b'-7', b'100', b'-100', b'x', b''])

    def next(self):
        r = self.rnd
        if not self.seeded:
            self.seeded = True
            return [b'SET', b'str', b'v']
        k = self.key()
        c = r.randrange(46)
        E = lambda n=3: [self.el() for _ in range(r.randrange(1, n + 1))]
        if c == 0: return [b'LPUSH', k] + E()
        if c == 1: return [b'RPUSH', k] + E()
        if c == 2: return [b'LPOP', k]
        if c == 3: return [b'RPOP', k]
        if c == 4: return [b'LLEN', k]
        if c in (5, 6): return [b'LRANGE', k, self.idx(), self.idx()]
        if c == 7: return [b'LINDEX', k, self.idx()]
        if c == 8: return [b'LSET', k, self.idx(), self.el()]
        if c == 9: return [b'LTRIM', k, self.idx(), self.idx()]
        if c in (10, 11): return [b'LREM', k, self.idx(), self.el()]
        if c in (12, 13): return [b'SADD', k] + E(4)
        if c == 14: return [b'SREM', k] + E()
        if c == 15: return [b'SMEMBERS', k]
        if c == 16: return [b'SISMEMBER', k, self.el()]
        if c == 17: return [b'SCARD', k]
        if c in (18, 19, 20): return [r.choice([b'SUNION', b'SINTER', b'SDIFF'])] + [self.key() for _ in range(r.randrange(1, 4))]
        if c == 21: return [b'SPOP', k]
        if c == 22: return [b'SPOP', k, r.choice([b'0', b'1', b'2', b'5', b'-1', b'x'])]
        if c == 23: return [b'SRANDMEMBER', k]
        if c == 24: return [b'SRANDMEMBER', k, r.choice([b'0', b'1', b'2', b'5', b'-1', b'-3', b'x'])]
        if c in (25, 26): return [b'HSET', k] + [x for _ in range(r.randrange(1, 3)) for x in (self.el(), self.el())]
        if c == 27: return [b'HMSET', k] + [x for _ in range(r.randrange(1, 3)) for x in (self.el(), self.el())]
        if c == 28: return [b'HGET', k, self.el()]
        if c == 29: return [b'HMGET', k] + E()
        if c == 30: return [b'HGETALL', k]
        if c == 31: return [b'HDEL', k] + E()
        if c == 32: return [b'HLEN', k]
        if c == 33: return [b'HEXISTS', k, self.el()]
        if c == 34: return [b'HKEYS', k]
        if c == 35: return [b'HVALS', k]
        if c in (36, 37): return [b'HINCRBY', k, self.el(), r.choice([b'1', b'-1', b'5', b'9223372036854775807', b'-9223372036854775808', b'x'])]
        if c == 38: return [b'HSET', k, self.el()]
        if c == 39: return [b'TYPE', k]
        if c == 40: return [b'DEL', k]
        if c == 41: return [b'EXISTS', k]
        if c == 42: return [r.choice([b'LPUSH', b'SADD', b'HSET', b'LRANGE', b'LSET', b'SISMEMBER', b'HGET'])] + [self.key() for _ in range(r.choice([0, 1]))]
        if c == 43: return [b'EXPIRE', k, b'100000']
        if c == 44: return [b'TTL', k]
        return [b'RPUSH', k] + E(4)


class MultiDbGen:
    """C18 traffic: the same key names in several databases, through direct commands and transactions."""

    def __init__(self, rnd):
        self.rnd = rnd
        self.s = StringsGen(rnd)
        self.c = CollsGen(rnd)
        self.s.keys = [b'k1', b'k2', b'shared']
        self.c.keys = [b'l1', b's1', b'h1', b'shared']
        self.pending = []

    def next(self):
        r = self.rnd
        if self.pending:
            return self.pending.pop(0)
        c = r.randrange(20)
        if c <= 2:
            return [b'SELECT', r.choice([b'0', b'1', b'2', b'15', b'16', b'-1', b'x', b'3'])]
        if c == 3:
            return [b'FLUSHDB'] if r.random() < 0.5 else [b'DBSIZE']
        if c == 4 and r.random() < 0.2:
            return [b'FLUSHALL']
        if c == 5:
            self.pending = [self.s.next(), [b'SELECT', r.choice([b'1', b'2', b'0'])], self.s.next(), [b'EXEC'], self.s.next()]
            return [b'MULTI']
        if c == 6:
            return [b'KEYS', b'*']
        if c < 13:
            return self.s.next()
        return self.c.next()


class ZSetGen(Pool):
    """C04 traffic: few members, scores drawn to collide (equal scores, re-scoring across neighbours, +-inf, -0)."""

    def __init__(self, rnd):
        Pool.__init__(self, rnd)
        self.keys = [b'z1', b'z2', b'z\xff', b'str', b'lst']
        self.members = [b'a', b'b', b'c', b'd', b'e', b'f', b'', b'aa', b'\x00', b'B', b'10', b'9']
        self.scores = [b'0', b'1', b'-1', b'2', b'1.5', b'-1.5', b'0.125', b'1.001', b'1.002', b'-0', b'inf', b'-inf', b'+inf',
                       b'3', b'2.5', b'100', b'-100', b'9999', b'0.5', b'1']
        self.bad = [b'nan', b'NaN', b'-nan', b'abc', b'', b'1..2', b'--1']
        self.n = 0

    def m(self):
        return self.rnd.choice(self.members)

    def sc(self):
        if self.rnd.random() < 0.06:
            return self.rnd.choice(self.bad)
        return self.rnd.choice(self.scores)

    def next(self):
        r = self.rnd
        self.n += 1
        if self.n == 1:
            return [b'SET', b'str', b'v']
        if self.n == 2:
            return [b'RPUSH', b'lst', b'x']
        k = self.key() if r.random() < 0.3 else b'z1'
        c = r.randrange(40)
        if c < 8: return [b'ZADD', k, self.sc(), self.m()]
        if c < 11: return [b'ZADD', k] + [x for _ in range(r.randrange(2, 4)) for x in (self.sc(), self.m())]
        if c < 14: return [b'ZREM', k] + [self.m() for _ in range(r.randrange(1, 3))]
        if c == 14: return [b'ZSCORE', k, self.m()]
        if c == 15: return [b'ZCARD', k]
        if c == 16: return [r.choice([b'ZRANK', b'ZREVRANK']), k, self.m()]
        if c < 20: return [r.choice([b'ZRANGE', b'ZREVRANGE']), k, self.idx(), self.idx()] + ([b'WITHSCORES'] if r.random() < 0.5 else [])
        if c < 23: return [r.choice([b'ZRANGEBYSCORE', b'ZREVRANGEBYSCORE']), k, self.sc(), self.sc()] + ([b'withscores'] if r.random() < 0.5 else [])
        if c == 23: return [b'ZCOUNT', k, self.sc(), self.sc()]
        if c < 28: return [b'ZINCRBY', k, r.choice([b'1', b'-1', b'0.5', b'-0.125', b'2', b'inf', b'-inf', b'nan', b'x', b'0', b'-2.5']), self.m()]
        if c == 28: return [r.choice([b'ZPOPMIN', b'ZPOPMAX']), k]
        if c == 29: return [r.choice([b'ZPOPMIN', b'ZPOPMAX']), k, r.choice([b'0', b'1', b'2', b'10', b'-1', b'x'])]
        if c == 30: return [b'ZRANGE', k, b'0', b'-1', b'WITHSCORES']
        if c == 31: return [b'DEL', k] if r.random() < 0.3 else [b'TYPE', k]
        if c == 32: return [r.choice([b'ZADD', b'ZREM', b'ZSCORE', b'ZRANGE', b'ZINCRBY', b'ZCOUNT'])] + [self.m() for _ in range(r.choice([0, 1, 2]))]
        if c == 33: return [b'ZADD', k, self.sc()]
        if c == 34: return [b'ZADD', k, self.sc(), self.m(), self.sc()]
        return [b'ZADD', k, self.sc(), self.m()]

    def idx(self):
        return self.rnd.choice([b'0', b'1', b'-1', b'2', b'-2', b'3', b'5', b'-5', b'10', b'20', b'-20', b'x'])


ZMUT = {b'ZADD', b'ZREM', b'ZINCRBY', b'ZPOPMIN', b'ZPOPMAX'}


def zset_history(ctx, srv, g, n, label='zrand'):
    """random sorted-set history; after every mutating command the skip-list invariants (hook H8) are checked."""
    s = fresh_session(ctx, srv, label)
    try:
        cid = s.open()
        s.cmd(cid, [b'FLUSHALL'])
        for j in range(n):
            cid = ensure_conn(s, cid)
            a = g.next()
            s.cmd(cid, a)
            if a and a[0].upper() in ZMUT and len(a) > 1 and srv.alive():
                res = srv.ctl.cmd('ZCHECK 0 ' + a[1].hex())
                if res != 'NONE':
                    s.trace.emit({'k': 'chk', 'name': 'skiplist', 'ok': 1 if res == 'OK' else 0, 'detail': res[:200]})
        cid = ensure_conn(s, cid)
        dump_db(s, cid)
    except (ServerDied, OSError):
        if not srv.alive():
            s.trace.emit({'k': 'crash', 'status': srv.exit_status()})
    s.close_all()
    ok = ctx.validate(s.trace, label=label)
    if not srv.alive():
        srv.restart()
    return ok


class PubSubGen:
    """C14 traffic for several clients: returns (client index, argv) or ('close', client index)."""

    def __init__(self, rnd, nclients=4, kills=True):
        self.rnd = rnd
        self.n = nclients
        self.kills = kills
        self.chans = [b'news', b'mews', b'n', b'news.sport', b'\xffbin', b'a b']
        self.pats = [b'*', b'n*', b'?ews', b'[mn]ews', b'news.*', b'x*', b'n?']
        self.msgs = [b'hello', b'', b'\r\n', b'\x00\xff', b'm' * 50, b'1']

    def next(self):
        r = self.rnd
        c = r.randrange(self.n)
        k = r.randrange(20)
        if k < 4:
            return c, [b'SUBSCRIBE'] + [r.choice(self.chans) for _ in range(r.randrange(1, 3))]
        if k < 6:
            return c, [b'PSUBSCRIBE'] + [r.choice(self.pats) for _ in range(r.randrange(1, 3))]
        if k == 6:
            return c, [b'UNSUBSCRIBE'] + [r.choice(self.chans) for _ in range(r.randrange(0, 3))]
        if k == 7:
            return c, [b'PUNSUBSCRIBE'] + [r.choice(self.pats) for _ in range(r.randrange(0, 2))]
        if k == 8:
            return c, [b'UNSUBSCRIBE']
        if k == 9:
            return ('close', c) if r.random() < 0.5 else (c, [b'PUNSUBSCRIBE'])
        if k == 10 and self.kills:
            return ('kill', c, r.randrange(self.n))      # c ends another client's connection (CLIENT KILL ID): its subscriptions end with it
        return c, [b'PUBLISH', r.choice(self.chans), r.choice(self.msgs)]


def pubsub_history(ctx, srv, g, n, label='pubsub'):
    s = fresh_session(ctx, srv, label)
    try:
        cmap = {}
        sids = {}
        for j in range(n):
            st = g.next()
            if st[0] == 'close':
                c = st[1]
                if cmap.get(c) in s.clients:
                    s.poll(cmap[c])
                    s.close(cmap[c])
                    del cmap[c]
                continue
            if st[0] == 'kill':
                c, v = st[1], st[2]
                for x in (c, v):
                    if cmap.get(x) not in s.clients:
                        cmap[x] = s.open()
                        r = s.cmd(cmap[x], [b'CLIENT', b'ID'])
                        sids[x] = r[1] if r[0] == 'int' else None
                if c == v or sids.get(v) is None or cmap.get(c) not in s.clients or cmap.get(v) not in s.clients:
                    continue
                s.poll(cmap[v])
                s.cmd(cmap[c], [b'CLIENT', b'KILL', b'ID', str(sids[v]).encode()])
                # the victim is marked for closing and cleaned up at the end of that event-loop pass (as in Redis, where it is freed
                # before the next iteration): a request another client gets executed in the SAME pass may still see its
                # subscriptions.  The next request is sent after full passes have run, so that "ended at once" is what is observed.
                s.wait_loop(3)
                # the victim notices at its next request (answered by a close); until then nothing may reach it
                continue
            c, a = st
            if cmap.get(c) not in s.clients:
                cmap[c] = s.open()
                r = s.cmd(cmap[c], [b'CLIENT', b'ID'])
                sids[c] = r[1] if r[0] == 'int' else None
            if cmap.get(c) not in s.clients:
                continue
            s.cmd(cmap[c], a)
            if a[0] == b'PUBLISH':
                s.poll_all()
        s.quiesce()
    except (ServerDied, OSError):
        if not srv.alive():
            s.trace.emit({'k': 'crash', 'status': srv.exit_status()})
    s.close_all()
    ok = ctx.validate(s.trace, label=label)
    if not srv.alive():
        srv.restart()
    return ok


def replay_pubsub_paths(ctx, srv, paths, label='gen'):
    """TLC-generated <<conn, argv>> paths over the pub/sub catalogue; pushes are polled after every PUBLISH."""
    i = 0
    ok = True
    while i < len(paths) and ok:
        s = fresh_session(ctx, srv, label)
        try:
            while i < len(paths) and s.trace.n < 8000:
                cmap = {}
                for c, a in paths[i]:
                    if c not in cmap or cmap[c] not in s.clients:
                        cmap[c] = s.open()
                    s.cmd(cmap[c], a)
                    if a[0] == b'PUBLISH':
                        s.poll_all(0.003)
                s.quiesce(0.01)
                for c in list(cmap.values()):
                    if c in s.clients:
                        s.close(c)
                i += 1
        except (ServerDied, OSError):
            ok = False
            if not srv.alive():
                s.trace.emit({'k': 'crash', 'status': srv.exit_status()})
        s.close_all()
        if not ctx.validate(s.trace, label='%s[..%d]' % (label, i)):
            ok = False
        if not srv.alive():
            srv.restart()
    return ok


class ExpiryGen(Pool):
    """C02 traffic: short real TTLs on keys of every type, reads and writes through every command family placed before,
    around and after the deadlines, TTL removal/extension, RENAME, emptying and re-creating, and pauses."""

    def __init__(self, rnd):
        Pool.__init__(self, rnd)
        self.keys = [b'e1', b'e2', b'e3', b'e4', b'e5', b'e6']
        self.n = 0

    def ttl_ms(self):
        return str(self.rnd.choice([30, 50, 80, 120, 200, 400])).encode()

    def next(self):
        r = self.rnd
        k = self.key()
        c = r.randrange(60)
        if c < 4:
            if r.random() < 0.25:
                # a script without effect, now and then one that ENDS IN AN ERROR: whatever a script run sets up around itself (a frozen
                # clock, a cached state, a selected database) must be undone on every way out
                return [b'EVAL', r.choice([b"error('boom')", b"return redis.call('NOSUCHCOMMAND')", b"return redis.call('INCR')", b"return 1",
                                           b"return redis.pcall('NOSUCHCOMMAND')", b"local x = nil; return x.y", b"return redis.call('GET', 'no', 'such', 'arity')"]), b'0']
            return ('sleep', r.choice([5, 20, 40, 60, 100]))
        if c == 4: return ('sleep', r.choice([300, 600]))
        if c < 8: return [b'SET', k, b'v', b'PX', self.ttl_ms()]
        if c < 10: return [b'PEXPIRE', k, self.ttl_ms()]
        if c == 10: return [b'EXPIRE', k, r.choice([b'1', b'100'])]
        if c == 11: return [b'PSETEX', k, self.ttl_ms(), b'v2']
        if c == 12: return [b'SET', k, b'10']                      # overwrite clears the TTL
        if c == 13: return [b'GETSET', k, b'11']
        if c == 14: return [b'MSET', k, b'12']
        if c == 15: return [b'PERSIST', k]
        if c == 16: return [b'RENAME', k, self.key()]
        if c == 17: return [b'PEXPIRE', k, b'100000']              # extend
        if c < 20: return [b'RPUSH', k, b'a', b'b']
        if c == 20: return [b'LPOP', k]
        if c == 21: return [b'SADD', k, b'a']
        if c == 22: return [b'SREM', k, b'a']
        if c == 23: return [b'HSET', k, b'f', b'1']
        if c == 24: return [b'HDEL', k, b'f']
        if c == 25: return [b'ZADD', k, b'1', b'a']
        if c == 26: return [b'ZREM', k, b'a']
        if c == 27: return [b'DEL', k]
        if c < 31: return [b'GET', k]
        if c == 31: return [b'EXISTS', k]
        if c == 32: return [b'TYPE', k]
        if c == 33: return [b'TTL', k]
        if c == 34: return [b'PTTL', k]
        if c == 35: return [b'INCR', k]
        if c == 36: return [b'APPEND', k, b'x']
        if c == 37: return [b'STRLEN', k]
        if c == 38: return [b'LLEN', k]
        if c == 39: return [b'LRANGE', k, b'0', b'-1']
        if c == 40: return [b'SCARD', k]
        if c == 41: return [b'SMEMBERS', k]
        if c == 42: return [b'HGETALL', k]
        if c == 43: return [b'HLEN', k]
        if c == 44: return [b'ZCARD', k]
        if c == 45: return [b'ZRANGE', k, b'0', b'-1']
        if c == 46: return [b'KEYS', b'*']
        if c == 47: return [b'DBSIZE']
        if c == 48: return [b'SETNX', k, b'nx']
        if c == 49: return [b'SET', k, b'xx', b'XX']
        if c == 50: return [b'MGET', k, self.key()]
        if c == 51: return [b'RANDOMKEY']
        if c == 52: return [b'RENAMENX', k, self.key()]
        if c == 53: return [b'SETRANGE', k, b'1', b'z']
        if c == 54: return [b'GETRANGE', k, b'0', b'-1']
        if c == 55: return [b'SISMEMBER', k, b'a']
        if c == 56: return [b'HGET', k, b'f']
        if c == 57: return [b'ZSCORE', k, b'a']
        if c == 58: return [b'LPUSH', k, b'h']
        return [b'SET', k, b'v', b'PX', self.ttl_ms()]
