"""Workload drivers: replay of TLC-generated paths, seeded random histories, dumps, replays."""
import json
import os
import time

from session import Session, Trace, ServerDied
import resp

I64MAX = b'9223372036854775807'
I64MIN = b'-9223372036854775808'

CHUNK = 25000


def fresh_session(ctx, srv, label):
    tr = ctx.new_trace(label)
    s = Session(srv, tr)
    s.reset_marker = True
    return s


def ensure_conn(s, cid):
    if cid in s.clients:
        return cid
    return s.open()


def check_alive(ctx, s, srv):
    """If the server process died, record it (the spec has no action for a crash => rejection)."""
    if not srv.alive():
        s.trace.emit({'k': 'crash', 'status': srv.exit_status()})
        return False
    return True


def dump_db(s, cid):
    """Canonical read-out of the selected database through ordinary (spec'd) commands."""
    r = s.cmd(cid, [b'KEYS', b'*'])
    if r[0] != 'arr':
        return
    for kr in sorted(x[1] for x in r[1] if x[0] == 'bulk'):
        if cid not in s.clients:
            return
        t = s.cmd(cid, [b'TYPE', kr])
        if cid not in s.clients:
            return
        ty = t[1] if t[0] == 'st' else b''
        if ty == b'string':
            s.cmd(cid, [b'GET', kr])
        elif ty == b'list':
            s.cmd(cid, [b'LRANGE', kr, b'0', b'-1'])
        elif ty == b'set':
            s.cmd(cid, [b'SMEMBERS', kr])
        elif ty == b'hash':
            s.cmd(cid, [b'HGETALL', kr])
        elif ty == b'zset':
            s.cmd(cid, [b'ZRANGE', kr, b'0', b'-1', b'WITHSCORES'])
        elif ty == b'stream':
            s.cmd(cid, [b'XRANGE', kr, b'-', b'+'])
        if cid in s.clients:
            s.cmd(cid, [b'PTTL', kr])


def replay_paths(ctx, srv, paths, label='gen', pre=None, dump_every=0):
    """Each path is a list of argvs, run after FLUSHALL on one connection; traces are cut into chunks."""
    i = 0
    ok = True
    while i < len(paths) and ok:
        s = fresh_session(ctx, srv, label)
        cid = s.open()
        s.cmd(cid, [b'FLUSHALL'])
        try:
            while i < len(paths) and s.trace.n < CHUNK:
                cid = ensure_conn(s, cid)
                s.cmd(cid, [b'FLUSHALL'])
                if pre:
                    for a in pre:
                        s.cmd(cid, a)
                for a in paths[i]:
                    cid = ensure_conn(s, cid)
                    s.cmd(cid, a)
                i += 1
                if dump_every and i % dump_every == 0:
                    cid = ensure_conn(s, cid)
                    dump_db(s, cid)
        except ServerDied:
            ok = False
        s.close_all()
        if not ctx.validate(s.trace, label='%s[..%d]' % (label, i)):
            ok = False
        if not srv.alive():
            srv.restart()
    return ok


def random_history(ctx, srv, g, n, label='rand', dbs=(0,)):
    s = fresh_session(ctx, srv, label)
    cid = s.open()
    s.cmd(cid, [b'FLUSHALL'])
    try:
        for j in range(n):
            cid = ensure_conn(s, cid)
            a = g.next()
            s.cmd(cid, a)
        cid = ensure_conn(s, cid)
        for d in dbs:
            if len(dbs) > 1 or d != 0:
                s.cmd(cid, [b'SELECT', str(d).encode()])
            dump_db(s, cid)
    except ServerDied:
        pass
    s.close_all()
    ok = ctx.validate(s.trace, label=label)
    if not srv.alive():
        srv.restart()
    return ok


def replay_file(ctx, path):
    """Re-run a stored violation (its recorded trace is the scenario) on the current tree."""
    info = json.load(open(path)) if path.endswith('.json') else {'trace': path}
    tpath = info.get('trace')
    if not tpath or not os.path.exists(tpath):
        raise RuntimeError('replay file has no trace')
    evs = [json.loads(l) for l in open(tpath)]
    srv = ctx.new_server()
    tr = ctx.new_trace('replay')
    s = Session(srv, tr)
    cmap = {}
    t_first = None
    t_wall = time.monotonic()
    for ev in evs:
        k = ev.get('k')
        if k == 'open':
            cmap[ev['c']] = s.open()
        elif k == 'close':
            if cmap.get(ev['c']) in s.clients:
                s.close(cmap[ev['c']])
        elif k == 'cmd':
            c = cmap.get(ev['c'])
            if c not in s.clients:
                c = s.open()
                cmap[ev['c']] = c
            if t_first is None:
                t_first = ev['t0']
            # keep the original pacing (matters for expiry)
            due = t_wall + (ev['t0'] - t_first) / 1000.0
            dt = due - time.monotonic()
            if dt > 0:
                time.sleep(min(dt, 5.0))
            s.cmd(c, [bytes(a) for a in ev['argv']])
        if not srv.alive():
            tr.emit({'k': 'crash', 'status': srv.exit_status()})
            break
    s.close_all()
    ctx.validate(tr, label='replay')


# ---------------------------------------------------------------------------
# random command generators
# ---------------------------------------------------------------------------
class Pool:
    def __init__(self, rnd):
        self.rnd = rnd
        self.keys = [b'k1', b'k2', b'key:3', b'\xff\x00bin', b'a b', b'k\r\nx', b'K1', b'kk', b'{t}1', b'z' * 40]
        self.vals = [b'', b'a', b'10', b'-1', b'0', I64MAX, I64MIN, b'9223372036854775806', b'hello world',
                     b'\r\n', b'\x00\x01\xfe\xff', b'1.5', b' 1', b'1 ', b'abc' * 30, b'-', b'12345678901234567890123']
        self.ints = [b'0', b'1', b'-1', b'2', b'-2', b'3', b'5', b'-5', b'10', b'-10', b'100', I64MAX, I64MIN,
                     b'9223372036854775806', b'-9223372036854775807', b'x', b'', b'1.0', b'1e3', b' 1',
                     b'99999999999999999999']

    def key(self):
        return self.rnd.choice(self.keys)

    def val(self):
        if self.rnd.random() < 0.15:
            return bytes(self.rnd.randrange(256) for _ in range(self.rnd.randrange(0, 12)))
        return self.rnd.choice(self.vals)

    def int(self):
        return self.rnd.choice(self.ints)

    def small(self):
        return str(self.rnd.randrange(-8, 9)).encode()


class StringsGen(Pool):
    """C01 traffic: strings + generic key commands (no TTL expiry within the run: long TTLs only)."""

    def next(self):
        r = self.rnd
        k, v = self.key(), self.val()
        c = r.randrange(40)
        if c == 0: return [b'SET', k, v]
        if c == 1: return [b'GET', k]
        if c == 2: return [b'APPEND', k, v]
        if c == 3: return [r.choice([b'INCR', b'DECR']), k]
        if c == 4: return [r.choice([b'INCRBY', b'DECRBY']), k, self.int()]
        if c == 5: return [b'STRLEN', k]
        if c == 6: return [b'DEL', k] + [self.key() for _ in range(r.randrange(3))]
        if c == 7: return [b'EXISTS', k] + [self.key() for _ in range(r.randrange(3))]
        if c == 8: return [b'TYPE', k]
        if c == 9: return [b'GETRANGE', k, self.small(), self.small()]
        if c == 10: return [b'SETRANGE', k, str(r.randrange(0, 12)).encode(), v if v else b'x']
        if c == 11: return [b'KEYS', r.choice([b'*', b'k*', b'?1', b'k?', b'*1', b'[kK]1', b'k[0-9]', b'*\xff*', b'nomatch', k])]
        if c == 12: return [b'DBSIZE']
        if c == 13: return [b'MSET'] + [x for _ in range(r.randrange(1, 4)) for x in (self.key(), self.val())]
        if c == 14: return [b'MGET'] + [self.key() for _ in range(r.randrange(1, 4))]
        if c == 15: return [b'RENAME', k, self.key()]
        if c == 16: return [b'RENAMENX', k, self.key()]
        if c == 17: return [b'SETNX', k, v]
        if c == 18: return [b'GETSET', k, v]
        if c == 19: return [r.choice([b'SET', b'set', b'Set']), k, v, r.choice([b'NX', b'nx', b'XX', b'xx'])]
        if c == 20: return [b'RANDOMKEY']
        if c == 21: return [b'SET', k, v, r.choice([b'EX', b'ex', b'PX']), r.choice([b'100000', b'0', b'-1', b'abc', b'1000000'])]
        if c == 22: return [b'SETEX', k, r.choice([b'1000', b'0', b'-5', b'x']), v]
        if c == 23: return [b'PSETEX', k, r.choice([b'1000000', b'0', b'x']), v]
        if c == 24: return [b'EXPIRE', k, r.choice([b'1000', b'100000', b'x'])]
        if c == 25: return [b'TTL', k]
        if c == 26: return [b'PTTL', k]
        if c == 27: return [b'PERSIST', k]
        if c == 28: return [b'PEXPIRE', k, r.choice([b'10000000', b'abc'])]
        if c == 29: return [b'SET', k, v, b'NX', b'XX']
        if c == 30: return [b'SET', k, v, b'EX']
        if c == 31: return [r.choice([b'GET', b'SET', b'APPEND', b'INCRBY', b'RENAME', b'MSET', b'GETRANGE'])] + [self.key() for _ in range(r.choice([0, 3, 4]))]
        if c == 32: return [b'FLUSHDB'] if r.random() < 0.2 else [b'GET', k]
        if c == 33: return [r.choice([b'NOSUCHCMD', b'get\xff', b''])] + [k]
        if c == 34: return [b'EXPIRE', k, r.choice([b'0', b'-1'])]
        return [b'SET', k, v]
