------------------------------- MODULE Bytes -------------------------------
(***************************************************************************)
(* Byte strings (sequences over 0..255) and the arithmetic the command     *)
(* semantics need.  TLC integers are 32-bit, so 64-bit values are handled  *)
(* as signed decimal digit strings ("big" records [neg, d]).               *)
(***************************************************************************)
EXTENDS Integers, Sequences, FiniteSets, TLC

MinOf(S) == CHOOSE x \in S : \A y \in S : x <= y
MaxOf(S) == CHOOSE x \in S : \A y \in S : x >= y
Min2(a, b) == IF a < b THEN a ELSE b
Max2(a, b) == IF a > b THEN a ELSE b

UpC(x) == IF x >= 97 /\ x <= 122 THEN x - 32 ELSE x
Upper(b) == [i \in 1..Len(b) |-> UpC(b[i])]

(* lexicographic order on byte strings *)
BLt(a, b) ==
  LET n == Min2(Len(a), Len(b))
      diff == {i \in 1..n : a[i] # b[i]}
  IN IF diff = {} THEN Len(a) < Len(b) ELSE LET i == MinOf(diff) IN a[i] < b[i]
BLe(a, b) == a = b \/ BLt(a, b)

Sub(b, i, j) == IF j < i THEN <<>> ELSE [k \in 1..(j - i + 1) |-> b[i + k - 1]]
Zeros(n) == [k \in 1..n |-> 0]

(***************************************************************************)
(* Big integers: [neg |-> BOOLEAN, d |-> digits most significant first]   *)
(* normal form: no leading zero unless the value is zero; zero not neg.    *)
(***************************************************************************)
IsDigit(x) == x >= 48 /\ x <= 57

Strip(d) == \* drop leading zeros, keep at least one digit
  LET nz == {i \in 1..Len(d) : d[i] # 0}
  IN IF nz = {} THEN <<0>> ELSE Sub(d, MinOf(nz), Len(d))

BigNorm(neg, d) ==
  LET s == Strip(d) IN [neg |-> neg /\ s # <<0>>, d |-> s]

BigZero == [neg |-> FALSE, d |-> <<0>>]

(* magnitude comparison of two normalised digit strings: -1, 0, 1 *)
MagCmp(a, b) ==
  IF Len(a) # Len(b) THEN (IF Len(a) < Len(b) THEN -1 ELSE 1)
  ELSE LET diff == {i \in 1..Len(a) : a[i] # b[i]}
       IN IF diff = {} THEN 0
          ELSE LET i == MinOf(diff) IN IF a[i] < b[i] THEN -1 ELSE 1

(* digit i counted from the least significant end (1 = units); 0 beyond *)
DigR(d, i) == IF i <= Len(d) THEN d[Len(d) - i + 1] ELSE 0

MagAdd(a, b) ==
  LET n == Max2(Len(a), Len(b)) + 1
      carry[i \in 0..n] ==
        IF i = 0 THEN 0 ELSE (DigR(a, i) + DigR(b, i) + carry[i - 1]) \div 10
      dig(i) == (DigR(a, i) + DigR(b, i) + carry[i - 1]) % 10
  IN Strip([k \in 1..n |-> dig(n - k + 1)])

(* a - b for magnitudes with a >= b *)
MagSub(a, b) ==
  LET n == Len(a)
      borrow[i \in 0..n] ==
        IF i = 0 THEN 0
        ELSE IF DigR(a, i) - DigR(b, i) - borrow[i - 1] < 0 THEN 1 ELSE 0
      dig(i) == (DigR(a, i) - DigR(b, i) - borrow[i - 1] + 10) % 10
  IN Strip([k \in 1..n |-> dig(n - k + 1)])

BigNeg(x) == BigNorm(~x.neg, x.d)

BigAdd(x, y) ==
  IF x.neg = y.neg THEN BigNorm(x.neg, MagAdd(x.d, y.d))
  ELSE LET c == MagCmp(x.d, y.d)
       IN IF c = 0 THEN BigZero
          ELSE IF c > 0 THEN BigNorm(x.neg, MagSub(x.d, y.d))
          ELSE BigNorm(y.neg, MagSub(y.d, x.d))

BigCmp(x, y) == \* -1, 0, 1
  IF x.neg # y.neg THEN (IF x.neg THEN -1 ELSE 1)
  ELSE IF x.neg THEN MagCmp(y.d, x.d) ELSE MagCmp(x.d, y.d)

I64MaxMag == <<9,2,2,3,3,7,2,0,3,6,8,5,4,7,7,5,8,0,7>>
I64MinMag == <<9,2,2,3,3,7,2,0,3,6,8,5,4,7,7,5,8,0,8>>
BigInI64(x) == IF x.neg THEN MagCmp(x.d, I64MinMag) <= 0 ELSE MagCmp(x.d, I64MaxMag) <= 0
BigI64Min == [neg |-> TRUE, d |-> I64MinMag]

BigToBytes(x) ==
  LET ds == [i \in 1..Len(x.d) |-> x.d[i] + 48]
  IN IF x.neg THEN <<45>> \o ds ELSE ds

(* native (small) integers <-> big *)
RECURSIVE NatDigits(_)
NatDigits(n) == IF n < 10 THEN <<n>> ELSE NatDigits(n \div 10) \o <<n % 10>>
BigOfInt(n) == IF n < 0 THEN [neg |-> TRUE, d |-> NatDigits(-n)] ELSE [neg |-> FALSE, d |-> NatDigits(n)]
IntBytes(n) == BigToBytes(BigOfInt(n))

Clamp == 1000000000   \* |native| bound used when a big value is used as an index or count
RECURSIVE DigitsVal(_, _)
DigitsVal(d, acc) == IF d = <<>> THEN acc ELSE DigitsVal(Tail(d), acc * 10 + Head(d))
BigToIntClamped(x) ==
  LET m == IF Len(x.d) > 9 THEN Clamp ELSE DigitsVal(x.d, 0)
  IN IF x.neg THEN -m ELSE m

(***************************************************************************)
(* Parsing decimal byte strings.                                           *)
(* IsCanonInt: Redis string2ll — optional single '-', no '+', no leading   *)
(* zeros, no "-0", at least one digit, value within i64.                   *)
(* IsLooseInt: what a lenient parser accepts in addition ('+', zeros).     *)
(***************************************************************************)
SignLen(b) == IF Len(b) >= 1 /\ (b[1] = 45 \/ b[1] = 43) THEN 1 ELSE 0
AllDigitsFrom(b, st) == Len(b) >= st /\ \A i \in st..Len(b) : IsDigit(b[i])

ParseBig(b) == \* defined when AllDigitsFrom(b, SignLen(b)+1)
  LET s == SignLen(b)
  IN BigNorm(s = 1 /\ b[1] = 45, [i \in 1..(Len(b) - s) |-> b[s + i] - 48])

IsLooseInt(b) ==
  /\ Len(b) <= 40
  /\ AllDigitsFrom(b, SignLen(b) + 1)
  /\ BigInI64(ParseBig(b))

IsCanonInt(b) ==
  /\ IsLooseInt(b)
  /\ BigToBytes(ParseBig(b)) = b

=============================================================================
