SPECIFICATION TraceSpec
CONSTANT Deviations = {}
INVARIANT AcceptInv
POSTCONDITION TraceAccepted
CHECK_DEADLOCK FALSE
