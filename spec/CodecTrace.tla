----------------------------- MODULE CodecTrace -----------------------------
(***************************************************************************)
(* Trace specification for C20: decides whether the observations made on   *)
(* the REAL RespParser / serialize_resp_frame (harness `fvh codec`, ndjson *)
(* file named by env TRACE) satisfy the property.  The events are          *)
(* independent of each other; the only state is the index of the event.    *)
(*                                                                         *)
(*  rt     {tree, bytes, c1, runs, sfx}  bytes = what the serializer made  *)
(*         of tree.  Required: bytes is the reference encoding             *)
(*         (RespCodec!IsSer); the stateless parser consumes exactly        *)
(*         Len(bytes) (c1), also when other bytes follow (sfx: suffix s,   *)
(*         consumed c, result r); every run (whole feed and each chunking) *)
(*         returns exactly <<tree>> and leaves nothing behind.             *)
(*  bytes  {n, runs, ..}  arbitrary bytes (n of them).  Required: every    *)
(*         run's sequence of results (frames and, last, at most one error) *)
(*         equals that of runs[1] = the whole feed.                        *)
(*  stream {trees, bytes, runs}  bytes = reference encoding of the frames  *)
(*         trees one after the other; every run returns exactly trees.     *)
(*  all:   peak <= 64 * received + 65536 for every run: no reservation     *)
(*         sized by a declared length that has not been received.          *)
(*  enumsum, note: bookkeeping.   crash, toolerr, ...: no action, rejected *)
(***************************************************************************)
EXTENDS RespCodec, Json, IOUtils, TLCExt

CONSTANT Deviations   \* interface of lib/tlc.py; C20 has no deviation alternatives

VARIABLE l
vars == <<l>>

Rec == ndJsonDeserialize(IOEnv.TRACE)
N == Len(Rec)
Ev == Rec[l]

Bound(n) == 64 * n + 65536

ResOk(x) == x.k \in {"f", "err"}
ResEq(x, y) == x.k = y.k /\ (x.k = "f" => FEq(x.f, y.f))
SeqEq(xs, ys) == Len(xs) = Len(ys) /\ \A i \in 1..Len(xs) : ResEq(xs[i], ys[i])
(* totality: frames, then at most one error, which ends the run *)
Shape(rs) == \A i \in 1..Len(rs) : ResOk(rs[i]) /\ (rs[i].k = "err" => i = Len(rs))

EvRt ==
  /\ Ev.k = "rt"
  /\ "bytes" \in DOMAIN Ev            \* the serializer did not refuse
  /\ IsSer(Ev.tree, Ev.bytes)
  /\ Ev.c1 = Len(Ev.bytes)
  /\ Len(Ev.runs) >= 1
  /\ \A i \in 1..Len(Ev.runs) :
       LET r == Ev.runs[i] IN
       /\ Len(r.results) = 1
       /\ r.results[1].k = "f"
       /\ FEq(r.results[1].f, Ev.tree)
       /\ r.left = 0
       /\ r.peak <= Bound(Len(Ev.bytes))
  /\ \A i \in 1..Len(Ev.sfx) :
       LET x == Ev.sfx[i] IN x.c = Len(Ev.bytes) /\ x.r.k = "f" /\ FEq(x.r.f, Ev.tree)

EvBytes ==
  /\ Ev.k = "bytes"
  /\ Len(Ev.runs) >= 1
  /\ \A i \in 1..Len(Ev.runs) :
       LET r == Ev.runs[i] IN
       /\ Shape(r.results)
       /\ SeqEq(r.results, Ev.runs[1].results)
       /\ r.peak <= Bound(Ev.n)

(* a concatenation of valid frames: every chunking returns exactly these frames *)
EvStream ==
  /\ Ev.k = "stream"
  /\ SerSeqAt(Ev.trees, Ev.bytes, 1) = Len(Ev.bytes) + 1
  /\ Len(Ev.runs) >= 1
  /\ \A i \in 1..Len(Ev.runs) :
       LET r == Ev.runs[i] IN
       /\ Len(r.results) = Len(Ev.trees)
       /\ \A j \in 1..Len(Ev.trees) : r.results[j].k = "f" /\ FEq(r.results[j].f, Ev.trees[j])
       /\ r.left = 0
       /\ r.peak <= Bound(Len(Ev.bytes))

EvInfo == Ev.k \in {"note", "enumsum"}

TraceInit == l = 1 /\ TLCSet(1, 0) /\ TLCSet(2, <<"none">>)

TraceNext ==
  /\ l <= N
  /\ l' = l + 1
  /\ (EvRt \/ EvBytes \/ EvStream \/ EvInfo)
  /\ IF l > TLCGet(1) THEN TLCSet(1, l) ELSE TRUE   \* deepest matched event (last conjunct!)

TraceSpec == TraceInit /\ [][TraceNext]_vars

AcceptInv == (l = N + 1) => TLCSet(2, <<"acc", {}>>)

TraceAccepted ==
  LET deepest == TLCGet(1) IN
  IF deepest = N
  THEN PrintT(<<"TRACE-ACCEPTED", N, TLCGet(2)>>)
  ELSE /\ PrintT(<<"TRACE-REJECTED-AT", deepest + 1, "of", N>>)
       /\ PrintT(<<"UNMATCHED-EVENT", Rec[deepest + 1]>>)
       /\ LET e == Rec[deepest + 1] IN
            IF e.k = "rt" /\ "bytes" \in DOMAIN e
            THEN PrintT(<<"RT-DIAG", [isSer |-> IsSer(e.tree, e.bytes), c1 |-> e.c1, len |-> Len(e.bytes),
                                      bound |-> Bound(Len(e.bytes))]>>)
            ELSE IF e.k = "stream"
            THEN PrintT(<<"STREAM-DIAG", [isSer |-> SerSeqAt(e.trees, e.bytes, 1) = Len(e.bytes) + 1, frames |-> Len(e.trees),
                            got |-> [i \in 1..Len(e.runs) |-> Len(e.runs[i].results)],
                            left |-> [i \in 1..Len(e.runs) |-> e.runs[i].left]]>>)
            ELSE IF e.k = "bytes"
            THEN PrintT(<<"BYTES-DIAG", [bound |-> Bound(e.n),
                            differing |-> {i \in 1..Len(e.runs) : ~SeqEq(e.runs[i].results, e.runs[1].results)},
                            overAlloc |-> {i \in 1..Len(e.runs) : e.runs[i].peak > Bound(e.n)}]>>)
            ELSE TRUE
       /\ FALSE
=============================================================================
