-------------------------------- MODULE Colls --------------------------------
(***************************************************************************)
(* List, set and hash commands (property C03).  Same conventions as        *)
(* Strings.tla.  A collection that becomes empty ceases to exist as a key; *)
(* in-place modifications keep the TTL.                                    *)
(* obs = the observed reply; used only to resolve random choices (SPOP).   *)
(***************************************************************************)
EXTENDS Strings

ListE(v, exp) == Entry("list", v, exp)
SetE(v, exp) == Entry("set", v, exp)
HashE(v, exp) == Entry("hash", v, exp)

(* store collection value v under k keeping the TTL, or delete the key when empty *)
PutOrDel(K, k, t, v, empty) ==
  IF empty THEN Del(K, k) ELSE Put(K, k, Entry(t, v, ExpOf(K, k)))

Rev(s) == [i \in 1..Len(s) |-> s[Len(s) - i + 1]]
Args(a, from) == Sub(a, from, Len(a))
SeqSet(s) == {s[i] : i \in 1..Len(s)}

-----------------------------------------------------------------------------
(* LISTS *)
ListVal(K, k) == IF Has(K, k) THEN K[k].v ELSE <<>>

CmdPUSH(a, K, left) ==
  IF Len(a) < 3 THEN Fail(K)
  ELSE IF WrongT(K, a[2], "list") THEN Fail(K)
  ELSE LET els == Args(a, 3)
           nv == IF left THEN Rev(els) \o ListVal(K, a[2]) ELSE ListVal(K, a[2]) \o els
       IN Out(RInt(Len(nv)), Put(K, a[2], ListE(nv, ExpOf(K, a[2]))))

CmdPOP(a, K, left) ==
  IF Len(a) < 2 THEN Fail(K)
  ELSE IF Len(a) > 2 THEN Unspec(K)                 \* LPOP key count (6.2) not prescribed
  ELSE IF WrongT(K, a[2], "list") THEN Fail(K)
  ELSE IF ~Has(K, a[2]) THEN Out(RNil, K)
  ELSE LET v == K[a[2]].v
           x == IF left THEN Head(v) ELSE v[Len(v)]
           nv == IF left THEN Tail(v) ELSE Sub(v, 1, Len(v) - 1)
       IN Out(RBulk(x), PutOrDel(K, a[2], "list", nv, nv = <<>>))

CmdLLEN(a, K) ==
  IF Len(a) # 2 THEN Fail(K)
  ELSE IF WrongT(K, a[2], "list") THEN Fail(K)
  ELSE Out(RInt(Len(ListVal(K, a[2]))), K)

(* LRANGE / LTRIM index normalisation -> 1-based [lo, hi], lo > hi when empty *)
LRangeOf(len, s0, e0) ==
  LET s1 == IF s0 < 0 THEN Max2(len + s0, 0) ELSE s0
      e1 == IF e0 < 0 THEN len + e0 ELSE e0
      e2 == IF e1 >= len THEN len - 1 ELSE e1
  IN IF s1 > e2 \/ s1 >= len THEN [lo |-> 1, hi |-> 0] ELSE [lo |-> s1 + 1, hi |-> e2 + 1]

CmdLRANGE(a, K) ==
  IF Len(a) # 4 THEN Fail(K)
  ELSE IF ~IsInt(a[3]) \/ ~IsInt(a[4]) THEN Fail(K)
  ELSE IF WrongT(K, a[2], "list") THEN Fail(K)
  ELSE LET v == ListVal(K, a[2]) r == LRangeOf(Len(v), SmallOf(a[3]), SmallOf(a[4]))
       IN Out(RBulks(Sub(v, r.lo, r.hi)), K)

CmdLTRIM(a, K) ==
  IF Len(a) # 4 THEN Fail(K)
  ELSE IF ~IsInt(a[3]) \/ ~IsInt(a[4]) THEN Fail(K)
  ELSE IF WrongT(K, a[2], "list") THEN Fail(K)
  ELSE IF ~Has(K, a[2]) THEN Out(ROk, K)
  ELSE LET v == K[a[2]].v r == LRangeOf(Len(v), SmallOf(a[3]), SmallOf(a[4]))
           nv == Sub(v, r.lo, r.hi)
       IN Out(ROk, PutOrDel(K, a[2], "list", nv, nv = <<>>))

CmdLINDEX(a, K) ==
  IF Len(a) # 3 THEN Fail(K)
  ELSE IF ~IsInt(a[3]) THEN Fail(K)
  ELSE IF WrongT(K, a[2], "list") THEN Fail(K)
  ELSE LET v == ListVal(K, a[2]) i0 == SmallOf(a[3])
           i == IF i0 < 0 THEN Len(v) + i0 ELSE i0
       IN IF i < 0 \/ i >= Len(v) THEN Out(RNil, K) ELSE Out(RBulk(v[i + 1]), K)

CmdLSET(a, K) ==
  IF Len(a) # 4 THEN Fail(K)
  ELSE IF ~IsInt(a[3]) THEN Fail(K)
  ELSE IF WrongT(K, a[2], "list") THEN Fail(K)
  ELSE IF ~Has(K, a[2]) THEN Fail(K)
  ELSE LET v == K[a[2]].v i0 == SmallOf(a[3])
           i == IF i0 < 0 THEN Len(v) + i0 ELSE i0
       IN IF i < 0 \/ i >= Len(v) THEN Fail(K)
          ELSE Out(ROk, SetV(K, a[2], [v EXCEPT ![i + 1] = a[4]]))

(* remove up to n (all if n = 0) occurrences of x scanning from the head *)
RECURSIVE RemFromHead(_, _, _)
RemFromHead(v, x, n) ==
  IF v = <<>> THEN <<>>
  ELSE IF Head(v) = x /\ n # 0 THEN RemFromHead(Tail(v), x, IF n > 0 THEN n - 1 ELSE n)
  ELSE <<Head(v)>> \o RemFromHead(Tail(v), x, n)

CmdLREM(a, K) ==
  IF Len(a) # 4 THEN Fail(K)
  ELSE IF ~IsInt(a[3]) THEN Fail(K)
  ELSE IF WrongT(K, a[2], "list") THEN Fail(K)
  ELSE IF ~Has(K, a[2]) THEN Out(RInt(0), K)
  ELSE LET v == K[a[2]].v c == SmallOf(a[3])
           nv == IF c > 0 THEN RemFromHead(v, a[4], c)
                 ELSE IF c = 0 THEN RemFromHead(v, a[4], -1)
                 ELSE Rev(RemFromHead(Rev(v), a[4], -c))
       IN Out(RInt(Len(v) - Len(nv)), PutOrDel(K, a[2], "list", nv, nv = <<>>))

-----------------------------------------------------------------------------
(* SETS *)
SetVal(K, k) == IF Has(K, k) THEN K[k].v ELSE {}

CmdSADD(a, K) ==
  IF Len(a) < 3 THEN Fail(K)
  ELSE IF WrongT(K, a[2], "set") THEN Fail(K)
  ELSE LET old == SetVal(K, a[2]) new == SeqSet(Args(a, 3))
       IN Out(RInt(Cardinality(new \ old)), Put(K, a[2], SetE(old \cup new, ExpOf(K, a[2]))))

CmdSREM(a, K) ==
  IF Len(a) < 3 THEN Fail(K)
  ELSE IF WrongT(K, a[2], "set") THEN Fail(K)
  ELSE IF ~Has(K, a[2]) THEN Out(RInt(0), K)
  ELSE LET old == K[a[2]].v gone == SeqSet(Args(a, 3)) \cap old nv == old \ gone
       IN Out(RInt(Cardinality(gone)), PutOrDel(K, a[2], "set", nv, nv = {}))

CmdSMEMBERS(a, K) ==
  IF Len(a) # 2 THEN Fail(K)
  ELSE IF WrongT(K, a[2], "set") THEN Fail(K)
  ELSE Out(RBulkBag(SetToSeq(SetVal(K, a[2]))), K)

CmdSISMEMBER(a, K) ==
  IF Len(a) # 3 THEN Fail(K)
  ELSE IF WrongT(K, a[2], "set") THEN Fail(K)
  ELSE Out(RInt(IF a[3] \in SetVal(K, a[2]) THEN 1 ELSE 0), K)

CmdSCARD(a, K) ==
  IF Len(a) # 2 THEN Fail(K)
  ELSE IF WrongT(K, a[2], "set") THEN Fail(K)
  ELSE Out(RInt(Cardinality(SetVal(K, a[2]))), K)

CmdSETALG(a, K, op) ==
  IF Len(a) < 2 THEN Fail(K)
  ELSE IF \E i \in 2..Len(a) : WrongT(K, a[i], "set") THEN
         (* SINTER: Redis 6.2 answers an empty array at the first missing key, Redis 7 checks every key *)
         LET fw == MinOf({i \in 2..Len(a) : WrongT(K, a[i], "set")}) IN
         IF op = "inter" /\ \E i \in 2..(fw - 1) : ~Has(K, a[i])
         THEN Out(ROneOf({RErr, RArr(<<>>)}), K) ELSE Fail(K)
  ELSE LET first == SetVal(K, a[2])
           rest == {SetVal(K, a[i]) : i \in 3..Len(a)}
           res == CASE op = "union" -> UNION ({first} \cup rest)
                    [] op = "inter" -> {x \in first : \A T \in rest : x \in T}
                    [] op = "diff" -> {x \in first : \A T \in rest : x \notin T}
       IN Out(RBulkBag(SetToSeq(res)), K)

(* an array of n bulk strings drawn from S (all different when distinct) *)
RPick(S, n, distinct) == [t |-> "pick", from |-> S, n |-> n, distinct |-> distinct]

ObsBulks(obs) == \* the observed reply as a set of byte strings when it is an array of bulks
  IF obs.t = "arr" /\ \A i \in 1..Len(obs.v) : obs.v[i].t = "bulk"
  THEN {obs.v[i].v : i \in 1..Len(obs.v)} ELSE {}

CmdSPOP(a, K, obs) ==
  IF Len(a) < 2 \/ Len(a) > 3 THEN Fail(K)
  ELSE IF Len(a) = 3 /\ (~IsInt(a[3]) \/ IntOf(a[3]).neg) THEN Fail(K)
  ELSE IF WrongT(K, a[2], "set") THEN Fail(K)
  ELSE LET s == SetVal(K, a[2]) IN
    IF Len(a) = 2 THEN
      IF s = {} THEN Out(RNil, K)
      ELSE LET cands == IF obs.t = "bulk" /\ obs.v \in s THEN {obs.v} ELSE s
           IN UNION {Out(RBulk(m), PutOrDel(K, a[2], "set", s \ {m}, s = {m})) : m \in cands}
    ELSE LET n == Min2(SmallOf(a[3]), Cardinality(s))
             got == ObsBulks(obs)
         IN IF s = {} \/ n = 0 THEN Out(RArr(<<>>), K)
            ELSE IF obs.t = "noobs"
            THEN UNION {Out(RBulkBag(SetToSeq(T)), PutOrDel(K, a[2], "set", s \ T, s = T))
                        : T \in {T \in SUBSET s : Cardinality(T) = n}}
            ELSE IF got \subseteq s /\ Cardinality(got) = n
            THEN Out(RPick(got, n, TRUE), PutOrDel(K, a[2], "set", s \ got, s = got))
            ELSE Out(RPick(s, n, TRUE), K)   \* cannot be matched by a wrong reply: n distinct members of s
                                               \* were required and `got` is not such a set

CmdSRANDMEMBER(a, K) ==
  IF Len(a) < 2 \/ Len(a) > 3 THEN Fail(K)
  ELSE IF Len(a) = 3 /\ ~IsInt(a[3]) THEN Fail(K)
  ELSE IF WrongT(K, a[2], "set") THEN Fail(K)
  ELSE LET s == SetVal(K, a[2]) IN
    IF Len(a) = 2 THEN (IF s = {} THEN Out(RNil, K) ELSE Out(ROneOf({RBulk(m) : m \in s}), K))
    ELSE LET c == SmallOf(a[3]) IN
      IF s = {} THEN Out(RArr(<<>>), K)
      ELSE IF c >= 0 THEN Out(RPick(s, Min2(c, Cardinality(s)), TRUE), K)
      ELSE Out(RPick(s, -c, FALSE), K)

-----------------------------------------------------------------------------
(* HASHES *)
HashVal(K, k) == IF Has(K, k) THEN K[k].v ELSE <<>>

RECURSIVE HSetFrom(_, _, _)
HSetFrom(a, i, h) == IF i > Len(a) THEN h ELSE HSetFrom(a, i + 2, (a[i] :> a[i + 1]) @@ h)

CmdHSET(a, K, multi) ==
  IF Len(a) < 4 \/ Len(a) % 2 # 0 THEN Fail(K)
  ELSE IF WrongT(K, a[2], "hash") THEN Fail(K)
  ELSE LET old == HashVal(K, a[2])
           nh == HSetFrom(a, 3, old)
           added == Cardinality(DOMAIN nh) - Cardinality(DOMAIN old)
       IN Out(IF multi THEN ROk ELSE RInt(added), Put(K, a[2], HashE(nh, ExpOf(K, a[2]))))

HGetR(h, f) == IF f \in DOMAIN h THEN RBulk(h[f]) ELSE RNil

CmdHGET(a, K) ==
  IF Len(a) # 3 THEN Fail(K)
  ELSE IF WrongT(K, a[2], "hash") THEN Fail(K)
  ELSE Out(HGetR(HashVal(K, a[2]), a[3]), K)

CmdHMGET(a, K) ==
  IF Len(a) < 3 THEN Fail(K)
  ELSE IF WrongT(K, a[2], "hash") THEN Fail(K)
  ELSE LET h == HashVal(K, a[2]) IN Out(RArr([i \in 1..(Len(a) - 2) |-> HGetR(h, a[i + 2])]), K)

(* flat array f1 v1 f2 v2 ... in any field order *)
RPairs(h) == [t |-> "pairs", v |-> h]

CmdHGETALL(a, K) ==
  IF Len(a) # 2 THEN Fail(K)
  ELSE IF WrongT(K, a[2], "hash") THEN Fail(K)
  ELSE Out(RPairs(HashVal(K, a[2])), K)

CmdHDEL(a, K) ==
  IF Len(a) < 3 THEN Fail(K)
  ELSE IF WrongT(K, a[2], "hash") THEN Fail(K)
  ELSE IF ~Has(K, a[2]) THEN Out(RInt(0), K)
  ELSE LET h == K[a[2]].v gone == SeqSet(Args(a, 3)) \cap DOMAIN h
           nh == [f \in (DOMAIN h) \ gone |-> h[f]]
       IN Out(RInt(Cardinality(gone)), PutOrDel(K, a[2], "hash", nh, DOMAIN nh = {}))

CmdHLEN(a, K) ==
  IF Len(a) # 2 THEN Fail(K)
  ELSE IF WrongT(K, a[2], "hash") THEN Fail(K)
  ELSE Out(RInt(Cardinality(DOMAIN HashVal(K, a[2]))), K)

CmdHEXISTS(a, K) ==
  IF Len(a) # 3 THEN Fail(K)
  ELSE IF WrongT(K, a[2], "hash") THEN Fail(K)
  ELSE Out(RInt(IF a[3] \in DOMAIN HashVal(K, a[2]) THEN 1 ELSE 0), K)

CmdHKEYS(a, K) ==
  IF Len(a) # 2 THEN Fail(K)
  ELSE IF WrongT(K, a[2], "hash") THEN Fail(K)
  ELSE Out(RBulkBag(SetToSeq(DOMAIN HashVal(K, a[2]))), K)

CmdHVALS(a, K) ==
  IF Len(a) # 2 THEN Fail(K)
  ELSE IF WrongT(K, a[2], "hash") THEN Fail(K)
  ELSE LET h == HashVal(K, a[2]) fs == SetToSeq(DOMAIN h)
       IN Out(RBulkBag([i \in 1..Len(fs) |-> h[fs[i]]]), K)

CmdHINCRBY(a, K) ==
  IF Len(a) # 4 THEN Fail(K)
  ELSE IF ~IsInt(a[4]) THEN Fail(K)
  ELSE IF WrongT(K, a[2], "hash") THEN Fail(K)
  ELSE LET h == HashVal(K, a[2]) f == a[3] IN
    IF f \in DOMAIN h /\ ~IsInt(h[f]) THEN Fail(K)
    ELSE LET cur == IF f \in DOMAIN h THEN IntOf(h[f]) ELSE BigZero
             nv == BigAdd(cur, IntOf(a[4]))
         IN IF ~BigInI64(nv) THEN Fail(K)
            ELSE Out(RIntB(BigToBytes(nv)),
                     Put(K, a[2], HashE((f :> BigToBytes(nv)) @@ h, ExpOf(K, a[2]))))

-----------------------------------------------------------------------------
CollCommands == {"LPUSH", "RPUSH", "LPOP", "RPOP", "LLEN", "LRANGE", "LINDEX", "LSET", "LTRIM", "LREM",
  "SADD", "SREM", "SMEMBERS", "SISMEMBER", "SCARD", "SUNION", "SINTER", "SDIFF", "SPOP", "SRANDMEMBER",
  "HSET", "HMSET", "HGET", "HMGET", "HGETALL", "HDEL", "HLEN", "HEXISTS", "HKEYS", "HVALS", "HINCRBY"}

CollCmd(name, a, K, obs) ==
  CASE name = "LPUSH" -> CmdPUSH(a, K, TRUE)
    [] name = "RPUSH" -> CmdPUSH(a, K, FALSE)
    [] name = "LPOP" -> CmdPOP(a, K, TRUE)
    [] name = "RPOP" -> CmdPOP(a, K, FALSE)
    [] name = "LLEN" -> CmdLLEN(a, K)
    [] name = "LRANGE" -> CmdLRANGE(a, K)
    [] name = "LINDEX" -> CmdLINDEX(a, K)
    [] name = "LSET" -> CmdLSET(a, K)
    [] name = "LTRIM" -> CmdLTRIM(a, K)
    [] name = "LREM" -> CmdLREM(a, K)
    [] name = "SADD" -> CmdSADD(a, K)
    [] name = "SREM" -> CmdSREM(a, K)
    [] name = "SMEMBERS" -> CmdSMEMBERS(a, K)
    [] name = "SISMEMBER" -> CmdSISMEMBER(a, K)
    [] name = "SCARD" -> CmdSCARD(a, K)
    [] name = "SUNION" -> CmdSETALG(a, K, "union")
    [] name = "SINTER" -> CmdSETALG(a, K, "inter")
    [] name = "SDIFF" -> CmdSETALG(a, K, "diff")
    [] name = "SPOP" -> CmdSPOP(a, K, obs)
    [] name = "SRANDMEMBER" -> CmdSRANDMEMBER(a, K)
    [] name = "HSET" -> CmdHSET(a, K, FALSE)
    [] name = "HMSET" -> CmdHSET(a, K, TRUE)
    [] name = "HGET" -> CmdHGET(a, K)
    [] name = "HMGET" -> CmdHMGET(a, K)
    [] name = "HGETALL" -> CmdHGETALL(a, K)
    [] name = "HDEL" -> CmdHDEL(a, K)
    [] name = "HLEN" -> CmdHLEN(a, K)
    [] name = "HEXISTS" -> CmdHEXISTS(a, K)
    [] name = "HKEYS" -> CmdHKEYS(a, K)
    [] name = "HVALS" -> CmdHVALS(a, K)
    [] name = "HINCRBY" -> CmdHINCRBY(a, K)

=============================================================================
