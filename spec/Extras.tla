------------------------------- MODULE Extras -------------------------------
(***************************************************************************)
(* Commands that only the script executor of ferrous implements: they are  *)
(* reachable through redis.call / redis.pcall alone, the direct dispatch   *)
(* answers "unknown command".  Bit operations on strings and range         *)
(* removals on sorted sets, with the Redis reference semantics             *)
(* (bitops.c, t_zset.c).  See Ferrous.tla (ScriptOnlyCmds) for how the     *)
(* two paths are told apart: by property C12 a script call means what the  *)
(* direct command means, so the executor's extra commands are a listed     *)
(* deviation (script_superset) whose outcomes are the ones below.          *)
(***************************************************************************)
EXTENDS Scan

RECURSIVE Pow2(_)
Pow2(n) == IF n = 0 THEN 1 ELSE 2 * Pow2(n - 1)
BitAt(byte, i) == (byte \div Pow2(7 - i)) % 2             \* i = 0 is the most significant bit
RECURSIVE PopByte(_)
PopByte(x) == IF x = 0 THEN 0 ELSE (x % 2) + PopByte(x \div 2)
RECURSIVE PopSeq(_, _, _)
PopSeq(v, i, j) == IF i > j THEN 0 ELSE PopByte(v[i]) + PopSeq(v, i + 1, j)

(* bit offsets: 0 .. 2^32 - 1 (a string holds at most 512 MB); the spec computes with offsets up to BitSpecMax *)
TwoTo32 == [neg |-> FALSE, d |-> <<4,2,9,4,9,6,7,2,9,6>>]
BitOffKind(b) == IF ~IsInt(b) \/ IntOf(b).neg THEN "bad"
                 ELSE IF BigCmp(IntOf(b), TwoTo32) >= 0 THEN "bad"
                 ELSE IF SmallOf(b) > 1000000 THEN "unspec" ELSE "ok"

CmdGETBIT(a, K) ==
  IF Len(a) # 3 THEN Fail(K)
  ELSE LET kd == BitOffKind(a[3]) IN
    IF kd = "bad" THEN Fail(K)
    ELSE IF WrongT(K, a[2], "string") THEN Fail(K)
    ELSE IF kd = "unspec" THEN Unspec(K)
    ELSE LET v == StrVal(K, a[2]) off == SmallOf(a[3]) byte == off \div 8 + 1
         IN Out(RInt(IF byte > Len(v) THEN 0 ELSE BitAt(v[byte], off % 8)), K)

(* SETBIT key offset 0|1: the string grows with zero bytes as needed; the time to live stays (in-place modification) *)
CmdSETBIT(a, K) ==
  IF Len(a) # 4 THEN Fail(K)
  ELSE LET kd == BitOffKind(a[3]) IN
    IF kd = "bad" \/ a[4] \notin {<<48>>, <<49>>} THEN Fail(K)
    ELSE IF WrongT(K, a[2], "string") THEN Fail(K)
    ELSE IF kd = "unspec" THEN Unspec(K)
    ELSE LET old == StrVal(K, a[2]) off == SmallOf(a[3]) byte == off \div 8 + 1 bit == off % 8
             padded == IF Len(old) < byte THEN old \o Zeros(byte - Len(old)) ELSE old
             was == BitAt(padded[byte], bit)
             want == a[4][1] - 48
             nb == padded[byte] + (want - was) * Pow2(7 - bit)
             nv == [padded EXCEPT ![byte] = nb]
         IN Out(RInt(was), Put(K, a[2], StrE(nv, ExpOf(K, a[2]))))

(* BITCOUNT key [start end]  (byte indices, negative from the end) *)
CmdBITCOUNT(a, K) ==
  IF Len(a) = 3 THEN Fail(K)
  ELSE IF Len(a) < 2 \/ Len(a) > 5 THEN Fail(K)
  ELSE IF Len(a) = 5 THEN Unspec(K)                        \* BYTE | BIT (Redis 7)
  ELSE IF Len(a) = 4 /\ (~IsInt(a[3]) \/ ~IsInt(a[4])) THEN Fail(K)
  ELSE IF WrongT(K, a[2], "string") THEN Fail(K)
  ELSE LET v == StrVal(K, a[2]) len == Len(v) IN
    IF Len(a) = 2 THEN Out(RInt(PopSeq(v, 1, len)), K)
    ELSE LET s0 == SmallOf(a[3]) e0 == SmallOf(a[4])
             s1 == IF s0 < 0 THEN Max2(len + s0, 0) ELSE s0
             e1 == IF e0 < 0 THEN Max2(len + e0, 0) ELSE e0
             e2 == IF e1 >= len THEN len - 1 ELSE e1
         IN IF (s0 < 0 /\ e0 < 0 /\ s0 > e0) \/ len = 0 \/ s1 > e2 THEN Out(RInt(0), K)
            ELSE Out(RInt(PopSeq(v, s1 + 1, e2 + 1)), K)

(* ZREMRANGEBYRANK key start stop — ranks as in ZRANGE; removing everything removes the key *)
ZRemove(K, k, z, gone) ==
  LET nz == [m \in (DOMAIN z) \ gone |-> z[m]]
  IN Out(RInt(Cardinality(gone)), IF gone = {} THEN K ELSE PutOrDel(K, k, "zset", nz, DOMAIN nz = {}))

CmdZREMRANGEBYRANK(a, K) ==
  IF Len(a) # 4 THEN Fail(K)
  ELSE IF ~IsInt(a[3]) \/ ~IsInt(a[4]) THEN Fail(K)
  ELSE IF WrongT(K, a[2], "zset") THEN Fail(K)
  ELSE LET z == ZVal(K, a[2]) s == ZSeq(z)
           r == LRangeOf(Len(s), SmallOf(a[3]), SmallOf(a[4]))
       IN ZRemove(K, a[2], z, SeqSet(Sub(s, r.lo, r.hi)))

CmdZREMRANGEBYSCORE(a, K) ==
  IF Len(a) # 4 THEN Fail(K)
  ELSE LET kinds == {BoundKind(a[3]), BoundKind(a[4])} IN
    IF "unspec" \in kinds THEN Unspec(K)
    ELSE IF kinds # {"ok"} THEN Fail(K)
    ELSE IF WrongT(K, a[2], "zset") THEN Fail(K)
    ELSE LET z == ZVal(K, a[2]) lo == ScoreOf(a[3]) hi == ScoreOf(a[4])
         IN ZRemove(K, a[2], z, {m \in DOMAIN z : SLe(lo, z[m]) /\ SLe(z[m], hi)})

ExtraCommands == {"GETBIT", "SETBIT", "BITCOUNT", "ZREMRANGEBYRANK", "ZREMRANGEBYSCORE"}
ExtraCmd(name, a, K) ==
  CASE name = "GETBIT" -> CmdGETBIT(a, K)
    [] name = "SETBIT" -> CmdSETBIT(a, K)
    [] name = "BITCOUNT" -> CmdBITCOUNT(a, K)
    [] name = "ZREMRANGEBYRANK" -> CmdZREMRANGEBYRANK(a, K)
    [] name = "ZREMRANGEBYSCORE" -> CmdZREMRANGEBYSCORE(a, K)
=============================================================================
