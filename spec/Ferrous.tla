------------------------------- MODULE Ferrous -------------------------------
(***************************************************************************)
(* The server: numbered databases, connections, and the step relation      *)
(* Step(S, c, a, tm, obs) = set of allowed outcomes of connection c        *)
(* sending the argument vector a, observed within the time bracket tm.     *)
(*                                                                         *)
(* S = [dbs   : 0..15 -> key space,                                        *)
(*      conns : open connection id -> [db, ...]]                           *)
(* An outcome is [r, S, dv]: expected reply, state afterwards, deviations. *)
(***************************************************************************)
EXTENDS Colls

NDB == 16
DBs == 0..(NDB - 1)

NewConn == [db |-> 0]
InitS == [dbs |-> [d \in DBs |-> EmptyK], conns |-> <<>>]

SOut(r, S) == {[r |-> r, S |-> S, dv |-> {}]}
SFail(S) == SOut(RErr, S)

(* lift a single-database command outcome to the server state *)
Lift(S, d, outs) == {[r |-> o.r, S |-> [S EXCEPT !.dbs[d] = o.K], dv |-> o.dv] : o \in outs}

DataCmd(name, a, K, tm, obs) ==
  IF name \in StringCommands THEN StringCmd(name, a, K, tm)
  ELSE IF name \in CollCommands THEN CollCmd(name, a, K, obs)
  ELSE Unspec(K)

IsDataCmd(name) == name \in StringCommands \cup CollCommands

CmdSELECT(S, c, a) ==
  IF Len(a) # 2 THEN SFail(S)
  ELSE IF ~IsInt(a[2]) THEN SFail(S)
  ELSE LET n == SmallOf(a[2]) IN
    IF n < 0 \/ n >= NDB THEN SFail(S)
    ELSE SOut(ROk, [S EXCEPT !.conns[c].db = n])

CmdPING(S, a) ==
  IF Len(a) = 1 THEN SOut(RSt(L_PONG), S)
  ELSE IF Len(a) = 2 THEN SOut(RBulk(a[2]), S)
  ELSE SFail(S)

CmdECHO(S, a) == IF Len(a) = 2 THEN SOut(RBulk(a[2]), S) ELSE SFail(S)

CmdFLUSHALL(S, a) ==
  IF Len(a) = 1 \/ (Len(a) = 2 /\ Upper(a[2]) \in {L_ASYNC, L_SYNC})
  THEN SOut(ROk, [S EXCEPT !.dbs = [d \in DBs |-> EmptyK]]) ELSE SFail(S)

Step(S, c, a, tm, obs) ==
  IF Len(a) = 0 THEN SFail(S)
  ELSE LET name == CmdName(Upper(a[1]))
           d == S.conns[c].db
       IN
    IF IsDataCmd(name) THEN Lift(S, d, DataCmd(name, a, S.dbs[d], tm, obs))
    ELSE CASE name = "SELECT" -> CmdSELECT(S, c, a)
           [] name = "PING" -> CmdPING(S, a)
           [] name = "ECHO" -> CmdECHO(S, a)
           [] name = "FLUSHALL" -> CmdFLUSHALL(S, a)
           [] name = "?" -> SFail(S)
           [] OTHER -> SOut(RAny, S)

(* expiry of entries of database d as seen by a request in tm *)
PurgeDb(S, d, tm) == {[S EXCEPT !.dbs[d] = K2] : K2 \in PurgeChoices(S.dbs[d], tm)}

=============================================================================
