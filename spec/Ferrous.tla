------------------------------- MODULE Ferrous -------------------------------
(***************************************************************************)
(* The server: numbered databases, connections, and the step relation      *)
(*   Step(S, c, a, tm, obs) = set of allowed outcomes [r, S, dv] of        *)
(* connection c sending argument vector a within time bracket tm.          *)
(*                                                                         *)
(* S = [dbs   : 0..15 -> key space,                                        *)
(*      conns : open connection id -> connection record,                   *)
(*      pass  : NoPass | password bytes (requirepass),                     *)
(*      bseq  : counter giving blocked clients their order,                *)
(*      scans : <<conn, db, command, key>> -> open SCAN iteration (C19),   *)
(*      disk  : NoDump | the dataset held by the last completed dump (C09),*)
(*      aof   : NoAof | [dbs, db, scripts] = the dataset obtained by re-executing *)
(*              the append-only file so far on an empty server, and the    *)
(*              database its replay connection has selected (C11),         *)
(*      scripts : SHA1 digests (byte strings) of the scripts in the cache,  *)
(*      bg    : NoBg | [hist] while a background save runs: for every key  *)
(*              the entries (or Absent) it held since the save began (C10)]*)
(* connection record = [db, authed, multi, queue, qerr, watch, subs, psubs, *)
(*                      inbox]                                             *)
(*   subs/psubs : channels / patterns subscribed; inbox : push frames the  *)
(*                server owes this client, in order (C14)                  *)
(*   blocked : NotBlocked | [k |-> "yes", keys, left, db, to (ms, 0 = for   *)
(*             ever), sent, got (observer times of request / eventual     *)
(*             reply), ord (blocking order), r (the reply the client       *)
(*             eventually received)]   (C13)                               *)
(*   closing : the client has closed its socket but the server may not     *)
(*             have noticed yet (it must after one full event-loop pass)   *)
(*   watch : <<db, key>> -> "clean" | "may" | "must"   (dirtiness since    *)
(*           WATCH: nothing touched it / a no-op write addressed it /      *)
(*           its value, existence or TTL changed)                          *)
(***************************************************************************)
EXTENDS Extras

NDB == 16
DBs == 0..(NDB - 1)
NoPass == [k |-> "nopass"]
NoObs == [t |-> "noobs"]
NotBlocked == [k |-> "no"]

NoName == [t |-> "noname"]
NewConn(S) == [db |-> 0, authed |-> (S.pass = NoPass), multi |-> FALSE, queue |-> <<>>, qerr |-> FALSE,
               watch |-> <<>>, subs |-> {}, psubs |-> {}, inbox |-> <<>>, closing |-> FALSE, blocked |-> NotBlocked,
               name |-> NoName, sid |-> 0]
NoDump == [k |-> "nodump"]
NoBg == [k |-> "nobg"]
Absent == [t |-> "absent"]
NoAof == [k |-> "noaof"]
InitS == [dbs |-> [d \in DBs |-> EmptyK], conns |-> <<>>, pass |-> NoPass, bseq |-> 0, scans |-> <<>>, disk |-> NoDump,
          aof |-> NoAof, scripts |-> {}, bg |-> NoBg, progs |-> <<>>, killed |-> {}]

SOut(r, S) == {[r |-> r, S |-> S, dv |-> {}]}
SFail(S) == SOut(RErr, S)
SDev(name, r, S) == IF name \in Deviations THEN {[r |-> r, S |-> S, dv |-> {name}]} ELSE {}

(* lift a single-database command outcome to the server state *)
Lift(S, d, outs) == {[r |-> o.r, S |-> [S EXCEPT !.dbs[d] = o.K], dv |-> o.dv] : o \in outs}

DataCmd(name, a, K, tm, obs) ==
  IF name \in StringCommands THEN StringCmd(name, a, K, tm)
  ELSE IF name \in CollCommands THEN CollCmd(name, a, K, obs)
  ELSE IF name \in ZSetCommands THEN ZSetCmd(name, a, K)
  ELSE IF name \in StreamCommands THEN StreamCmd(name, a, K, obs)
  ELSE Unspec(K)

IsDataCmd(name) == name \in StringCommands \cup CollCommands \cup ZSetCommands \cup StreamCommands

ReadOnlyCmds == {"GETBIT", "BITCOUNT", "GET", "MGET", "STRLEN", "GETRANGE", "EXISTS", "TYPE", "KEYS", "DBSIZE", "RANDOMKEY",
  "TTL", "PTTL", "LLEN", "LRANGE", "LINDEX", "SMEMBERS", "SISMEMBER", "SCARD", "SUNION", "SINTER", "SDIFF",
  "SRANDMEMBER", "HGET", "HMGET", "HGETALL", "HLEN", "HEXISTS", "HKEYS", "HVALS", "ZSCORE", "ZCARD", "ZRANK",
  "ZREVRANK", "ZRANGE", "ZREVRANGE", "ZRANGEBYSCORE", "ZREVRANGEBYSCORE", "ZCOUNT", "XRANGE", "XREVRANGE",
  "XLEN", "XREAD", "XPENDING", "XINFO", "SCAN", "HSCAN", "SSCAN", "ZSCAN", "PING", "ECHO", "SELECT"}

NameOf(a) == CmdName(Upper(a[1]))
RECURSIVE Exec1(_, _, _, _, _, _)      \* defined below; scripts and transactions run commands through it
RECURSIVE ExecExtra(_, _, _, _)         \* defined below: a command only the script executor implements

-----------------------------------------------------------------------------
(* connection-level commands *)
CmdSELECT(S, c, a) ==
  IF Len(a) # 2 THEN SFail(S)
  ELSE IF ~IsInt(a[2]) THEN SFail(S)
  ELSE LET n == SmallOf(a[2]) IN
    IF n < 0 \/ n >= NDB THEN SFail(S)
    ELSE SOut(ROk, [S EXCEPT !.conns[c].db = n])

CmdPING(S, a) ==
  IF Len(a) = 1 THEN SOut(RSt(L_PONG), S)
  ELSE IF Len(a) = 2 THEN SOut(RBulk(a[2]), S)
  ELSE SFail(S)

CmdECHO(S, a) == IF Len(a) = 2 THEN SOut(RBulk(a[2]), S) ELSE SFail(S)

CmdFLUSHALL(S, a) ==
  IF Len(a) = 1 \/ (Len(a) = 2 /\ Upper(a[2]) \in {L_ASYNC, L_SYNC})
  THEN SOut(ROk, [S EXCEPT !.dbs = [d \in DBs |-> EmptyK]]) ELSE SFail(S)

(* AUTH password — only the exact password authenticates; a failed AUTH changes nothing *)
CmdAUTH(S, c, a) ==
  IF Len(a) # 2 THEN SFail(S)
  ELSE IF S.pass = NoPass THEN SFail(S)
  ELSE IF a[2] = S.pass THEN SOut(ROk, [S EXCEPT !.conns[c].authed = TRUE])
  ELSE SFail(S)

-----------------------------------------------------------------------------
(* PUB/SUB (C14).  A command of this family is answered by one frame per channel/pattern named. *)
RMulti(fs) == [t |-> "multi", v |-> fs]
SubCount(cn) == Cardinality(cn.subs) + Cardinality(cn.psubs)
AckFrame(kind, name, n) == RArr(<<RBulk(kind), name, RInt(n)>>)

RECURSIVE SubFrom(_, _, _, _, _)
SubFrom(cn, a, i, pat, acc) == \* subscribe to a[i..]; acc = frames so far
  IF i > Len(a) THEN [cn |-> cn, fs |-> acc]
  ELSE LET cn2 == IF pat THEN [cn EXCEPT !.psubs = @ \cup {a[i]}] ELSE [cn EXCEPT !.subs = @ \cup {a[i]}]
       IN SubFrom(cn2, a, i + 1, pat,
                  Append(acc, AckFrame(IF pat THEN L_psubscribe ELSE L_subscribe, RBulk(a[i]), SubCount(cn2))))

CmdSUBSCRIBE(S, c, a, pat) ==
  IF Len(a) < 2 THEN SFail(S)
  ELSE LET res == SubFrom(S.conns[c], a, 2, pat, <<>>)
       IN SOut(RMulti(res.fs), [S EXCEPT !.conns[c] = res.cn])

RECURSIVE UnsubFrom(_, _, _, _, _)
UnsubFrom(cn, a, i, pat, acc) ==
  IF i > Len(a) THEN [cn |-> cn, fs |-> acc]
  ELSE LET cn2 == IF pat THEN [cn EXCEPT !.psubs = @ \ {a[i]}] ELSE [cn EXCEPT !.subs = @ \ {a[i]}]
       IN UnsubFrom(cn2, a, i + 1, pat,
                    Append(acc, AckFrame(IF pat THEN L_punsubscribe ELSE L_unsubscribe, RBulk(a[i]), SubCount(cn2))))

(* without arguments: one frame per current subscription in any order, counts decreasing;
   a single frame with a nil name when there is nothing to unsubscribe from *)
CmdUNSUBSCRIBE(S, c, a, pat) ==
  LET cn == S.conns[c]
      kind == IF pat THEN L_punsubscribe ELSE L_unsubscribe
      cur == IF pat THEN cn.psubs ELSE cn.subs
      other == IF pat THEN Cardinality(cn.subs) ELSE Cardinality(cn.psubs)
      cleared == IF pat THEN [cn EXCEPT !.psubs = {}] ELSE [cn EXCEPT !.subs = {}]
  IN IF Len(a) >= 2
     THEN LET res == UnsubFrom(cn, a, 2, pat, <<>>) IN SOut(RMulti(res.fs), [S EXCEPT !.conns[c] = res.cn])
     ELSE IF cur = {} THEN SOut(RMulti(<<AckFrame(kind, RNil, other)>>), S)
     ELSE SOut([t |-> "unsuball", kind |-> kind, chans |-> cur, base |-> other], [S EXCEPT !.conns[c] = cleared])

(* frames a PUBLISH on ch owes connection x, in order: the channel subscription first is not prescribed,
   so the frames of one publish to one client form a bag *)
PubFrames(cn, ch, msg) ==
  (IF ch \in cn.subs THEN <<RArr(<<RBulk(L_message), RBulk(ch), RBulk(msg)>>)>> ELSE <<>>)
  \o LET ps == SetToSeq({p \in cn.psubs : Glob(p, ch)})
     IN [i \in 1..Len(ps) |-> RArr(<<RBulk(L_pmessage), RBulk(ps[i]), RBulk(ch), RBulk(msg)>>)]

CmdPUBLISH(S, a) ==
  IF Len(a) # 3 THEN SFail(S)
  ELSE LET fr == [x \in DOMAIN S.conns |-> PubFrames(S.conns[x], a[2], a[3])]
           RECURSIVE Sum(_)
           Sum(X) == IF X = {} THEN 0 ELSE LET x == CHOOSE x \in X : TRUE IN Len(fr[x]) + Sum(X \ {x})
           live == {x \in DOMAIN S.conns : ~S.conns[x].closing}
           (* a client that has just closed its socket may or may not still be counted *)
           reply == IF live = DOMAIN S.conns THEN RInt(Sum(live)) ELSE RIntRange(Sum(live), Sum(DOMAIN S.conns))
       IN SOut(reply,
               [S EXCEPT !.conns = [x \in DOMAIN S.conns |->
                  IF fr[x] = <<>> \/ S.conns[x].closing THEN S.conns[x]
                  ELSE [S.conns[x] EXCEPT !.inbox = Append(@, fr[x])]]])    \* one bag per publish

-----------------------------------------------------------------------------
(* BLOCKING POPS (C13).  BLPOP/BRPOP key [key ...] timeout                 *)
(* timeout: decimal seconds >= 0, fractions allowed (exact in ms)          *)
TimeoutKind(b) == IF IsNaNStr(b) \/ IsInfStr(b) THEN "bad"
                  ELSE IF InDomain(b) THEN (IF IsNeg(b) /\ ScaledOf(b) # 0 THEN "bad" ELSE "ok")
                  ELSE IF IsDecimal(Body(b)) THEN "unspec" ELSE "bad"

FirstReady(K, keys) == \* index of the first key holding a list with elements, 0 if none
  LET ready == {i \in 1..Len(keys) : IsT(K, keys[i], "list")} IN IF ready = {} THEN 0 ELSE MinOf(ready)
FirstWrong(K, keys) ==
  LET w == {i \in 1..Len(keys) : WrongT(K, keys[i], "list")} IN IF w = {} THEN 0 ELSE MinOf(w)

PopFrom(K, k, left) ==
  LET v == K[k].v
      x == IF left THEN Head(v) ELSE v[Len(v)]
      nv == IF left THEN Tail(v) ELSE Sub(v, 1, Len(v) - 1)
  IN [x |-> x, K |-> PutOrDel(K, k, "list", nv, nv = <<>>)]

CmdBPOP(S, c, a, tm, obs, left, inTxn) ==
  IF Len(a) < 3 THEN SFail(S)
  ELSE LET tk == TimeoutKind(a[Len(a)]) IN
    IF tk = "bad" THEN SFail(S)
    ELSE IF tk = "unspec" THEN SOut(RAny, S)
    ELSE LET d == S.conns[c].db
             K == S.dbs[d]
             keys == Sub(a, 2, Len(a) - 1)
             fr == FirstReady(K, keys)
             fw == FirstWrong(K, keys)
         IN IF fw # 0 /\ (fr = 0 \/ fw < fr) THEN SFail(S)
            ELSE IF fr # 0
            THEN LET p == PopFrom(K, keys[fr], left)
                 IN SOut(RArr(<<RBulk(keys[fr]), RBulk(p.x)>>), [S EXCEPT !.dbs[d] = p.K])
            ELSE IF inTxn THEN SOut(RNilArr, S)
            ELSE (* the connection blocks: no reply now; obs = what the client eventually received *)
                 {[r |-> [t |-> "blocks"], dv |-> {},
                   S |-> [S EXCEPT !.bseq = @ + 1,
                                   !.conns[c].blocked = [k |-> "yes", keys |-> keys, left |-> left, db |-> d,
                                                         to |-> ScaledOf(a[Len(a)]), sent |-> tm.t0, got |-> tm.t1,
                                                         ord |-> S.bseq, r |-> obs]]]}

IsBlocked(cn) == cn.blocked # NotBlocked

-----------------------------------------------------------------------------
(* PERSISTENCE (C09).  SAVE writes the whole dataset as it is at that moment (entries past their deadline are
   not part of it); a restart loads exactly the last completed dump, dropping what expired in the meantime. *)
PurgeAllMust(dbs, tm) == [d \in DBs |-> DelAll(dbs[d], {k \in DOMAIN dbs[d] : MustGo(dbs[d][k], tm)})]
(* While a background save is under way a SAVE is refused (as Redis does); a server that carries it out all the same must
   not let the older background snapshot replace the newer dump afterwards (S.bg.late: BgDone then leaves the disk alone). *)
CmdSAVE(S, a, tm) ==
  IF Len(a) # 1 THEN SFail(S)
  ELSE LET saved == [S EXCEPT !.disk = [k |-> "dump", dbs |-> S.dbs, at |-> tm]] IN
    IF S.bg = NoBg THEN SOut(ROk, saved)
    ELSE SFail(S) \cup SOut(ROk, [saved EXCEPT !.bg.late = TRUE])

(* BACKGROUND SAVE (C10).  While it runs clients keep writing.  The dump it produces holds, for every key in it,
   an entry (value AND deadline together) that key actually had at one instant during the save; a key that was
   absent at some instant may be missing. *)
BgStart(S) == [S EXCEPT !.bg = [k |-> "bg", late |-> FALSE, hist |-> [d \in DBs |-> [key \in DOMAIN S.dbs[d] |-> {S.dbs[d][key]}]]]]
BgTrack(S0, S1) ==
  IF S1.bg = NoBg THEN S1
  ELSE [S1 EXCEPT !.bg.hist = [d \in DBs |->
          IF S0.dbs[d] = S1.dbs[d] THEN S1.bg.hist[d]
          ELSE LET h == S1.bg.hist[d]
                   ks == DOMAIN h \cup DOMAIN S0.dbs[d] \cup DOMAIN S1.dbs[d]
                   at(X, key) == IF key \in DOMAIN X.dbs[d] THEN X.dbs[d][key] ELSE Absent
               IN [key \in ks |-> (IF key \in DOMAIN h THEN h[key] ELSE {Absent}) \cup {at(S0, key), at(S1, key)}]]]
BgDone(S) == IF S.bg.late THEN [S EXCEPT !.bg = NoBg] ELSE [S EXCEPT !.disk = [k |-> "multi", hist |-> S.bg.hist], !.bg = NoBg]

RECURSIVE DbChoices(_, _)
DbChoices(h, ks) ==
  IF ks = {} THEN {EmptyK}
  ELSE LET key == CHOOSE x \in ks : TRUE
           rest == DbChoices(h, ks \ {key})
       IN UNION {{IF e = Absent THEN R ELSE Put(R, key, e) : R \in rest} : e \in h[key]}
RECURSIVE AllDbChoices(_, _, _)
AllDbChoices(hist, d, acc) == \* acc: set of dbs functions built so far for databases < d
  IF d >= NDB THEN acc
  ELSE AllDbChoices(hist, d + 1, UNION {{[X EXCEPT ![d] = K2] : K2 \in DbChoices(hist[d], DOMAIN hist[d])} : X \in acc})

(* the states a restart observed in tm may come up in: every connection is gone; deadlines survive to clock
   granularity (they are stored in ms of wall-clock time), so the intervals are widened by Eps *)
Widen(e) == IF e.exp.k = "at" THEN [e EXCEPT !.exp.lo = @ - Eps, !.exp.hi = @ + Eps] ELSE e
RECURSIVE PurgeAllDbs(_, _, _)
PurgeAllDbs(Ds, d, tm) == \* Ds: set of dbs functions
  IF d >= NDB THEN Ds
  ELSE PurgeAllDbs(UNION {{[X EXCEPT ![d] = K2] : K2 \in PurgeChoices(X[d], tm)} : X \in Ds}, d + 1, tm)
Restarted(S, tm) ==
  LET empty == [d \in DBs |-> EmptyK]
      bases == IF S.disk = NoDump THEN {empty}
               ELSE IF S.disk.k = "multi" THEN AllDbChoices(S.disk.hist, 0, {empty})
               ELSE {S.disk.dbs}
      wide == {[d \in DBs |-> [k \in DOMAIN B[d] |-> Widen(B[d][k])]] : B \in bases}
  IN {[S EXCEPT !.dbs = X, !.conns = <<>>, !.scans = <<>>, !.bg = NoBg] : X \in PurgeAllDbs(wide, 0, tm)}

-----------------------------------------------------------------------------
(* SCRIPTS (C12).  TLA+ does not parse Lua: the harness generates every script from a small DSL and records the
   program next to the request (obs = [t |-> "evalobs", r, prog, sha]).  A program is a sequence of statements
     [k |-> "call" | "pcall", a |-> <<arg,...>>, ret |-> 0|1]   redis.call / redis.pcall, optionally returned
     [k |-> "const", v |-> lua value]                           return <constant>
   arg = [l |-> bytes] | [key |-> i] | [arg |-> i];  lua value = [t |-> "nil"|"true"|"false"|"int"|"str"|"tab"|"ok"|"err", v]
   A script is ONE step: its calls run back to back through the same Exec1 as direct commands, on the caller's
   database; redis.call raises on an error reply (script aborted, earlier effects stay), redis.pcall continues. *)
NotInScripts == {"BLPOP", "BRPOP", "SUBSCRIBE", "UNSUBSCRIBE", "PSUBSCRIBE", "PUNSUBSCRIBE", "MULTI", "EXEC", "DISCARD",
  "WATCH", "UNWATCH", "AUTH", "QUIT", "SHUTDOWN", "SAVE", "BGSAVE", "BGREWRITEAOF", "MONITOR", "SYNC", "PSYNC", "REPLICAOF",
  "SLAVEOF", "REPLCONF", "CONFIG", "CLIENT", "EVAL", "EVALSHA", "SCRIPT", "SLEEP", "?"}

(* RESP reply -> Lua value -> RESP reply (applied to expected-reply patterns) *)
(* A Lua number is a double: an integer reply beyond 2^53 loses its low digits on the way through the script, so
   which integer comes back is not prescribed. *)
TwoTo53 == [neg |-> FALSE, d |-> <<9,0,0,7,1,9,9,2,5,4,7,4,0,9,9,2>>]
Inexact(b) == IsInt(b) /\ MagCmp(IntOf(b).d, TwoTo53.d) > 0
LuaInt(r) == IF Inexact(r.v) THEN RAnyInt ELSE r
RECURSIVE Conv(_)
Conv(r) ==
  CASE r.t \in {"nil", "nilarr"} -> RNil
    [] r.t = "arr" -> RArr([i \in 1..Len(r.v) |-> Conv(r.v[i])])
    [] r.t = "oneof" -> ROneOf({Conv(x) : x \in r.v})
    [] r.t = "int" -> LuaInt(r)
    [] OTHER -> r

(* Lua constant -> RESP reply *)
RECURSIVE LuaConst(_)
TabPrefix(v) == LET nils == {i \in 1..Len(v) : v[i].t = "nil"} IN IF nils = {} THEN v ELSE Sub(v, 1, MinOf(nils) - 1)
LuaConst(x) ==
  CASE x.t \in {"nil", "false"} -> RNil
    [] x.t = "true" -> RInt(1)
    [] x.t = "int" -> RIntB(x.v)               \* the harness writes numbers whose integer part this is
    [] x.t = "str" -> RBulk(x.v)
    [] x.t = "ok" -> RSt(x.v)
    [] x.t = "err" -> RErr
    [] x.t = "tab" -> LET p == TabPrefix(x.v) IN RArr([i \in 1..Len(p) |-> LuaConst(p[i])])

ResolveArg(x, keys, args) ==
  IF "l" \in DOMAIN x THEN x.l
  ELSE IF "key" \in DOMAIN x THEN keys[x.key] ELSE args[x.arg]

(* Known findings (pinned by the repository's own tests, so not repaired): with fz = TRUE the conversions are
   the ones ferrous performs — status reply -> plain string, empty table -> nil, a table is cut at its first nil
   element, false -> 0, a float -> its decimal text, {ok=}/{err=} tables -> nil, redis.pcall swallows the error
   (nil).  Arguments that are not valid UTF-8 are refused (script_binary). *)
RECURSIVE ConvF(_)
CutAtNil(v) == LET nils == {i \in 1..Len(v) : v[i] = RNil} IN IF nils = {} THEN v ELSE Sub(v, 1, MinOf(nils) - 1)
ConvF(r) ==
  CASE r.t \in {"nil", "nilarr"} -> RNil
    [] r.t = "st" -> RBulk(r.v)
    [] r.t = "arr" -> LET w == CutAtNil([i \in 1..Len(r.v) |-> ConvF(r.v[i])]) IN IF w = <<>> THEN RNil ELSE RArr(w)
    [] r.t \in {"bag", "pairs", "pick", "pendext"} -> ROneOf({r, RNil})       \* an empty collection reply becomes nil
    [] r.t = "oneof" -> ROneOf({ConvF(x) : x \in r.v})
    [] OTHER -> r
RECURSIVE LuaConstF(_)
LuaConstF(x) ==
  CASE x.t = "nil" -> RNil
    [] x.t = "false" -> RInt(0)
    [] x.t = "true" -> RInt(1)
    [] x.t = "int" -> ROneOf({RIntB(x.v), RAny})       \* a float is answered as text
    [] x.t = "str" -> RBulk(x.v)
    [] x.t \in {"ok", "err"} -> RNil
    [] x.t = "tab" -> LET p == TabPrefix(x.v) IN IF p = <<>> THEN RNil ELSE RArr([i \in 1..Len(p) |-> LuaConstF(p[i])])

(* UTF-8 validity (RFC 3629) *)
RECURSIVE Utf8From(_, _)
Cont(b, i) == i <= Len(b) /\ b[i] >= 128 /\ b[i] <= 191
Utf8From(b, i) ==
  IF i > Len(b) THEN TRUE
  ELSE LET c == b[i] IN
    IF c < 128 THEN Utf8From(b, i + 1)
    ELSE IF c >= 194 /\ c <= 223 THEN Cont(b, i + 1) /\ Utf8From(b, i + 2)
    ELSE IF c >= 224 /\ c <= 239 THEN
         /\ Cont(b, i + 1) /\ Cont(b, i + 2)
         /\ (c = 224 => b[i + 1] >= 160) /\ (c = 237 => b[i + 1] <= 159)
         /\ Utf8From(b, i + 3)
    ELSE IF c >= 240 /\ c <= 244 THEN
         /\ Cont(b, i + 1) /\ Cont(b, i + 2) /\ Cont(b, i + 3)
         /\ (c = 240 => b[i + 1] >= 144) /\ (c = 244 => b[i + 1] <= 143)
         /\ Utf8From(b, i + 4)
    ELSE FALSE
IsUtf8(b) == Utf8From(b, 1)

(* run statements i.. ; result: set of [r, S, dv]; fz: ferrous' conversions (see above) *)
RECURSIVE RunProg(_, _, _, _, _, _, _, _, _)
RunProg(S, c, prog, i, keys, args, tm, fz, robs) ==
  IF i > Len(prog) THEN SOut(RNil, S)                       \* fell off the end: nil
  ELSE LET st == prog[i] IN
    IF st.k = "const" THEN SOut(IF fz THEN LuaConstF(st.v) ELSE LuaConst(st.v), S)
    ELSE LET argv == [j \in 1..Len(st.a) |-> ResolveArg(st.a[j], keys, args)]
             name == IF Len(argv) = 0 THEN "?" ELSE NameOf(argv)
             binary == \E j \in 1..Len(argv) : ~IsUtf8(argv[j])
             outs == IF name \in NotInScripts THEN SFail(S)
                     ELSE IF name = "SELECT"
                     THEN (* a connection command: refused (C12), or, as in Redis, a selection that lasts until the script
                             ends (CmdEVAL restores the connection's own selection) — never a selection that outlives it *)
                          SFail(S) \cup CmdSELECT(S, c, argv)
                     ELSE IF name \in ExtraCommands
                     THEN (* by C12 a script call means what the direct command means, and the direct dispatch does not know
                             these commands: an error.  KNOWN FINDING script_superset: the executor implements them. *)
                          SFail(S) \cup (IF "script_superset" \in Deviations
                                         THEN {[o EXCEPT !.dv = @ \cup {"script_superset"}] : o \in ExecExtra(S, c, argv, tm)}
                                         ELSE {})
                     ELSE IF binary /\ "script_binary" \in Deviations
                     THEN {[r |-> RErr, S |-> S, dv |-> {"script_binary"}]}
                     ELSE Exec1(S, c, argv, tm, IF st.ret = 1 /\ (name \notin ScanCommands \/ ObsOK(robs)) THEN robs ELSE NoObs, TRUE)
         IN UNION {
              IF o.r.t = "err" /\ st.k = "call" THEN {[r |-> RErr, S |-> o.S, dv |-> o.dv]}          \* raised: script aborted
              ELSE IF st.ret = 1
              THEN {[r |-> IF fz THEN (IF o.r.t = "err" THEN RNil ELSE ConvF(o.r)) ELSE Conv(o.r), S |-> o.S, dv |-> o.dv]}
              ELSE {[x EXCEPT !.dv = @ \cup o.dv] : x \in RunProg(o.S, c, prog, i + 1, keys, args, tm, fz, robs)}
              : o \in outs}

(* EVAL script numkeys key... arg...  /  EVALSHA sha numkeys key... arg... *)
CmdEVAL(S, c, a, tm, obs, bysha) ==
  IF Len(a) < 3 THEN SFail(S)
  ELSE IF ~IsInt(a[3]) \/ IntOf(a[3]).neg THEN SFail(S)
  ELSE LET nk == SmallOf(a[3]) IN
    IF nk > Len(a) - 3 THEN SFail(S)
    ELSE IF obs.t # "evalobs" THEN SOut(RAny, S)             \* no program recorded: not prescribed
    ELSE IF bysha /\ obs.sha \notin S.scripts THEN SFail(S)  \* NOSCRIPT
    ELSE IF obs.prog = <<>> THEN SOut(RAny, S)
    ELSE IF obs.prog[1].k = "probe"
    THEN (* sandbox probe: a forbidden global or command must be unreachable — error or nil, nothing changes *)
         SOut(ROneOf({RErr, RNil}), S)
    ELSE LET keys == Sub(a, 4, 3 + nk) args == Sub(a, 4 + nk, Len(a))
             S1 == IF bysha THEN S ELSE [S EXCEPT !.scripts = @ \cup {obs.sha}]
             Back(o) == [o EXCEPT !.S.conns[c].db = S.conns[c].db]      \* a selection made inside the script ends with it
         IN {Back(o) : o \in RunProg(S1, c, obs.prog, 1, keys, args, tm, FALSE, obs.r)}
            \cup (IF "script_conv" \in Deviations
                  THEN {Back([o EXCEPT !.dv = @ \cup {"script_conv"}]) : o \in RunProg(S1, c, obs.prog, 1, keys, args, tm, TRUE, obs.r)}
                  ELSE {})

(* A script queued in a transaction runs at EXEC time: the program recorded when the request was queued (S.progs,
   keyed by script source and by digest) stands in for the observation. *)
ProgObs(S, a, ob) ==
  IF Len(a) >= 2 /\ a[2] \in DOMAIN S.progs
  THEN [t |-> "evalobs", r |-> ob, prog |-> S.progs[a[2]].prog, sha |-> S.progs[a[2]].sha]
  ELSE ob
RegProg(S, a, prog, sha) ==
  LET name == IF Len(a) = 0 THEN "?" ELSE NameOf(a)
      keys == IF name \in {"EVAL", "EVALSHA"} /\ Len(a) >= 2 THEN {a[2], sha}
              ELSE IF name = "SCRIPT" /\ Len(a) = 3 THEN {a[3], sha} ELSE {}
  IN [S EXCEPT !.progs = [k \in keys |-> [prog |-> prog, sha |-> sha]] @@ @]

(* THE CONNECTION REGISTRY: CLIENT ID | GETNAME | SETNAME name | KILL ID n | LIST.
   conn.sid is the identifier the server gave the connection (0 until a CLIENT ID reply revealed it); identifiers are
   unique and grow with the order in which connections were accepted (the driver numbers its connections in that order).
   A killed connection stays in S.killed until the client has noticed (its next request is answered by a close). *)
NameOK(b) == \A i \in 1..Len(b) : b[i] >= 33 /\ b[i] <= 126      \* no spaces, newlines or control bytes
OpenNotClosing(S) == {x \in DOMAIN S.conns : ~S.conns[x].closing}
CmdCLIENT(S, c, a, obs) ==
  IF Len(a) < 2 THEN SFail(S)
  ELSE LET sub == Upper(a[2]) cn == S.conns[c] IN
    CASE sub = L_ID ->
           IF Len(a) # 2 THEN SFail(S)
           ELSE IF cn.sid # 0 THEN SOut(RInt(cn.sid), S)
           ELSE IF obs.t = "int" /\ IsInt(obs.v) /\ SmallOf(obs.v) > 0 /\ SmallOf(obs.v) < 1000000000
           THEN LET n == SmallOf(obs.v) IN
                IF \A x \in (DOMAIN S.conns) \ {c} : S.conns[x].sid # 0 =>
                      (IF x < c THEN S.conns[x].sid < n ELSE S.conns[x].sid > n)
                THEN SOut(RInt(n), [S EXCEPT !.conns[c].sid = n]) ELSE {}
           ELSE SOut(RIntRange(1, 999999999), S)
      [] sub = L_GETNAME ->
           IF Len(a) # 2 THEN SFail(S)
           ELSE SOut(IF cn.name.t = "noname" THEN RNil ELSE RBulk(cn.name.v), S)
      [] sub = L_SETNAME ->
           IF Len(a) # 3 THEN SFail(S)
           ELSE IF ~NameOK(a[3]) THEN SFail(S)
           ELSE SOut(ROk, [S EXCEPT !.conns[c].name = IF a[3] = <<>> THEN NoName ELSE [t |-> "name", v |-> a[3]]])
      [] sub = L_KILL ->
           IF Len(a) = 4 /\ Upper(a[3]) = L_ID
           THEN (IF ~IsInt(a[4]) \/ IntOf(a[4]).neg THEN SFail(S)
                 ELSE LET n == SmallOf(a[4])
                          victims == {x \in (DOMAIN S.conns) \ S.killed : S.conns[x].sid = n /\ n # 0}
                          unknown == {x \in (DOMAIN S.conns) \ {c} : S.conns[x].sid = 0}
                      IN IF c \in victims THEN SFail(S)                   \* a connection cannot kill itself
                         ELSE IF victims # {}
                         THEN (* the victim's subscriptions, transaction, watches and blocking registrations end at once;
                                 a victim that has just closed its end may be gone already *)
                              SOut(IF \E x \in victims : S.conns[x].closing THEN ROneOf({RInt(0), RInt(1)}) ELSE RInt(1), [S EXCEPT !.killed = @ \cup victims,
                                               !.conns = [x \in DOMAIN S.conns |->
                                                  IF x \in victims THEN [NewConn(S) EXCEPT !.sid = S.conns[x].sid]
                                                  ELSE S.conns[x]]])
                         ELSE IF unknown = {} THEN SOut(RInt(0), S)
                         ELSE SOut(RAny, S))       \* it may name a connection whose identifier was never asked for
           ELSE IF Len(a) < 3 THEN SFail(S)
           ELSE SOut(RAny, S)                      \* other filters: not prescribed (never generated)
      [] sub = L_LIST ->
           IF Len(a) # 2 THEN SOut(RAny, S)
           ELSE LET alive == (DOMAIN S.conns) \ S.killed IN
                SOut(RLines(Cardinality(alive \cap OpenNotClosing(S)), Cardinality(alive)), S)
      [] OTHER -> SOut(RAny, S)

(* SCRIPT LOAD body | SCRIPT EXISTS sha... | SCRIPT FLUSH *)
CmdSCRIPT(S, a, obs) ==
  IF Len(a) < 2 THEN SFail(S)
  ELSE LET sub == Upper(a[2]) IN
    IF sub = L_LOAD THEN
      (IF Len(a) # 3 THEN SFail(S)
       ELSE IF obs.t # "evalobs" THEN SOut(RAny, S)
       ELSE IF obs.prog # <<>> /\ obs.prog[1].k = "syntaxerror" THEN SFail(S)
       ELSE SOut(RBulk(obs.sha), [S EXCEPT !.scripts = @ \cup {obs.sha}]))
    ELSE IF sub = L_EXISTS THEN
      (IF Len(a) < 3 THEN SFail(S)
       ELSE SOut(RArr([i \in 1..(Len(a) - 2) |-> RInt(IF LowerB(a[i + 2]) \in S.scripts THEN 1 ELSE 0)]), S))
    ELSE IF sub = L_FLUSH THEN SOut(ROk, [S EXCEPT !.scripts = {}])
    ELSE SOut(RAny, S)

-----------------------------------------------------------------------------
(* cursor iterations (C19): one open iteration per <<connection, db, command, key>> *)
CmdSCANx(S, c, name, a, obs) ==
  LET d == S.conns[c].db
      key == IF name = "SCAN" \/ Len(a) < 2 THEN <<>> ELSE a[2]
      id == <<c, d, name, key>>
      it == IF id \in DOMAIN S.scans THEN S.scans[id] ELSE NoIter
  IN {[r |-> x.r, dv |-> {},
       S |-> [S EXCEPT !.scans = IF x.it = NoIter THEN [y \in (DOMAIN S.scans) \ {id} |-> S.scans[y]]
                                 ELSE (id :> x.it) @@ S.scans]]
      : x \in ScanCall(name, a, S.dbs[d], it, obs)}

(* every change of a database is seen by the iterations that are open on it *)
ScanTrack(S0, S1) ==
  IF DOMAIN S1.scans = {} THEN S1
  ELSE [S1 EXCEPT !.scans = [id \in DOMAIN S1.scans |->
          IF S0.dbs[id[2]] = S1.dbs[id[2]] THEN S1.scans[id]
          ELSE ScanObserve(id[3], id[4], S1.scans[id], S1.dbs[id[2]])]]

-----------------------------------------------------------------------------
(* WATCH bookkeeping *)
EntryAt(S, d, k) == IF k \in DOMAIN S.dbs[d] THEN S.dbs[d][k] ELSE [t |-> "absent"]

MustByName == {"SET", "GETSET", "SETEX", "PSETEX", "MSET"}
Worse(x, y) == IF x = "must" \/ y = "must" THEN "must" ELSE IF x = "may" \/ y = "may" THEN "may" ELSE "clean"

(* after a step S0 -> S1 made by a (non read-only) command `name a` executed in database d0 *)
MarkWatch(S0, S1, d0, name, a, r) ==
  LET named == {a[i] : i \in 2..Len(a)}
      (* consumer-group bookkeeping of a stream (deliveries, acknowledgements, claims, group administration) is not a change of the
         key's value, existence or time to live: such a command may or may not abort a watcher (DESIGN Appendix B) *)
      core(e) == IF e.t = "stream" THEN [e EXCEPT !.v.groups = <<>>] ELSE e
      status(d, k) ==
        IF core(EntryAt(S0, d, k)) # core(EntryAt(S1, d, k)) THEN "must"
        ELSE IF EntryAt(S0, d, k) # EntryAt(S1, d, k) THEN "may"
        ELSE IF name \in ReadOnlyCmds \/ r.t = "err" THEN "clean"
        ELSE IF name = "FLUSHALL" \/ (name = "FLUSHDB" /\ d = d0) THEN "may"
        ELSE IF d = d0 /\ k \in named THEN (IF name \in MustByName /\ r.t # "nil" THEN "must" ELSE "may")   \* (nil: SET NX/XX that did not set)
        ELSE "clean"
  IN [S1 EXCEPT !.conns = [x \in DOMAIN S1.conns |->
        [S1.conns[x] EXCEPT !.watch = [w \in DOMAIN S1.conns[x].watch |->
            Worse(S1.conns[x].watch[w], status(w[1], w[2]))]]]]

CmdWATCH(S, c, a) ==
  IF Len(a) < 2 THEN SFail(S)
  ELSE IF S.conns[c].multi THEN SFail(S)
  ELSE LET d == S.conns[c].db
           new == {<<d, a[i]>> : i \in 2..Len(a)}
           old == S.conns[c].watch
       IN SOut(ROk, [S EXCEPT !.conns[c].watch =
                       [w \in (DOMAIN old) \cup new |-> IF w \in DOMAIN old THEN old[w] ELSE "clean"]])

CmdUNWATCH(S, c, a) ==
  IF Len(a) # 1 THEN SFail(S) ELSE SOut(ROk, [S EXCEPT !.conns[c].watch = <<>>])

CmdMULTI(S, c, a) ==
  IF Len(a) # 1 THEN SFail(S)
  ELSE IF S.conns[c].multi THEN SFail(S)
  ELSE SOut(ROk, [S EXCEPT !.conns[c].multi = TRUE, !.conns[c].queue = <<>>, !.conns[c].qerr = FALSE])

ClearTxn(S, c) == [S EXCEPT !.conns[c].multi = FALSE, !.conns[c].queue = <<>>, !.conns[c].qerr = FALSE,
                            !.conns[c].watch = <<>>]

CmdDISCARD(S, c, a) ==
  IF Len(a) # 1 THEN SFail(S)
  ELSE IF ~S.conns[c].multi THEN SFail(S)
  ELSE SOut(ROk, ClearTxn(S, c))

-----------------------------------------------------------------------------
(* Immediate execution of one command (not the queueing decision). inTxn: executed as part of EXEC *)
RECURSIVE RunQueue(_, _, _, _, _, _, _)

(* run queue[i..] sequentially; acc = replies so far; result = set of [rs, S, dv] *)
RunQueue(S, c, q, i, tm, obs, acc) ==
  IF i > Len(q) THEN {[rs |-> acc.rs, S |-> S, dv |-> acc.dv]}
  ELSE LET ob == IF obs.t = "arr" /\ Len(obs.v) = Len(q) THEN obs.v[i] ELSE NoObs
       IN UNION { IF Match(o.r, ob) \/ ob = NoObs
                  THEN RunQueue(o.S, c, q, i + 1, tm, obs, [rs |-> Append(acc.rs, o.r), dv |-> acc.dv \cup o.dv])
                  ELSE {}
                  : o \in Exec1(S, c, q[i], tm, ob, TRUE) }

CmdEXEC(S, c, a, tm, obs) ==
  IF Len(a) # 1 THEN SFail(S)
  ELSE IF ~S.conns[c].multi THEN SFail(S)
  ELSE LET cn == S.conns[c]
           st == {cn.watch[w] : w \in DOMAIN cn.watch}
           cleared == ClearTxn(S, c)
           run == {[r |-> RArr(x.rs), S |-> x.S, dv |-> x.dv] :
                     x \in RunQueue(cleared, c, cn.queue, 1, tm, obs, [rs |-> <<>>, dv |-> {}])}
       IN IF cn.qerr THEN SOut(RErr, cleared)
          ELSE IF "must" \in st THEN SOut(RNilArr, cleared)
          ELSE IF "may" \in st THEN SOut(RNilArr, cleared) \cup run
          ELSE run

(* KNOWN FINDING lenient_int: every integer argument, and the stored value the INCR family / HINCRBY read, is parsed with
   a lenient decimal parser ('+5', '007', '-0' are accepted where Redis' string2ll refuses them).  Where the reference
   refuses the request (all outcomes are errors) the finding admits, tagged, what the command does when every such
   argument / stored value is read as the integer it denotes. *)
LooseOnly(b) == IsLooseInt(b) /\ ~IsCanonInt(b)
CanonOf(b) == BigToBytes(ParseBig(b))
LenientArgs(a) == [i \in 1..Len(a) |-> IF i >= 2 /\ LooseOnly(a[i]) THEN CanonOf(a[i]) ELSE a[i]]
LenientK(name, a, K) ==
  IF name \in {"INCR", "DECR", "INCRBY", "DECRBY"} /\ Len(a) >= 2 /\ IsT(K, a[2], "string") /\ LooseOnly(K[a[2]].v)
  THEN SetV(K, a[2], CanonOf(K[a[2]].v))
  ELSE IF name = "HINCRBY" /\ Len(a) >= 3 /\ IsT(K, a[2], "hash") /\ a[3] \in DOMAIN K[a[2]].v /\ LooseOnly(K[a[2]].v[a[3]])
  THEN SetV(K, a[2], [K[a[2]].v EXCEPT ![a[3]] = CanonOf(@)])
  ELSE K

Exec0(S, c, a, tm, obs, inTxn) ==
  LET name == NameOf(a)
      d == S.conns[c].db
  IN
        IF IsDataCmd(name) THEN Lift(S, d, DataCmd(name, a, S.dbs[d], tm, obs))
        ELSE CASE name = "SELECT" -> CmdSELECT(S, c, a)
               [] name = "PING" -> CmdPING(S, a)
               [] name = "ECHO" -> CmdECHO(S, a)
               [] name = "FLUSHALL" -> CmdFLUSHALL(S, a)
               [] name = "AUTH" -> CmdAUTH(S, c, a)
               [] name = "MULTI" -> CmdMULTI(S, c, a)
               [] name = "EXEC" -> (IF inTxn THEN SFail(S) ELSE CmdEXEC(S, c, a, tm, obs))
               [] name = "DISCARD" -> CmdDISCARD(S, c, a)
               [] name = "WATCH" -> CmdWATCH(S, c, a)
               [] name = "UNWATCH" -> CmdUNWATCH(S, c, a)
               [] name = "SUBSCRIBE" -> CmdSUBSCRIBE(S, c, a, FALSE)
               [] name = "PSUBSCRIBE" -> CmdSUBSCRIBE(S, c, a, TRUE)
               [] name = "UNSUBSCRIBE" -> CmdUNSUBSCRIBE(S, c, a, FALSE)
               [] name = "PUNSUBSCRIBE" -> CmdUNSUBSCRIBE(S, c, a, TRUE)
               [] name = "PUBLISH" -> CmdPUBLISH(S, a)
               [] name \in ScanCommands -> CmdSCANx(S, c, name, a, obs)
               [] name = "SAVE" -> CmdSAVE(S, a, tm)
               [] name = "EVAL" -> (IF inTxn THEN CmdEVAL(S, c, a, tm, ProgObs(S, a, obs), FALSE) ELSE CmdEVAL(S, c, a, tm, obs, FALSE))
               [] name = "EVALSHA" -> (IF inTxn THEN CmdEVAL(S, c, a, tm, ProgObs(S, a, obs), TRUE) ELSE CmdEVAL(S, c, a, tm, obs, TRUE))
               [] name = "SCRIPT" -> CmdSCRIPT(S, a, obs)
               [] name = "CLIENT" -> (IF inTxn THEN SOut(RAny, S) ELSE CmdCLIENT(S, c, a, obs))
               [] name = "BLPOP" -> CmdBPOP(S, c, a, tm, obs, TRUE, inTxn)
               [] name = "BRPOP" -> CmdBPOP(S, c, a, tm, obs, FALSE, inTxn)
               [] name = "?" -> SFail(S)
               [] name \in ExtraCommands -> SFail(S)       \* the direct dispatch (and EXEC) does not know them
               [] OTHER -> SOut(RAny, S)

ExecExtra(S, c, a, tm) ==
  LET name == NameOf(a) d == S.conns[c].db
  IN {[o EXCEPT !.S = BgTrack(S, ScanTrack(S, MarkWatch(S, o.S, d, name, a, o.r)))] : o \in Lift(S, d, ExtraCmd(name, a, S.dbs[d]))}

Exec1(S, c, a, tm, obs, inTxn) ==
  LET name == NameOf(a)
      d == S.conns[c].db
      strict == Exec0(S, c, a, tm, obs, inTxn)
      raw ==
        IF "lenient_int" \in Deviations /\ name \notin {"EVAL", "EVALSHA", "EXEC", "?"} /\ (\A o \in strict : o.r.t = "err")
        THEN LET a2 == LenientArgs(a)
                 K2 == LenientK(name, a, S.dbs[d])
             IN IF a2 = a /\ K2 = S.dbs[d] THEN strict
                ELSE strict \cup {[o EXCEPT !.dv = @ \cup {"lenient_int"}] :
                                    o \in Exec0([S EXCEPT !.dbs[d] = K2], c, a2, tm, obs, inTxn)}
        ELSE strict
  IN {[o EXCEPT !.S = BgTrack(S, ScanTrack(S, MarkWatch(S, o.S, d, name, a, o.r)))] : o \in raw}

(* commands that are not queued inside MULTI *)
TxnControl == {"MULTI", "EXEC", "DISCARD", "WATCH", "UNWATCH"}

(* With a password configured an unauthenticated connection may only AUTH (PING/QUIT are harmless) *)
AuthGate(S, c, a) ==
  LET name == NameOf(a) IN
  CASE name = "AUTH" -> CmdAUTH(S, c, a)
    [] name = "PING" -> CmdPING(S, a) \cup SFail(S)
    [] name = "QUIT" -> SOut(ROk, S)
    [] OTHER -> SFail(S)

Step(S, c, a, tm, obs) ==
  IF Len(a) = 0 THEN SFail(S)
  ELSE LET name == NameOf(a) cn == S.conns[c] IN
    IF c \in S.killed THEN SOut(RClosed, S)     \* killed by CLIENT KILL: the server has closed the connection
    ELSE IF IsBlocked(cn) THEN {}      \* requests behind a blocking pop wait until the client is served or timed out
    ELSE IF S.pass # NoPass /\ ~cn.authed THEN AuthGate(S, c, a)
    ELSE IF cn.multi /\ name \notin TxnControl
    THEN (* queued; an unknown command may also be refused at once, which dooms the EXEC *)
         SOut(RSt(L_QUEUED), [S EXCEPT !.conns[c].queue = Append(cn.queue, a)])
         \cup (IF name = "?" THEN SOut(RErr, [S EXCEPT !.conns[c].qerr = TRUE]) ELSE {})
         \cup (* known finding: these are dispatched before the queueing decision and run at once *)
              (IF name \in {"PUBLISH", "AUTH", "SUBSCRIBE", "UNSUBSCRIBE", "PSUBSCRIBE", "PUNSUBSCRIBE"}
                  /\ "txn_immediate" \in Deviations
               THEN {[o EXCEPT !.dv = o.dv \cup {"txn_immediate"}] : o \in Exec1(S, c, a, tm, obs, FALSE)}
               ELSE {})
    ELSE Exec1(S, c, a, tm, obs, FALSE)

(* expiry of entries of database d as seen by a request in tm; watchers see the removal *)
PurgeDb(S, d, tm) ==
  {BgTrack(S, ScanTrack(S, MarkWatch(S, [S EXCEPT !.dbs[d] = K2], d, "GET", <<>>, RNil))) : K2 \in PurgeChoices(S.dbs[d], tm)}

(* the server serves blocked client c with `frame` = <<key, element>> (C13):
   c waits on that key, the list has that element at the proper end, c blocked first among the waiters of that
   key (FIFO), and the frame is what the client eventually received; all registrations of c end *)
Served(S, c, frame) ==
  IF c \notin DOMAIN S.conns \/ ~IsBlocked(S.conns[c]) THEN {}
  ELSE LET b == S.conns[c].blocked IN
    IF ~(frame.t = "arr" /\ Len(frame.v) = 2 /\ frame.v[1].t = "bulk" /\ frame.v[2].t = "bulk") THEN {}
    ELSE LET key == frame.v[1].v K == S.dbs[b.db] IN
      IF ~(key \in SeqSet(b.keys) /\ IsT(K, key, "list")) THEN {}
      ELSE LET p == PopFrom(K, key, b.left)
               earlier == {x \in DOMAIN S.conns : x # c /\ IsBlocked(S.conns[x])
                             /\ S.conns[x].blocked.db = b.db /\ key \in SeqSet(S.conns[x].blocked.keys)
                             /\ S.conns[x].blocked.ord < b.ord}
               S1 == [S EXCEPT !.dbs[b.db] = p.K, !.conns[c].blocked = NotBlocked]
           IN IF p.x = frame.v[2].v /\ earlier = {} /\ b.r = frame
              THEN {ScanTrack(S, MarkWatch(S, S1, b.db, "LPOP", <<L_LPOP, key>>, frame))} ELSE {}

TimeoutSlack == 3000
TimedOut(S, c) ==
  IF c \notin DOMAIN S.conns \/ ~IsBlocked(S.conns[c]) THEN {}
  ELSE LET b == S.conns[c].blocked IN
    IF b.to # 0 /\ b.r = RNilArr /\ b.got + Eps >= b.sent + b.to /\ b.got <= b.sent + b.to + TimeoutSlack
    THEN {[S EXCEPT !.conns[c].blocked = NotBlocked]} ELSE {}

(* quiescent point: nobody is left waiting on a key that holds elements *)
NoneStranded(S) ==
  \A c \in DOMAIN S.conns : IsBlocked(S.conns[c]) =>
     \A i \in 1..Len(S.conns[c].blocked.keys) : ~Has(S.dbs[S.conns[c].blocked.db], S.conns[c].blocked.keys[i])
(* the registrations the server should hold: exactly one per (blocked client, key), in blocking order *)
BlockedConns(S) == {c \in DOMAIN S.conns : IsBlocked(S.conns[c])}
ExpectedRegs(S) ==
  UNION {{<<S.conns[c].blocked.db, k, c>> : k \in SeqSet(S.conns[c].blocked.keys)} : c \in BlockedConns(S)}

-----------------------------------------------------------------------------
(* APPEND-ONLY FILE (C11).  `entries` = the command frames the server appended while it executed one request.
   Re-executing them, in order, on the replay state must reproduce the live dataset (values; TTL presence). *)
ReplayConn == 0
RECURSIVE AofApply(_, _, _, _, _)
AofApply(Rs, entries, i, tm, req) == \* Rs: set of replay states [dbs, db, scripts]; req = [a, obs] the live request
  IF i > Len(entries) THEN Rs
  ELSE AofApply(
         UNION {LET X == [InitS EXCEPT !.dbs = R.dbs, !.scripts = R.scripts,
                                       !.conns = (ReplayConn :> [NewConn(InitS) EXCEPT !.db = R.db])]
                    e == entries[i]
                    back(outs) == {[dbs |-> o.S.dbs, db |-> o.S.conns[ReplayConn].db, scripts |-> o.S.scripts] : o \in outs}
                IN IF Len(e) = 0 \/ NameOf(e) \in {"EXEC", "MULTI", "BLPOP", "BRPOP", "SUBSCRIBE", "PSUBSCRIBE"}
                   THEN {R}      \* never meaningful in a redo log; the dataset comparison decides
                   ELSE IF NameOf(e) \in {"EVAL", "EVALSHA"}
                   THEN (* a script logged verbatim: re-executing it runs the recorded program on the replay state
                           (nothing observed resolves its random choices; EVALSHA needs the script in the replay cache) *)
                        IF e = req.a /\ req.obs.t = "evalobs"
                        THEN back(Exec1(X, ReplayConn, e, tm, [req.obs EXCEPT !.r = NoObs], FALSE))
                        ELSE {}
                   ELSE back(Exec1(X, ReplayConn, e, tm, NoObs, TRUE))
                : R \in Rs},
         entries, i + 1, tm, req)

HasExp(e) == e.exp.k # "none"
SameEntry(x, y) == x.t = y.t /\ x.v = y.v /\ HasExp(x) = HasExp(y)
SameData(A, B) ==
  \A d \in DBs :
    /\ \A k \in DOMAIN A[d] : IF k \in DOMAIN B[d] THEN SameEntry(A[d][k], B[d][k]) ELSE HasExp(A[d][k])
    /\ \A k \in DOMAIN B[d] : k \in DOMAIN A[d] \/ HasExp(B[d][k])

(* command names whose logging is known to be unfaithful, per open finding *)
AofUnfaithful ==
  [aof_unlogged |-> {"XREADGROUP", "XAUTOCLAIM"},
   aof_random |-> {},
   aof_scripts |-> {"EVAL", "EVALSHA"}]

(* S1 = live state after request `a` of connection c (state before: S0); returns set of [S, dv] *)
AofStep(S0, S1, c, a, entries, tm, obs) ==
  IF S0.aof = NoAof THEN {[S |-> S1, dv |-> {}]}
  ELSE LET name == IF Len(a) = 0 THEN "?" ELSE NameOf(a)
           c0db == S0.conns[c].db
           (* a redo log replays to ONE outcome: every way of re-executing the entries must give the live dataset
              (an entry with a random outcome, logged verbatim, does not) *)
           req == [a |-> a, obs |-> obs]
           all == AofApply({S0.aof}, entries, 1, tm, req)
           strict == IF all # {} /\ \A R \in all : SameData(R.dbs, S1.dbs) THEN all ELSE {}
           (* known finding: no SELECT is ever logged, so everything replays into the database the replay
              connection happens to be on; reading the entries in the database the live command ran in *)
           indb == IF "aof_no_select" \in Deviations /\ c0db # S0.aof.db
                   THEN {R \in AofApply({[S0.aof EXCEPT !.db = c0db]}, entries, 1, tm, req) : SameData(R.dbs, S1.dbs)} ELSE {}
           queued == IF name = "EXEC" THEN {NameOf(S0.conns[c].queue[i]) : i \in 1..Len(S0.conns[c].queue)} ELSE {}
           resync0 == {dn \in DOMAIN AofUnfaithful : dn \in Deviations /\ ({name} \cup queued) \cap AofUnfaithful[dn] # {}}
           (* KNOWN FINDING aof_expiry_unlogged: a key that goes away because its deadline passed leaves no trace in the file (no DEL is
              written), so a command whose outcome depended on that — SETNX after the expiry, INCR starting over, a list re-created —
              replays on top of the old value whenever the replay is quicker than the deadline.  Admitted only when the replay state
              holds an entry whose deadline may have passed by the time of this request. *)
           expiring == \E d \in DBs : \E k \in DOMAIN S0.aof.dbs[d] : MayGo(S0.aof.dbs[d][k], tm)
           resync == resync0 \cup (IF "aof_expiry_unlogged" \in Deviations /\ expiring THEN {"aof_expiry_unlogged"} ELSE {})
       IN IF strict # {} THEN {[S |-> [S1 EXCEPT !.aof = R], dv |-> {}] : R \in strict}
          ELSE IF indb # {} THEN {[S |-> [S1 EXCEPT !.aof = [R EXCEPT !.db = S0.aof.db]], dv |-> {"aof_no_select"}] : R \in indb}
          ELSE {[S |-> [S1 EXCEPT !.aof = [dbs |-> S1.dbs, db |-> S0.aof.db, scripts |-> S0.aof.scripts]], dv |-> {dn}] : dn \in resync}

(* a connection goes away: its transaction and watches vanish with it *)
DropConn(S, c) == [S EXCEPT !.killed = @ \ {c},
                            !.conns = [x \in (DOMAIN S.conns) \ {c} |-> S.conns[x]],
                            !.scans = [id \in {y \in DOMAIN S.scans : y[1] # c} |-> S.scans[id]]]

=============================================================================
