---------------------------- MODULE FerrousTrace ----------------------------
(***************************************************************************)
(* Trace specification: decides whether a recorded execution of the real   *)
(* server (ndjson, one event per line, file named by env TRACE) is a       *)
(* behaviour of Ferrous.tla.  One disjunct per event kind.                 *)
(***************************************************************************)
EXTENDS Ferrous, Json, IOUtils, TLCExt

VARIABLES S, l, devs
vars == <<S, l, devs>>

Rec == ndJsonDeserialize(IOEnv.TRACE)
N == Len(Rec)

(* databases a request of connection c can observe: its own and those of its watched keys *)
RECURSIVE PurgeSeq(_, _, _)
PurgeSeq(Ss, ds, tm) ==
  IF ds = <<>> THEN Ss ELSE PurgeSeq(UNION {PurgeDb(X, Head(ds), tm) : X \in Ss}, Tail(ds), tm)
PurgeFor(X, c, tm) ==
  LET cn == X.conns[c]
      ds == {cn.db} \cup {w[1] : w \in DOMAIN cn.watch}
  IN PurgeSeq({X}, SetToSeq(ds), tm)

TraceInit == S = InitS /\ l = 1 /\ devs = {} /\ TLCSet(1, 0) /\ TLCSet(2, <<"none">>) /\ TLCSet(3, InitS)

Ev == Rec[l]

EvOpen ==
  /\ Ev.k = "open"
  /\ S' = [S EXCEPT !.conns = (Ev.c :> NewConn(S)) @@ S.conns]
  /\ UNCHANGED devs

EvClose ==
  /\ Ev.k = "close"
  /\ Ev.c \in DOMAIN S.conns
  (* a client that is still blocked (never served, never timed out) cannot have received a reply *)
  /\ (IsBlocked(S.conns[Ev.c]) => S.conns[Ev.c].blocked.r.t \in {"none", "closed"})
  (* ... and it is not left blocked long after its time-out was due (stranded client) *)
  /\ ((IsBlocked(S.conns[Ev.c]) /\ S.conns[Ev.c].blocked.to # 0 /\ "t" \in DOMAIN Ev)
        => Ev.t <= S.conns[Ev.c].blocked.sent + S.conns[Ev.c].blocked.to + TimeoutSlack)
  /\ S' = [S EXCEPT !.conns[Ev.c].closing = TRUE]
  /\ UNCHANGED devs

(* a full event-loop pass has run since the client closed: the server has seen the EOF *)
EvGone ==
  /\ Ev.k = "gone"
  /\ S' = DropConn(S, Ev.c)
  /\ UNCHANGED devs

EvReset ==  \* start of an independent segment: no connection is open, the driver flushes data and scripts next
  /\ Ev.k = "reset"
  /\ S' = [InitS EXCEPT !.pass = S.pass, !.dbs = S.dbs, !.scripts = S.scripts, !.aof = S.aof, !.disk = S.disk]
  /\ UNCHANGED devs

(* what the client received is what the server computed for that request (C05) *)
OneLine(b) == [i \in 1..Len(b) |-> IF b[i] \in {10, 13} THEN 32 ELSE b[i]]
ClientGot(r, sr) ==
  \/ sr.t = "none"
  \/ r = sr
  \/ r.t = "err" /\ sr.t = "err"                              \* wording is not compared
  \/ r.t = "st" /\ sr.t = "st" /\ r.v = OneLine(sr.v)

(* what the spec may look at besides the request: the observed reply, and for scripts the program the harness
   generated the Lua source from *)
ObsOf(e) == IF "prog" \in DOMAIN e THEN [t |-> "evalobs", r |-> e.r, prog |-> e.prog, sha |-> e.sha] ELSE e.r

EvCmd ==
  /\ Ev.k = "cmd"
  /\ Ev.c \in DOMAIN S.conns
  /\ LET tm == [t0 |-> Ev.t0, t1 |-> Ev.t1]
         Sr == IF "prog" \in DOMAIN Ev THEN RegProg(S, Ev.argv, Ev.prog, Ev.sha) ELSE S
     IN \E S1 \in PurgeFor(Sr, Ev.c, tm) :
          \E o \in Step(S1, Ev.c, Ev.argv, tm, ObsOf(Ev)) :
            /\ Match(o.r, Ev.r)
            /\ ("sr" \in DOMAIN Ev => ClientGot(Ev.r, Ev.sr))
            /\ (("sr" \in DOMAIN Ev /\ o.r.t = "blocks") => Ev.sr.t = "none")
            /\ ("sargv" \notin DOMAIN Ev)      \* the server executed exactly the request that was sent
            /\ ("unexecuted" \notin DOMAIN Ev) \* ... and it executed every request that was sent
            /\ ("aofpartial" \notin DOMAIN Ev)    \* the append-only file ends with a complete frame after every request
            (* a sequential recording (no server log) that waited for a blocking pop until it answered nil: the
               time-out is part of this very event *)
            /\ \E S3 \in (IF o.r.t = "blocks" /\ "sr" \notin DOMAIN Ev /\ Ev.r = RNilArr THEN TimedOut(o.S, Ev.c) ELSE {o.S}) :
                 IF "aof" \in DOMAIN Ev
                 THEN \E x \in AofStep(S, S3, Ev.c, Ev.argv, Ev.aof, tm, ObsOf(Ev)) : S' = x.S /\ devs' = devs \cup o.dv \cup x.dv
                 ELSE S' = S3 /\ devs' = devs \cup o.dv

(* a request that got a reply although the server has no record of executing it: an `unlogged` event is
   only acceptable when the client never got an answer (the connection was closed first) *)
EvUnlogged == Ev.k = "unlogged" /\ Ev.r.t \in {"closed", "none"} /\ UNCHANGED <<S, devs>>

(* result of a structure checker hook (skip list, pending-entry indexes, pub/sub maps): must be ok *)
EvChk == Ev.k = "chk" /\ Ev.ok = 1 /\ UNCHANGED <<S, devs>>
(* a run of checker verdicts without any state in between validates as one step per event; failed ones reject *)

(* an unsolicited frame read by client c: it must be one of the frames of the oldest publish the
   server still owes c (frames of one publish may come in any order) *)
EvPush ==
  /\ Ev.k = "push"
  /\ Ev.c \in DOMAIN S.conns
  /\ LET ib == S.conns[Ev.c].inbox IN
     /\ ib # <<>>
     /\ \E i \in 1..Len(ib[1]) :
          /\ Match(ib[1][i], Ev.frame)
          /\ LET rest == [j \in 1..(Len(ib[1]) - 1) |-> IF j < i THEN ib[1][j] ELSE ib[1][j + 1]]
             IN S' = [S EXCEPT !.conns[Ev.c].inbox = IF rest = <<>> THEN Tail(ib) ELSE <<rest>> \o Tail(ib)]
  /\ UNCHANGED devs

(* the driver waited long enough: every push the server owed has been received *)
EvQuiesce ==
  /\ Ev.k = "quiesce"
  /\ \A c \in DOMAIN S.conns : S.conns[c].inbox = <<>>
  /\ UNCHANGED <<S, devs>>

(* raw bytes that are not a well-formed command frame, sent after the pipeline:
   violation / badcommand : the first thing the server says must be an error (closing afterwards is fine)
   inline                 : an inline command is served or refused, but not ignored *)
EvRaw ==
  /\ Ev.k = "raw"
  /\ Len(Ev.rs) >= 1
  /\ (Ev.kind \in {"violation", "badcommand"} => Ev.rs[1].t = "err")
  /\ UNCHANGED <<S, devs>>    \* generators use inline commands without effect on later checks (connection ends here)

(* the server instance was started with requirepass *)
EvConfig ==
  /\ Ev.k = "config"
  /\ S' = [S EXCEPT !.pass = IF "pass" \in DOMAIN Ev THEN Ev.pass ELSE S.pass,
                    !.aof = IF "aof" \in DOMAIN Ev THEN [dbs |-> [d \in DBs |-> EmptyK], db |-> 0, scripts |-> {}] ELSE S.aof]
  /\ UNCHANGED devs

(* hook H4: the server delivered <<key, element>> to a blocked client / timed it out *)
EvServed ==
  /\ Ev.k = "served"
  /\ \E S2 \in Served(S, Ev.c, Ev.frames[1]) :
       \/ S' = S2 /\ UNCHANGED devs            \* (the pop may be logged together with the next request)
       \/ /\ S.aof # NoAof /\ "aof_unlogged" \in Deviations
          /\ S' = [S2 EXCEPT !.aof = [dbs |-> S2.dbs, db |-> S.aof.db, scripts |-> S.aof.scripts]]
          /\ devs' = devs \cup {"aof_unlogged"}
EvTimeout ==
  /\ Ev.k = "timeout"
  /\ \E S2 \in TimedOut(S, Ev.c) : S' = S2
  /\ UNCHANGED devs

(* hook H5 at a quiescent point: the registry holds exactly one registration per (blocked client, key), queued in
   blocking order, no wake-up is pending, and nobody waits on a key that holds elements *)
EvBlockSnap ==
  /\ Ev.k = "blocksnap"
  /\ Ev.wakeq = 0
  /\ UNION {{<<Ev.regs[i].db, Ev.regs[i].key, Ev.regs[i].conns[j]>> : j \in 1..Len(Ev.regs[i].conns)} : i \in 1..Len(Ev.regs)}
        = ExpectedRegs(S)
  /\ \A i \in 1..Len(Ev.regs) : \A j, k \in 1..Len(Ev.regs[i].conns) :
        j < k => S.conns[Ev.regs[i].conns[j]].blocked.ord < S.conns[Ev.regs[i].conns[k]].blocked.ord
  /\ NoneStranded(S)
  /\ UNCHANGED <<S, devs>>

(* the server process was stopped and started again on the same directory *)
EvRestart ==
  /\ Ev.k = "restart"
  /\ \E S2 \in Restarted(S, [t0 |-> Ev.t0, t1 |-> Ev.t1]) : S' = S2
  /\ UNCHANGED devs

(* the append-only file was re-executed on an empty REAL server and the two servers were dumped and compared by the
   harness: they must agree unless a listed deviation already explains a difference *)
EvAofReplay ==
  /\ Ev.k = "aofreplay"
  /\ (Ev.ok = 1 \/ devs # {})
  /\ UNCHANGED <<S, devs>>

(* C10: a background save starts / has finished writing and renaming its dump *)
EvBgStart == Ev.k = "bgstart" /\ S.bg = NoBg /\ S' = BgStart(S) /\ UNCHANGED devs
EvBgDone == Ev.k = "bgdone" /\ S.bg # NoBg /\ S' = BgDone(S) /\ UNCHANGED devs
(* a background save that failed or was killed: the previous dump stays *)
EvBgDoneMaybe == Ev.k = "bgdonemaybe" /\ S.bg # NoBg /\ (S' = BgDone(S) \/ S' = [S EXCEPT !.bg = NoBg]) /\ UNCHANGED devs
EvBgAbort == Ev.k = "bgabort" /\ S' = [S EXCEPT !.bg = NoBg] /\ UNCHANGED devs
(* a SAVE with an injected write failure: answered by an error, nothing changes (the previous dump stays) *)
EvSaveFail ==
  /\ Ev.k = "savefail"
  /\ Ev.r.t = "err"
  /\ UNCHANGED <<S, devs>>

(* C06: a hostile input whose own reply is not prescribed; what matters is the probe that follows *)
EvHostile == Ev.k = "hostile" /\ UNCHANGED <<S, devs>>

EvNote == Ev.k = "note" /\ UNCHANGED <<S, devs>>

EvDropped ==  \* the client saw the server close the connection
  /\ Ev.k = "dropped"
  /\ S' = DropConn(S, Ev.c)
  /\ UNCHANGED devs

TraceNext ==
  /\ l <= N
  /\ l' = l + 1
  /\ (EvOpen \/ EvClose \/ EvReset \/ EvCmd \/ EvNote \/ EvDropped \/ EvUnlogged \/ EvChk \/ EvPush \/ EvQuiesce \/ EvGone \/ EvRaw \/ EvConfig \/ EvServed \/ EvTimeout \/ EvBlockSnap \/ EvRestart \/ EvAofReplay \/ EvBgStart \/ EvBgDone \/ EvBgAbort \/ EvSaveFail \/ EvBgDoneMaybe \/ EvHostile)
  /\ IF l > TLCGet(1) THEN TLCSet(1, l) /\ TLCSet(3, S') ELSE TRUE   \* deepest matched event (last conjunct!)

TraceSpec == TraceInit /\ [][TraceNext]_vars

(* remember the smallest deviation set among accepting end states *)
AcceptInv ==
  (l = N + 1) =>
     /\ (IF TLCGet(2) = <<"none">> \/ Cardinality(devs) < Cardinality(TLCGet(2)[2])
         THEN TLCSet(2, <<"acc", devs>>) ELSE TRUE)
     (* an accepting behaviour without any deviation cannot be improved on: stop exploring the other branches *)
     /\ (IF devs = {} THEN PrintT(<<"TRACE-ACCEPTED", N, <<"acc", {}>>>>) /\ TLCSet("exit", TRUE) ELSE TRUE)

TraceAccepted ==
  LET deepest == TLCGet(1) IN
  IF deepest = N
  THEN PrintT(<<"TRACE-ACCEPTED", N, TLCGet(2)>>)
  ELSE /\ PrintT(<<"TRACE-REJECTED-AT", deepest + 1, "of", N>>)
       /\ PrintT(<<"UNMATCHED-EVENT", Rec[deepest + 1]>>)
       /\ LET e == Rec[deepest + 1] S0 == TLCGet(3) IN
            IF e.k = "cmd" /\ e.c \in DOMAIN S0.conns
            THEN LET tm == [t0 |-> e.t0, t1 |-> e.t1] d == S0.conns[e.c].db IN
                 /\ PrintT(<<"EXPECTED-ONE-OF", {o.r : o \in UNION {Step(S1, e.c, e.argv, tm, ObsOf(e)) : S1 \in PurgeFor(S0, e.c, tm)}}>>)
                 /\ PrintT(<<"CONN-STATE", S0.conns[e.c]>>)
                 /\ PrintT(<<"DB-BEFORE", S0.dbs[d]>>)
            ELSE PrintT(<<"STATE-BEFORE", S0.conns>>)
       /\ FALSE
=============================================================================
