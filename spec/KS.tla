--------------------------------- MODULE KS ---------------------------------
(***************************************************************************)
(* Key space of one numbered database, expiry, and the outcome algebra     *)
(* shared by all command families.                                         *)
(*                                                                         *)
(* A key space K is a function from the finite set of present keys (byte   *)
(* strings) to entries [t, v, exp]:                                        *)
(*   t = "string": v = byte string                                         *)
(*   t = "list":   v = sequence of byte strings (head first)               *)
(*   t = "set":    v = set of byte strings                                 *)
(*   t = "hash":   v = function field -> value                             *)
(*   t = "zset":   v = function member -> abstract score                   *)
(*   t = "stream": v = [ents, last, groups]                                *)
(* exp = NoExp | [k|->"at", lo, hi] (deadline known to lie in lo..hi, ms   *)
(*       on the observer's clock) | [k|->"far"] (beyond the horizon).      *)
(*                                                                         *)
(* A command is a relation: it yields a SET of outcomes                    *)
(*   [r |-> expected reply, K |-> key space afterwards, dv |-> deviations] *)
(* dv names the known-defect alternatives (see DESIGN 2.4) an outcome      *)
(* relies on; conforming outcomes have dv = {}.                            *)
(***************************************************************************)
EXTENDS Resp, SequencesExt

CONSTANT Deviations      \* set of enabled deviation names (strings)

NoExp == [k |-> "none"]
ExpAt(lo, hi) == [k |-> "at", lo |-> lo, hi |-> hi]
ExpFar == [k |-> "far"]
Horizon == 500000000      \* ms; TTLs beyond this are "far" (never observed to expire)

Entry(t, v, exp) == [t |-> t, v |-> v, exp |-> exp]
EmptyK == <<>>            \* the function with empty domain
Has(K, k) == k \in DOMAIN K
Put(K, k, e) == (k :> e) @@ K
Del(K, k) == [x \in (DOMAIN K) \ {k} |-> K[x]]
DelAll(K, S) == [x \in (DOMAIN K) \ S |-> K[x]]
IsT(K, k, t) == Has(K, k) /\ K[k].t = t
WrongT(K, k, t) == Has(K, k) /\ K[k].t # t
SetV(K, k, v) == [K EXCEPT ![k].v = v]          \* in-place change keeps exp
ExpOf(K, k) == IF Has(K, k) THEN K[k].exp ELSE NoExp

Out(r, K) == {[r |-> r, K |-> K, dv |-> {}]}
Fail(K) == Out(RErr, K)                        \* refused: error reply, nothing changed
Unspec(K) == Out(RAny, K)                      \* behaviour not prescribed; dataset unchanged
Dev(name, r, K) == IF name \in Deviations THEN {[r |-> r, K |-> K, dv |-> {name}]} ELSE {}
Tag(name, outs) == IF name \in Deviations
                   THEN {[o EXCEPT !.dv = o.dv \cup {name}] : o \in outs} ELSE {}

(* time: tm = [t0, t1] — the observer's clock readings around the request *)
TtlExp(tm, ms) == IF ms >= Horizon THEN ExpFar ELSE ExpAt(tm.t0 + ms, tm.t1 + ms)

(***************************************************************************)
(* Integer arguments.  ArgInt(b) is the set of admissible readings of b    *)
(* as a 64-bit integer: {big} for canonical decimal, {} otherwise.         *)
(***************************************************************************)
IsInt(b) == IsCanonInt(b)
IntOf(b) == ParseBig(b)
SmallOf(b) == BigToIntClamped(ParseBig(b))     \* native, clamped to +-10^9
IsPosInt(b) == IsInt(b) /\ ~IntOf(b).neg /\ IntOf(b) # BigZero

(***************************************************************************)
(* Glob matching: Redis stringmatchlen (case sensitive).                   *)
(***************************************************************************)
RECURSIVE GM(_, _, _, _)
ClassEnd(p, i) == \* index of the closing ']' of the class opened at p[i] = '[', or 0
  LET RECURSIVE Scan(_)
      Scan(j) == IF j > Len(p) THEN 0
                 ELSE IF p[j] = 92 /\ j + 1 <= Len(p) THEN Scan(j + 2)
                 ELSE IF p[j] = 93 THEN j
                 ELSE Scan(j + 1)
      st == IF i + 1 <= Len(p) /\ p[i + 1] = 94 THEN i + 2 ELSE i + 1
  IN Scan(st)
ClassHit(p, i, e, c) == \* does byte c match the class body p[i..e-1] (after optional ^)
  LET RECURSIVE Hit(_)
      Hit(j) == IF j >= e THEN FALSE
                ELSE IF p[j] = 92 /\ j + 1 < e THEN (p[j + 1] = c \/ Hit(j + 2))
                ELSE IF j + 2 < e /\ p[j + 1] = 45
                     THEN LET lo == Min2(p[j], p[j + 2]) hi == Max2(p[j], p[j + 2])
                          IN (c >= lo /\ c <= hi) \/ Hit(j + 3)
                ELSE p[j] = c \/ Hit(j + 1)
  IN Hit(i)
GM(p, i, s, j) ==
  IF i > Len(p) THEN j > Len(s)
  ELSE IF p[i] = 42 THEN
         IF i = Len(p) THEN TRUE
         ELSE \E k \in j..(Len(s) + 1) : GM(p, i + 1, s, k)
  ELSE IF j > Len(s) THEN FALSE
  ELSE IF p[i] = 63 THEN GM(p, i + 1, s, j + 1)
  ELSE IF p[i] = 91 THEN
         LET e == ClassEnd(p, i)
             neg == i + 1 <= Len(p) /\ p[i + 1] = 94
             st == IF neg THEN i + 2 ELSE i + 1
         IN IF e = 0
            THEN (* unterminated class: Redis treats the rest as the class body *)
                 LET hit == ClassHit(p, st, Len(p) + 1, s[j])
                 IN (hit # neg) /\ j = Len(s)
            ELSE (ClassHit(p, st, e, s[j]) # neg) /\ GM(p, e + 1, s, j + 1)
  ELSE IF p[i] = 92 /\ i + 1 <= Len(p) THEN p[i + 1] = s[j] /\ GM(p, i + 2, s, j + 1)
  ELSE p[i] = s[j] /\ GM(p, i + 1, s, j + 1)
Glob(p, s) == GM(p, 1, s, 1)

(* does the pattern use only features whose meaning is beyond dispute *)
PlainGlob(p) == \A i \in 1..Len(p) : p[i] \notin {91, 93, 92}

(***************************************************************************)
(* Expiry.  Before a request observed in [t0,t1] is interpreted, every     *)
(* entry whose deadline certainly passed is removed, every entry whose     *)
(* deadline certainly lies ahead is kept, and for the others either.       *)
(* Eps is the clock granularity.                                           *)
(***************************************************************************)
Eps == 2
MustGo(e, tm) == e.exp.k = "at" /\ e.exp.hi + Eps < tm.t0
MayGo(e, tm) == e.exp.k = "at" /\ e.exp.lo - Eps <= tm.t1

PurgeChoices(K, tm) ==
  LET must == {k \in DOMAIN K : MustGo(K[k], tm)}
      may == {k \in DOMAIN K : MayGo(K[k], tm)} \ must
  IN {DelAll(K, must \cup S) : S \in SUBSET may}

(* remaining milliseconds of an entry, as an inclusive native range *)
RemLo(e, tm) == Max2(e.exp.lo - tm.t1 - Eps, 0)
RemHi(e, tm) == Max2(e.exp.hi - tm.t0 + Eps, 0)

=============================================================================
