-------------------------------- MODULE Resp --------------------------------
(***************************************************************************)
(* Replies as the client sees them, and the matching relation between the  *)
(* reply the specification prescribes ("expected") and the reply observed. *)
(*                                                                         *)
(* Observed replies (from the trace) are tagged records:                   *)
(*   [t|->"st",v] [t|->"err",v] [t|->"int",v (decimal bytes)] [t|->"bulk",v]*)
(*   [t|->"nil"] [t|->"arr",v (tuple)] [t|->"nilarr"]                       *)
(*   [t|->"closed"] (connection closed instead of a reply) [t|->"none"]    *)
(* Expected replies use the same shapes plus:                              *)
(*   [t|->"bag",v]    array whose element order is not prescribed          *)
(*   [t|->"any"]      reply not prescribed (Unspecified behaviour)         *)
(*   [t|->"oneof",v]  any member of a set of expected replies              *)
(*   [t|->"intrange",lo,hi]  integer within native bounds                  *)
(* Errors match errors whatever the wording.                               *)
(***************************************************************************)
EXTENDS Scores

ROk == [t |-> "st", v |-> L_OK]
RSt(b) == [t |-> "st", v |-> b]
RErr == [t |-> "err"]
RInt(n) == [t |-> "int", v |-> IntBytes(n)]
RIntB(b) == [t |-> "int", v |-> b]
RBulk(b) == [t |-> "bulk", v |-> b]
RNil == [t |-> "nil"]
RArr(s) == [t |-> "arr", v |-> s]
RNilArr == [t |-> "nilarr"]
RBag(s) == [t |-> "bag", v |-> s]
RInfoMap(pairs) == [t |-> "infomap", v |-> pairs]
RMapSet(s) == [t |-> "mapset", v |-> s]
RAny == [t |-> "any"]
ROneOf(S) == [t |-> "oneof", v |-> S]
RIntRange(lo, hi) == [t |-> "intrange", lo |-> lo, hi |-> hi]
RAnyInt == [t |-> "anyint"]                  \* some integer
RLines(lo, hi) == [t |-> "lines", lo |-> lo, hi |-> hi]   \* bulk string of lo..hi newline-terminated lines
RNone == [t |-> "none"]
RClosed == [t |-> "closed"]

RBulks(s) == RArr([i \in 1..Len(s) |-> RBulk(s[i])])
RBulkBag(s) == RBag([i \in 1..Len(s) |-> RBulk(s[i])])
RBulkOrNil(x) == IF x = RNil THEN RNil ELSE RBulk(x)

IsErrReply(r) == r.t = "err"

(* multiset equality of two tuples *)
SameBag(a, b) ==
  /\ Len(a) = Len(b)
  /\ \A i \in 1..Len(a) :
       Cardinality({j \in 1..Len(a) : a[j] = a[i]}) = Cardinality({j \in 1..Len(b) : b[j] = a[i]})

RECURSIVE Match(_, _)
Match(e, o) ==
  CASE e.t = "any" -> TRUE
    [] e.t = "blocks" -> TRUE      \* the reply comes later: checked when the client is served / times out
    [] e.t = "oneof" -> \E x \in e.v : Match(x, o)
    [] e.t = "err" -> o.t = "err"
    [] e.t = "anyint" -> o.t = "int"
    [] e.t = "closed" -> o.t = "closed"
    [] e.t = "lines" ->
         /\ o.t = "bulk"
         /\ LET n == Cardinality({i \in 1..Len(o.v) : o.v[i] = 10}) IN n >= e.lo /\ n <= e.hi
         /\ (Len(o.v) = 0 \/ o.v[Len(o.v)] = 10)
    [] e.t = "intrange" ->
         /\ o.t = "int"
         /\ IsLooseInt(o.v)
         /\ LET b == ParseBig(o.v) IN
              BigCmp(b, BigOfInt(e.lo)) >= 0 /\ BigCmp(b, BigOfInt(e.hi)) <= 0
    [] e.t = "arr" ->
         /\ o.t = "arr"
         /\ Len(o.v) = Len(e.v)
         /\ \A i \in 1..Len(e.v) : Match(e.v[i], o.v[i])
    [] e.t = "bag" ->
         (* elements of a bag are exact replies (no nested wildcards) *)
         /\ o.t = "arr"
         /\ SameBag(e.v, o.v)
    [] e.t = "multi" ->
         /\ o.t = "multi"
         /\ Len(o.v) = Len(e.v)
         /\ \A i \in 1..Len(e.v) : Match(e.v[i], o.v[i])
    [] e.t = "unsuball" ->
         (* one frame <<kind, channel, remaining>> per channel, any channel order, counts decreasing *)
         /\ o.t = "multi"
         /\ Len(o.v) = Cardinality(e.chans)
         /\ \A i \in 1..Len(o.v) :
              /\ o.v[i].t = "arr" /\ Len(o.v[i].v) = 3
              /\ o.v[i].v[1] = [t |-> "bulk", v |-> e.kind]
              /\ o.v[i].v[2].t = "bulk" /\ o.v[i].v[2].v \in e.chans
              /\ o.v[i].v[3] = [t |-> "int", v |-> IntBytes(e.base + Len(o.v) - i)]
         /\ \A i, j \in 1..Len(o.v) : i # j => o.v[i].v[2] # o.v[j].v[2]
    [] e.t = "score" -> o.t = "bulk" /\ ReplyIsScore(o.v, e.s)
    [] e.t = "pick" ->
         /\ o.t = "arr"
         /\ Len(o.v) = e.n
         /\ \A i \in 1..Len(o.v) : o.v[i].t = "bulk" /\ o.v[i].v \in e.from
         /\ e.distinct => \A i, j \in 1..Len(o.v) : i # j => o.v[i] # o.v[j]
    [] e.t = "pairs" ->
         /\ o.t = "arr"
         /\ Len(o.v) = 2 * Cardinality(DOMAIN e.v)
         /\ \A i \in 1..Len(o.v) : o.v[i].t = "bulk"
         /\ {o.v[2 * i - 1].v : i \in 1..(Len(o.v) \div 2)} = DOMAIN e.v
         /\ \A i \in 1..(Len(o.v) \div 2) : o.v[2 * i].v = e.v[o.v[2 * i - 1].v]
    [] e.t = "flds" ->
         (* stream entry fields (Streams.tla): flat array f1 v1 f2 v2 ..., the <<field, value>> pairs form a bag *)
         /\ o.t = "arr"
         /\ Len(o.v) = 2 * Len(e.v)
         /\ \A i \in 1..Len(o.v) : o.v[i].t = "bulk"
         /\ SameBag(e.v, [i \in 1..Len(e.v) |-> <<o.v[2 * i - 1].v, o.v[2 * i].v>>])
    [] e.t = "pendext" ->
         (* XPENDING extended rows [id, consumer, idle ms, deliveries]; e.v = <<id, consumer, deliveries>> triples *)
         (* pick >= 0: any `pick` distinct rows of e.v, in any order *)
         /\ o.t = "arr"
         /\ Len(o.v) = (IF e.pick >= 0 THEN e.pick ELSE Len(e.v))
         /\ \A i \in 1..Len(o.v) :
              /\ o.v[i].t = "arr" /\ Len(o.v[i].v) = 4
              /\ o.v[i].v[1].t = "bulk" /\ o.v[i].v[2].t = "bulk" /\ o.v[i].v[4].t = "int"
              /\ o.v[i].v[3].t = "int" /\ IsLooseInt(o.v[i].v[3].v) /\ ~ParseBig(o.v[i].v[3].v).neg
         /\ LET got == [i \in 1..Len(o.v) |-> <<o.v[i].v[1].v, o.v[i].v[2].v, o.v[i].v[4].v>>]
            IN IF e.pick >= 0
               THEN /\ \A i \in 1..Len(got) : \E j \in 1..Len(e.v) : e.v[j] = got[i]
                    /\ \A i, j \in 1..Len(got) : i # j => got[i] # got[j]
               ELSE IF e.ordered THEN got = e.v ELSE SameBag(e.v, got)
    [] e.t = "pendcons" ->
         (* XPENDING summary consumer list: pairs [name, count] in any order; e.v = <<name, decimal count>> pairs *)
         /\ o.t = "arr"
         /\ Len(o.v) = Len(e.v)
         /\ \A i \in 1..Len(o.v) :
              /\ o.v[i].t = "arr" /\ Len(o.v[i].v) = 2 /\ o.v[i].v[1].t = "bulk"
              /\ o.v[i].v[2].t = "bulk" \/ (e.intOK /\ o.v[i].v[2].t = "int")
         /\ SameBag(e.v, [i \in 1..Len(o.v) |-> <<o.v[i].v[1].v, o.v[i].v[2].v>>])
    [] e.t = "infomap" ->
         (* a flat array name value name value ...; e.v = <<name, pattern>> pairs that must be present (further pairs, which
            server versions add, are ignored) *)
         /\ o.t = "arr" /\ Len(o.v) % 2 = 0
         /\ \A i \in 1..Len(e.v) : \E j \in 1..(Len(o.v) \div 2) :
              /\ o.v[2 * j - 1].t \in {"bulk", "st"} /\ o.v[2 * j - 1].v = e.v[i][1]
              /\ Match(e.v[i][2], o.v[2 * j])
    [] e.t = "mapset" ->
         (* an array with one element for each pattern of e.v, in any order (the patterns tell their elements apart by a name) *)
         /\ o.t = "arr" /\ Len(o.v) = Len(e.v)
         /\ \A i \in 1..Len(e.v) : \E j \in 1..Len(o.v) : Match(e.v[i], o.v[j])
    [] OTHER -> e = o

=============================================================================
