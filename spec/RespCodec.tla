----------------------------- MODULE RespCodec -----------------------------
(***************************************************************************)
(* Reference RESP2/RESP3 encoding of frame trees (C20).                    *)
(*                                                                         *)
(* Frame trees (the JSON representation of harness/src/jsonx.rs):          *)
(*   [t |-> "st" | "err" | "bulk", v |-> bytes]                            *)
(*   [t |-> "int",  v |-> canonical decimal text as bytes]                 *)
(*   [t |-> "nil"]  [t |-> "nilarr"]  [t |-> "null3"]                      *)
(*   [t |-> "bool", v |-> 0 | 1]                                           *)
(*   [t |-> "dbl",  v |-> 16 lower-case hex digits of the IEEE-754 bits]   *)
(*   [t |-> "arr" | "set3", v |-> sequence of trees]                       *)
(*   [t |-> "map",  v |-> sequence of <<key tree, value tree>>]            *)
(*                                                                         *)
(* Ser(f) is the encoding as a function.  The text of a double is not      *)
(* unique (RESP3 only says "a floating point number", `inf`, `-inf`,       *)
(* `nan`), so the trace spec uses the relation IsSer(f, b) which is        *)
(* `b = Ser(f)` except that every text DblTextOk admits for the bits is    *)
(* accepted; that the text denotes the bits is decided by parsing it back. *)
(***************************************************************************)
EXTENDS Bytes

CR == 13
LF == 10
CRLF == <<13, 10>>

Drop(b, n) == Sub(b, n + 1, Len(b))          \* &b[n..]

WellFormed(f) == \* simple strings and errors are single lines
  f.t \in {"st", "err"} => \A i \in 1..Len(f.v) : f.v[i] # CR /\ f.v[i] # LF

(*************************** doubles ***************************************)
HexVal(c) == IF c <= 57 THEN c - 48 ELSE c - 87
DblNeg(bits) == HexVal(bits[1]) >= 8
DblExp(bits) == (HexVal(bits[1]) % 8) * 256 + HexVal(bits[2]) * 16 + HexVal(bits[3])
DblMantZero(bits) == \A i \in 4..16 : bits[i] = 48

T_NAN == <<78, 65, 78>>
T_INF == <<73, 78, 70>>
T_INFINITY == <<73, 78, 70, 73, 78, 73, 84, 89>>

(* upper-cased text without sign: digits [. digits] [E [sign] digits], at least one mantissa digit *)
IsDecimal(b) ==
  LET es == {i \in 1..Len(b) : b[i] = 69}
      mEnd == IF es = {} THEN Len(b) ELSE MinOf(es) - 1
      m == Sub(b, 1, mEnd)
      dots == {i \in 1..Len(m) : m[i] = 46}
      expo == IF es = {} THEN <<>> ELSE Sub(b, mEnd + 2, Len(b))
  IN /\ Cardinality(dots) <= 1
     /\ \A i \in 1..Len(m) : IsDigit(m[i]) \/ m[i] = 46
     /\ \E i \in 1..Len(m) : IsDigit(m[i])
     /\ (es # {} => AllDigitsFrom(expo, SignLen(expo) + 1))

(* what Rust's `str::parse::<f64>` accepts *)
IsF64Text(t) ==
  LET body == Upper(Drop(t, SignLen(t)))
  IN body \in {T_NAN, T_INF, T_INFINITY} \/ IsDecimal(body)

(* a few doubles whose decimal text is pinned: <<bits, canonical text, other admitted texts>> *)
DblTab == {
  <<<<48,48,48,48,48,48,48,48,48,48,48,48,48,48,48,48>>, <<48>>, {<<48,46,48>>}>>,                    \* 0
  <<<<56,48,48,48,48,48,48,48,48,48,48,48,48,48,48,48>>, <<45,48>>, {<<45,48,46,48>>}>>,              \* -0
  <<<<51,102,102,48,48,48,48,48,48,48,48,48,48,48,48,48>>, <<49>>, {<<49,46,48>>}>>,                  \* 1
  <<<<51,102,102,56,48,48,48,48,48,48,48,48,48,48,48,48>>, <<49,46,53>>, {}>>,                        \* 1.5
  <<<<99,48,48,50,48,48,48,48,48,48,48,48,48,48,48,48>>, <<45,50,46,50,53>>, {}>>,                    \* -2.25
  <<<<51,102,98,57,57,57,57,57,57,57,57,57,57,57,57,97>>, <<48,46,49>>, {}>>,                         \* 0.1
  <<<<55,102,102,48,48,48,48,48,48,48,48,48,48,48,48,48>>, <<105,110,102>>, {}>>,                     \* inf
  <<<<102,102,102,48,48,48,48,48,48,48,48,48,48,48,48,48>>, <<45,105,110,102>>, {}>>,                 \* -inf
  <<<<55,102,102,56,48,48,48,48,48,48,48,48,48,48,48,48>>, <<110,97,110>>, {}>> }                     \* nan

DblKnown(bits) == \E e \in DblTab : e[1] = bits
DblEntry(bits) == CHOOSE e \in DblTab : e[1] = bits
DblText(bits) == IF DblKnown(bits) THEN DblEntry(bits)[2] ELSE <<63>>

DblTextOk(bits, t) ==
  LET body == Upper(Drop(t, SignLen(t)))
      minus == Len(t) >= 1 /\ t[1] = 45
  IN IF DblExp(bits) = 2047 /\ ~DblMantZero(bits) THEN body = T_NAN
     ELSE /\ minus = DblNeg(bits)
          /\ IF DblExp(bits) = 2047 THEN body \in {T_INF, T_INFINITY}
             ELSE /\ IsDecimal(body)
                  /\ (DblKnown(bits) => LET e == DblEntry(bits) IN t = e[2] \/ t \in e[3])

(*************************** Ser *******************************************)
RECURSIVE FlatPairs(_)
FlatPairs(ps) == IF ps = <<>> THEN <<>> ELSE <<Head(ps)[1], Head(ps)[2]>> \o FlatPairs(Tail(ps))

RECURSIVE Ser(_), SerSeq(_)
Ser(f) ==
  CASE f.t = "st"     -> <<43>> \o f.v \o CRLF
    [] f.t = "err"    -> <<45>> \o f.v \o CRLF
    [] f.t = "int"    -> <<58>> \o f.v \o CRLF
    [] f.t = "bulk"   -> <<36>> \o IntBytes(Len(f.v)) \o CRLF \o f.v \o CRLF
    [] f.t = "nil"    -> <<36, 45, 49, 13, 10>>
    [] f.t = "arr"    -> <<42>> \o IntBytes(Len(f.v)) \o CRLF \o SerSeq(f.v)
    [] f.t = "nilarr" -> <<42, 45, 49, 13, 10>>
    [] f.t = "null3"  -> <<95, 13, 10>>
    [] f.t = "bool"   -> IF f.v = 1 THEN <<35, 116, 13, 10>> ELSE <<35, 102, 13, 10>>
    [] f.t = "dbl"    -> <<44>> \o DblText(f.v) \o CRLF
    [] f.t = "map"    -> <<37>> \o IntBytes(Len(f.v)) \o CRLF \o SerSeq(FlatPairs(f.v))
    [] f.t = "set3"   -> <<126>> \o IntBytes(Len(f.v)) \o CRLF \o SerSeq(f.v)
SerSeq(fs) == IF fs = <<>> THEN <<>> ELSE Ser(Head(fs)) \o SerSeq(Tail(fs))

(* b[i..] starts with x *)
HasAt(b, i, x) == i + Len(x) - 1 <= Len(b) /\ \A k \in 1..Len(x) : b[i + k - 1] = x[k]

(* index just behind an encoding of f that starts at b[i]; 0 when b does not continue with one *)
RECURSIVE SerAt(_, _, _), SerSeqAt(_, _, _)
SerAt(f, b, i) ==
  IF i = 0 \/ ~WellFormed(f) THEN 0
  ELSE IF f.t = "dbl" THEN
    IF i > Len(b) \/ b[i] # 44 THEN 0
    ELSE LET js == {j \in (i + 1)..Min2(Len(b) - 1, i + 400) : b[j] = CR /\ b[j + 1] = LF}   \* text of a double: < 400 bytes
         IN IF js = {} THEN 0
            ELSE LET j == MinOf(js) IN IF DblTextOk(f.v, Sub(b, i + 1, j - 1)) THEN j + 2 ELSE 0
  ELSE IF f.t \in {"arr", "set3", "map"} THEN
    LET h == <<(IF f.t = "arr" THEN 42 ELSE IF f.t = "set3" THEN 126 ELSE 37)>> \o IntBytes(Len(f.v)) \o CRLF
        items == IF f.t = "map" THEN FlatPairs(f.v) ELSE f.v
    IN IF HasAt(b, i, h) THEN SerSeqAt(items, b, i + Len(h)) ELSE 0
  ELSE LET x == Ser(f) IN IF HasAt(b, i, x) THEN i + Len(x) ELSE 0
SerSeqAt(fs, b, i) ==
  IF i = 0 THEN 0 ELSE IF fs = <<>> THEN i ELSE SerSeqAt(Tail(fs), b, SerAt(Head(fs), b, i))

IsSer(f, b) == SerAt(f, b, 1) = Len(b) + 1

(*************************** equality of trees *****************************)
(* structural equality that never compares values of different shapes (TLC would abort) *)
RECURSIVE FEq(_, _)
FEq(a, b) ==
  /\ a.t = b.t
  /\ CASE a.t \in {"st", "err", "bulk", "int", "dbl", "bool", "dbltext"} -> a.v = b.v
       [] a.t \in {"arr", "set3"} -> Len(a.v) = Len(b.v) /\ \A i \in 1..Len(a.v) : FEq(a.v[i], b.v[i])
       [] a.t = "map" -> /\ Len(a.v) = Len(b.v)
                         /\ \A i \in 1..Len(a.v) : FEq(a.v[i][1], b.v[i][1]) /\ FEq(a.v[i][2], b.v[i][2])
       [] OTHER -> TRUE
=============================================================================
