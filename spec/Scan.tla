--------------------------------- MODULE Scan ---------------------------------
(***************************************************************************)
(* SCAN / HSCAN / SSCAN / ZSCAN (property C19).  The reply of an           *)
(* individual call is only required to return elements that existed at     *)
(* some point of the iteration and satisfy the filters; the obligation is  *)
(* on the full iteration: when the cursor comes back to 0, every element   *)
(* that was present (and matching) from the first to the last call has     *)
(* been returned at least once; and the iteration ends when the collection *)
(* stops growing.                                                          *)
(*                                                                         *)
(* An open iteration is a record                                           *)
(*   [cur    : the cursor the next call must present (byte string),        *)
(*    stable : elements present and matching in every state so far,        *)
(*    ever   : elements present and matching in some state so far,         *)
(*    ret    : elements returned so far,                                   *)
(*    all    : elements present in some state so far, filters ignored,     *)
(*    calls  : calls made since `all` last grew]                           *)
(***************************************************************************)
EXTENDS Streams

NoIter == [k |-> "noiter"]
L_zero == <<48>>

(* a cursor is an unsigned 64-bit decimal *)
IsCursor(b) == Len(b) >= 1 /\ Len(b) <= 20 /\ AllDigitsFrom(b, 1) /\ (b[1] = 48 => Len(b) = 1)

(* options after position `from`: MATCH p, COUNT n, TYPE t in any order *)
ScanOptsInit == [ok |-> TRUE, pat |-> <<42>>, count |-> 10, ty |-> <<>>, unspec |-> FALSE]
RECURSIVE ScanOpts(_, _, _)
ScanOpts(a, i, acc) ==
  IF i > Len(a) \/ ~acc.ok THEN acc
  ELSE IF i + 1 > Len(a) THEN [acc EXCEPT !.ok = FALSE]
  ELSE LET w == Upper(a[i]) IN
    IF w = L_MATCH THEN ScanOpts(a, i + 2, [acc EXCEPT !.pat = a[i + 1]])
    ELSE IF w = L_COUNT THEN
      (IF IsPosInt(a[i + 1]) THEN ScanOpts(a, i + 2, [acc EXCEPT !.count = SmallOf(a[i + 1])])
       ELSE [acc EXCEPT !.ok = FALSE])
    ELSE IF w = L_TYPE THEN ScanOpts(a, i + 2, [acc EXCEPT !.ty = a[i + 1]])
    ELSE [acc EXCEPT !.ok = FALSE]

(* the elements an iteration ranges over, in key space K *)
ScanElems(name, K, key, o) ==
  LET base == CASE name = "SCAN" -> {k \in DOMAIN K : o.ty = <<>> \/ TypeName(K[k].t) = o.ty}
                [] name = "HSCAN" -> IF IsT(K, key, "hash") THEN DOMAIN K[key].v ELSE {}
                [] name = "SSCAN" -> IF IsT(K, key, "set") THEN K[key].v ELSE {}
                [] name = "ZSCAN" -> IF IsT(K, key, "zset") THEN DOMAIN K[key].v ELSE {}
  IN {e \in base : Glob(o.pat, e)}
(* ... and without the MATCH / TYPE filters (what the server has to walk through) *)
ScanAll(name, K, key) ==
  CASE name = "SCAN" -> DOMAIN K
    [] name = "HSCAN" -> IF IsT(K, key, "hash") THEN DOMAIN K[key].v ELSE {}
    [] name = "SSCAN" -> IF IsT(K, key, "set") THEN K[key].v ELSE {}
    [] name = "ZSCAN" -> IF IsT(K, key, "zset") THEN DOMAIN K[key].v ELSE {}

(* the elements named by an observed reply <<cursor, array>>: every item for SCAN/SSCAN, every other item for
   HSCAN/ZSCAN (field value ... / member score ...) *)
ObsOK(obs) == obs.t = "arr" /\ Len(obs.v) = 2 /\ obs.v[1].t = "bulk" /\ obs.v[2].t = "arr"
              /\ \A i \in 1..Len(obs.v[2].v) : obs.v[2].v[i].t = "bulk"
ObsElems(name, obs) ==
  LET items == obs.v[2].v IN
  IF name \in {"SCAN", "SSCAN"} THEN {items[i].v : i \in 1..Len(items)}
  ELSE {items[i].v : i \in {j \in 1..Len(items) : j % 2 = 1}}
ObsShapeOK(name, obs) == name \in {"SCAN", "SSCAN"} \/ Len(obs.v[2].v) % 2 = 0

(* One call.  it = the open iteration of this (connection, command, key) or NoIter.  Result: set of
   [r, it] — r is the observed reply itself when it is acceptable. *)
ScanCall(name, a, K, it, obs) ==
  LET kp == IF name = "SCAN" THEN 0 ELSE 1            \* key position offset
      key == IF name = "SCAN" THEN <<>> ELSE a[2]
  IN IF Len(a) < 2 + kp THEN {[r |-> RErr, it |-> it]}
  ELSE LET cur == a[2 + kp] o == ScanOpts(a, 3 + kp, ScanOptsInit) IN
    IF ~o.ok \/ ~IsCursor(cur) THEN {[r |-> RErr, it |-> it]}
    ELSE IF name # "SCAN" /\ WrongT(K, key, CASE name = "HSCAN" -> "hash" [] name = "SSCAN" -> "set" [] name = "ZSCAN" -> "zset")
    THEN {[r |-> RErr, it |-> it]}
    ELSE LET now == ScanElems(name, K, key, o)
             start == cur = L_zero
             it0 == IF start THEN [k |-> "iter", cur |-> L_zero, stable |-> now, ever |-> now, ret |-> {}, calls |-> 0, o |-> o,
                                   all |-> ScanAll(name, K, key)]
                    ELSE it
         IN IF ~start /\ (it = NoIter \/ it.cur # cur \/ it.o # o)
            THEN {[r |-> RAny, it |-> NoIter]}        \* a cursor the spec did not hand out: not prescribed
            ELSE IF obs.t = "noobs" THEN {[r |-> RAny, it |-> it0]}
            ELSE IF ~(ObsOK(obs) /\ ObsShapeOK(name, obs)) THEN {}
            ELSE LET got == ObsElems(name, obs)
                     ncur == obs.v[1].v
                     it1 == [it0 EXCEPT !.ret = @ \cup got, !.cur = ncur, !.calls = @ + 1]
                 IN IF ~(got \subseteq it0.ever) THEN {}                          \* returned something that never existed / matched
                    ELSE IF ncur = L_zero
                    THEN (IF it0.stable \subseteq it1.ret THEN {[r |-> obs, it |-> NoIter]} ELSE {})   \* full iteration: the guarantee
                    ELSE IF it1.calls > Cardinality(it0.all) + 2 THEN {}          \* does not terminate although nothing grows
                    ELSE {[r |-> obs, it |-> it1]}

(* every state change seen by an open iteration narrows `stable` and widens `ever` *)
ScanObserve(name, key, it, K) ==
  IF it = NoIter THEN it
  ELSE LET now == ScanElems(name, K, key, it.o) IN
       [it EXCEPT !.stable = @ \cap now,
                  !.calls = IF ScanAll(name, K, key) \subseteq it.all THEN @ ELSE 0,
                  !.ever = @ \cup now,
                  !.all = @ \cup ScanAll(name, K, key)]

ScanCommands == {"SCAN", "HSCAN", "SSCAN", "ZSCAN"}
=============================================================================
