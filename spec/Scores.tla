------------------------------- MODULE Scores -------------------------------
(***************************************************************************)
(* Exact decimal scores in units of 1/1000 and their textual forms (see    *)
(* ZSets.tla).  Lives below Resp so that reply matching can compare scores *)
(* numerically.                                                            *)
(***************************************************************************)
EXTENDS Bytes, Lit

NInf == [c |-> 0, n |-> 0]
PInf == [c |-> 2, n |-> 0]
Fin(n) == [c |-> 1, n |-> n]

LowerB(b) == [i \in 1..Len(b) |-> IF b[i] >= 65 /\ b[i] <= 90 THEN b[i] + 32 ELSE b[i]]
L_infinity == <<105, 110, 102, 105, 110, 105, 116, 121>>

(* split sign *)
SgnLen(b) == IF Len(b) >= 1 /\ (b[1] = 45 \/ b[1] = 43) THEN 1 ELSE 0
IsNeg(b) == Len(b) >= 1 /\ b[1] = 45
Body(b) == Sub(b, SgnLen(b) + 1, Len(b))

IsNaNStr(b) == LowerB(Body(b)) = L_nan
IsInfStr(b) == LowerB(Body(b)) \in {L_inf, L_infinity}

(* decimal body: digits [. digits]; returns position of '.', or 0 *)
DotPos(s) == LET ds == {i \in 1..Len(s) : s[i] = 46} IN IF ds = {} THEN 0 ELSE MinOf(ds)
IsDecimal(s) ==
  /\ Len(s) >= 1
  /\ Cardinality({i \in 1..Len(s) : s[i] = 46}) <= 1
  /\ \A i \in 1..Len(s) : IsDigit(s[i]) \/ s[i] = 46
  /\ \E i \in 1..Len(s) : IsDigit(s[i])
IntPart(s) == LET d == DotPos(s) IN IF d = 0 THEN s ELSE Sub(s, 1, d - 1)
FracPart(s) == LET d == DotPos(s) IN IF d = 0 THEN <<>> ELSE Sub(s, d + 1, Len(s))
DigitsNum(ds) == DigitsVal([i \in 1..Len(ds) |-> ds[i] - 48], 0)
StripZ(ds) == LET nz == {i \in 1..Len(ds) : ds[i] # 48} IN IF nz = {} THEN <<>> ELSE Sub(ds, MinOf(nz), Len(ds))
FracDigit(f, i) == IF i <= Len(f) THEN f[i] - 48 ELSE 0

(* strict argument domain: exactly representable in 1/1000 *)
InDomain(b) ==
  LET s == Body(b) IN
  /\ IsDecimal(s)
  /\ Len(StripZ(IntPart(s))) <= 6
  /\ \A i \in 4..Len(FracPart(s)) : FracPart(s)[i] = 48
ScaledOf(b) == \* requires IsDecimal(Body(b)) with <= 6 integer digits; rounds the fraction to 1/1000
  LET s == Body(b) f == FracPart(s)
      base == DigitsNum(StripZ(IntPart(s))) * 1000 + FracDigit(f, 1) * 100 + FracDigit(f, 2) * 10 + FracDigit(f, 3)
      up == IF FracDigit(f, 4) >= 5 THEN 1 ELSE 0
      m == base + up
  IN IF IsNeg(b) THEN -m ELSE m

(* score argument: "ok" | "nan" | "bad" (not a float) | "unspec" (float syntax outside the domain) *)
ScoreKind(b) ==
  IF IsNaNStr(b) THEN "nan"
  ELSE IF IsInfStr(b) THEN "ok"
  ELSE IF InDomain(b) THEN "ok"
  ELSE IF IsDecimal(Body(b)) THEN "unspec"
  ELSE IF \E i \in 1..Len(b) : b[i] \in {101, 69, 120, 88} /\ \E j \in 1..Len(b) : IsDigit(b[j]) THEN "unspec"
  ELSE "bad"
ScoreOf(b) == IF IsInfStr(b) THEN (IF IsNeg(b) THEN NInf ELSE PInf) ELSE Fin(ScaledOf(b))

(* a score as printed in a reply denotes s *)
ReplyIsScore(b, s) ==
  IF IsInfStr(b) THEN s = (IF IsNeg(b) THEN NInf ELSE PInf)
  ELSE /\ IsDecimal(Body(b))
       /\ Len(StripZ(IntPart(Body(b)))) <= 7
       /\ s = Fin(ScaledOf(b))

=============================================================================
