------------------------------- MODULE Streams -------------------------------
(***************************************************************************)
(* Streams (property C15) and consumer groups (property C16).              *)
(* Reference: Redis 6.2/7.0.                                               *)
(*                                                                         *)
(* A stream value is v = [ents, last, groups]:                             *)
(*   ents   : sequence of entries [id, f] in strictly increasing id order  *)
(*            (f = sequence of <<field, value>> pairs as given to XADD)    *)
(*   last   : greatest id ever added (never decreases, survives XDEL/XTRIM)*)
(*   groups : function group name -> [ld, pel, cons, skew]                 *)
(*            ld   = last delivered id                                     *)
(*            pel  = function id -> [c |-> owner, n |-> deliveries]        *)
(*            cons = set of consumer names                                 *)
(*            skew = FALSE in every conforming behaviour (see the          *)
(*                   deviation xreadgroup_history_redelivers)              *)
(* An id is a pair <<ms, seq>> of normalised DIGIT tuples (64-bit values   *)
(* do not fit TLC integers); compared with Bytes!MagCmp.                   *)
(* A stream that becomes empty still exists as a key.                      *)
(*                                                                         *)
(* Only the syntax forms the implementation under test accepts are         *)
(* prescribed; the others (NOMKSTREAM/MAXLEN on XADD, BLOCK, MINID,        *)
(* exclusive "(" bounds, incomplete ids such as "5", IDLE/TIME/RETRYCOUNT/ *)
(* FORCE on XCLAIM, XAUTOCLAIM ...) are Unspecified.                       *)
(***************************************************************************)
EXTENDS ZSets

U64MaxD == <<1,8,4,4,6,7,4,4,0,7,3,7,0,9,5,5,1,6,1,5>>
ZeroId == <<(<<0>>), (<<0>>)>>
MaxId == <<U64MaxD, U64MaxD>>

IdCmp(x, y) == LET c == MagCmp(x[1], y[1]) IN IF c # 0 THEN c ELSE MagCmp(x[2], y[2])
IdLt(x, y) == IdCmp(x, y) < 0
IdLe(x, y) == IdCmp(x, y) <= 0
IdMax2(x, y) == IF IdLt(x, y) THEN y ELSE x
NextId(x) == IF x[2] = U64MaxD THEN <<MagAdd(x[1], <<1>>), <<0>>>> ELSE <<x[1], MagAdd(x[2], <<1>>)>>

DigBytes(d) == [i \in 1..Len(d) |-> d[i] + 48]
IdBytes(x) == DigBytes(x[1]) \o <<45>> \o DigBytes(x[2])

(* ---- parsing "ms-seq" ---- *)
IsAlnum(c) == IsDigit(c) \/ (c >= 65 /\ c <= 90) \/ (c >= 97 /\ c <= 122)
DigitsOf(p) == Strip([i \in 1..Len(p) |-> p[i] - 48])
PartKind(p) == \* "num" (decimal u64) | "bad" (certainly refused) | "unspec"
  IF p = <<>> THEN "bad"
  ELSE IF \A i \in 1..Len(p) : IsDigit(p[i])
       THEN (IF MagCmp(DigitsOf(p), U64MaxD) <= 0 THEN "num" ELSE "bad")
  ELSE IF \A i \in 1..Len(p) : IsAlnum(p[i]) THEN "bad"
  ELSE "unspec"
DashPos(b) == LET ds == {i \in 1..Len(b) : b[i] = 45} IN IF ds = {} THEN 0 ELSE MinOf(ds)

(* "ok" complete id | "inc" incomplete (digits only) | "bad" refused | "unspec" not prescribed *)
IdKind(b) ==
  LET d == DashPos(b) IN
  IF d = 0 THEN (IF PartKind(b) = "num" THEN "inc" ELSE PartKind(b))
  ELSE LET k1 == PartKind(Sub(b, 1, d - 1)) k2 == PartKind(Sub(b, d + 1, Len(b))) IN
    IF k1 = "bad" \/ k2 = "bad" THEN "bad"
    ELSE IF k1 = "num" /\ k2 = "num" THEN "ok" ELSE "unspec"
IdOf(b) == LET d == DashPos(b) IN <<DigitsOf(Sub(b, 1, d - 1)), DigitsOf(Sub(b, d + 1, Len(b)))>>

(* kinds of a sequence of id arguments: refused as a whole / not prescribed / all fine *)
IdsKind(bs) ==
  LET ks == {IdKind(bs[i]) : i \in 1..Len(bs)} IN
  IF "bad" \in ks THEN "bad" ELSE IF ks \subseteq {"ok"} THEN "ok" ELSE "unspec"

(* range bounds: "-" and "+" are the smallest and the greatest id *)
L_minus == <<45>>
L_plus == <<43>>
L_dollar == <<36>>
L_star == <<42>>
L_gt == <<62>>
BoundKindX(b) == IF b = L_minus \/ b = L_plus THEN "ok" ELSE IdKind(b)
BoundOf(b) == IF b = L_minus THEN ZeroId ELSE IF b = L_plus THEN MaxId ELSE IdOf(b)

(* ---- values ---- *)
StreamE(v, exp) == Entry("stream", v, exp)
EmptyStream == [ents |-> <<>>, last |-> ZeroId, groups |-> <<>>]
SVal(K, k) == IF Has(K, k) THEN K[k].v ELSE EmptyStream
PutS(K, k, v) == Put(K, k, StreamE(v, ExpOf(K, k)))
NewGroup(id) == [ld |-> id, pel |-> <<>>, cons |-> {}, skew |-> FALSE]

(* ---- replies ---- *)
RFlds(f) == [t |-> "flds", v |-> f]          \* flat array field value ..., pairs in any order
REnt(e) == RArr(<<RBulk(IdBytes(e.id)), RFlds(e.f)>>)
REnts(es) == RArr([i \in 1..Len(es) |-> REnt(es[i])])
(* XPENDING extended form: rows <<id, consumer, deliveries>>; idle time is any non-negative integer *)
RPendExt(rows, ordered) == [t |-> "pendext", v |-> rows, ordered |-> ordered]
(* XPENDING summary consumer list: pairs <<name, count>> in any order; count as bulk (intOK: or integer) *)
RPendCons(pairs, intOK) == [t |-> "pendcons", v |-> pairs, intOK |-> intOK]

FirstN(s, n) == IF n >= Len(s) THEN s ELSE Sub(s, 1, n)
InRange(es, lo, hi) == SelectSeq(es, LAMBDA e : IdLe(lo, e.id) /\ IdLe(e.id, hi))
After(es, id) == SelectSeq(es, LAMBDA e : IdLt(id, e.id))
EntIds(v) == {v.ents[i].id : i \in 1..Len(v.ents)}
EntOf(v, id) == v.ents[CHOOSE i \in 1..Len(v.ents) : v.ents[i].id = id]

(* an outcome that relies on several known defects at once *)
DevSet(names, r, K) == IF names # {} /\ names \subseteq Deviations THEN {[r |-> r, K |-> K, dv |-> names]} ELSE {}

-----------------------------------------------------------------------------
(* XADD key <* | id> field value [field value ...] *)
RECURSIVE PairsFrom(_, _)
PairsFrom(a, i) == IF i > Len(a) THEN <<>> ELSE <<(<<a[i], a[i + 1]>>)>> \o PairsFrom(a, i + 2)

(* known defect xadd_dup_fields_collapsed: only the last value of a repeated field survives *)
DedupF(f) == LET keep == {i \in 1..Len(f) : \A j \in (i + 1)..Len(f) : f[j][1] # f[i][1]}
             IN [n \in 1..Cardinality(keep) |-> f[SetToSortSeq(keep, <)[n]]]

AddEntry(K, k, id, f) ==
  LET v == SVal(K, k) IN PutS(K, k, [v EXCEPT !.ents = Append(@, [id |-> id, f |-> f]), !.last = id])

XAddAt(K, k, id, f) ==
  Out(RBulk(IdBytes(id)), AddEntry(K, k, id, f))
  \cup (IF DedupF(f) # f THEN Dev("xadd_dup_fields_collapsed", RBulk(IdBytes(id)), AddEntry(K, k, id, DedupF(f))) ELSE {})

CmdXADD(a, K, obs) ==
  IF Len(a) < 3 THEN Fail(K)
  ELSE IF Upper(a[3]) \in {L_NOMKSTREAM, L_MAXLEN, L_MINID, L_LIMIT} THEN Unspec(K)
  ELSE IF Len(a) < 5 \/ Len(a) % 2 = 0 THEN Fail(K)
  ELSE LET k == a[2] f == PairsFrom(a, 4) last == SVal(K, k).last IN
    IF a[3] = L_star THEN
      IF WrongT(K, k, "stream") THEN Fail(K)
      ELSE IF last = MaxId THEN Fail(K)            \* no greater id exists: refused
      ELSE (* any id greater than every id ever added; the observed reply picks it *)
           LET id == IF obs.t = "bulk" /\ IdKind(obs.v) = "ok" /\ IdBytes(IdOf(obs.v)) = obs.v /\ IdLt(last, IdOf(obs.v))
                     THEN IdOf(obs.v) ELSE NextId(last)
           IN XAddAt(K, k, id, f)
    ELSE LET kd == IdKind(a[3]) IN
      IF kd = "bad" THEN Fail(K)
      ELSE IF kd # "ok" THEN Unspec(K)
      ELSE IF WrongT(K, k, "stream") THEN Fail(K)
      ELSE IF ~IdLt(last, IdOf(a[3])) THEN Fail(K)  \* not greater than the last id (0-0 never addable)
      ELSE XAddAt(K, k, IdOf(a[3]), f)

CmdXLEN(a, K) ==
  IF Len(a) # 2 THEN Fail(K)
  ELSE IF WrongT(K, a[2], "stream") THEN Fail(K)
  ELSE Out(RInt(Len(SVal(K, a[2]).ents)), K)

(* XRANGE key start end [COUNT n] / XREVRANGE key end start [COUNT n] *)
CmdXRANGE(a, K, rev) ==
  IF Len(a) < 4 THEN Fail(K)
  ELSE IF Len(a) > 6 THEN Unspec(K)
  ELSE IF Len(a) = 5 \/ (Len(a) = 6 /\ Upper(a[5]) # L_COUNT) THEN Fail(K)
  ELSE LET lob == IF rev THEN a[4] ELSE a[3] hib == IF rev THEN a[3] ELSE a[4]
           ks == {BoundKindX(lob), BoundKindX(hib)} IN
    IF "bad" \in ks THEN Fail(K)
    ELSE IF ks # {"ok"} THEN Unspec(K)
    ELSE IF Len(a) = 6 /\ ~IsInt(a[6]) THEN Fail(K)
    ELSE IF WrongT(K, a[2], "stream") THEN Fail(K)
    ELSE IF Len(a) = 6 /\ IntOf(a[6]).neg THEN Out(ROneOf({RErr, RArr(<<>>)}), K)   \* a negative COUNT is refused or counts as 0
    ELSE LET es == SVal(K, a[2]).ents lo == BoundOf(lob) hi == BoundOf(hib)
             n == IF Len(a) = 6 THEN SmallOf(a[6]) ELSE Clamp
             sel == InRange(es, lo, hi)
             res == FirstN(IF rev THEN Rev(sel) ELSE sel, n)
         IN Out(REnts(res), K)
            \cup (* known defect: an end bound below the first entry is clamped onto it *)
                 (IF es # <<>> /\ IdLt(hi, es[1].id) /\ IdLe(lo, es[1].id) /\ n > 0
                  THEN Dev("xrange_end_below_first", REnts(<<es[1]>>), K) ELSE {})
            \cup (* known defect: "+" as start / "-" as end are refused *)
                 (IF lob = L_plus \/ hib = L_minus THEN Dev("xrange_special_bounds_refused", RErr, K) ELSE {})

(* XREAD [COUNT n] STREAMS key [key ...] id [id ...]   (BLOCK: Unspecified) *)
ReadOptsInit == [ok |-> TRUE, unspec |-> FALSE, count |-> -1, noack |-> FALSE, at |-> 0]
RECURSIVE ReadOpts(_, _, _, _)
ReadOpts(a, i, grp, acc) == \* scans options from a[i]; at = index after STREAMS (0: none)
  IF i > Len(a) \/ ~acc.ok THEN acc
  ELSE LET w == Upper(a[i]) IN
    IF w = L_STREAMS THEN [acc EXCEPT !.at = i + 1]
    ELSE IF w = L_COUNT /\ i + 1 <= Len(a) THEN
      IF ~IsInt(a[i + 1]) THEN [acc EXCEPT !.ok = FALSE]
      ELSE IF IntOf(a[i + 1]).neg THEN [acc EXCEPT !.unspec = TRUE]
      ELSE ReadOpts(a, i + 2, grp, [acc EXCEPT !.count = SmallOf(a[i + 1])])
    ELSE IF w = L_BLOCK /\ i + 1 <= Len(a) THEN [acc EXCEPT !.unspec = TRUE]
    ELSE IF grp /\ w = L_NOACK THEN ReadOpts(a, i + 1, grp, [acc EXCEPT !.noack = TRUE])
    ELSE [acc EXCEPT !.ok = FALSE]

Limit(c) == IF c <= 0 THEN Clamp ELSE c        \* COUNT 0 (or absent) = no limit

CmdXREAD(a, K) ==
  IF Len(a) < 4 THEN Fail(K)
  ELSE LET o == ReadOpts(a, 2, FALSE, ReadOptsInit) IN
    IF o.unspec THEN Unspec(K)
    ELSE IF ~o.ok \/ o.at = 0 THEN Fail(K)
    ELSE LET rest == Len(a) - o.at + 1 nk == rest \div 2 IN
      IF rest = 0 \/ rest % 2 # 0 THEN Fail(K)
      ELSE LET key(j) == a[o.at + j - 1] idb(j) == a[o.at + nk + j - 1]
               kd(j) == IF idb(j) = L_dollar THEN "ok" ELSE IdKind(idb(j))
               ks == {kd(j) : j \in 1..nk} IN
        IF "bad" \in ks THEN Fail(K)
        ELSE IF ks # {"ok"} THEN Unspec(K)
        ELSE IF \E j \in 1..nk : WrongT(K, key(j), "stream") THEN Fail(K)
        ELSE LET from(j) == IF idb(j) = L_dollar THEN SVal(K, key(j)).last ELSE IdOf(idb(j))
                 got(j, lim) == FirstN(After(SVal(K, key(j)).ents, from(j)), lim)
                 reply(lim) ==
                   LET hit == SetToSortSeq({j \in 1..nk : got(j, lim) # <<>>}, <)
                   IN IF hit = <<>> THEN RNilArr
                      ELSE RArr([x \in 1..Len(hit) |-> RArr(<<RBulk(key(hit[x])), REnts(got(hit[x], lim))>>)])
                 r == reply(Limit(o.count))
             IN Out(r, K)
                \cup (IF r = RNilArr THEN Dev("xread_empty_not_nil", RArr(<<>>), K) ELSE {})
                \cup (* known defect: COUNT 0 delivers nothing instead of everything *)
                     (IF o.count = 0 /\ r # RNilArr
                      THEN DevSet({"xread_count0_empty", "xread_empty_not_nil"}, RArr(<<>>), K) ELSE {})

(* XDEL key id [id ...] *)
CmdXDEL(a, K) ==
  IF Len(a) < 3 THEN Fail(K)
  ELSE LET kd == IdsKind(Args(a, 3)) IN
    IF WrongT(K, a[2], "stream") THEN Fail(K)
    ELSE IF kd = "bad" THEN (IF Has(K, a[2]) THEN Fail(K) ELSE Out(ROneOf({RErr, RInt(0)}), K))
    ELSE IF kd # "ok" THEN Unspec(K)
    ELSE IF ~Has(K, a[2]) THEN Out(RInt(0), K)
    ELSE LET v == K[a[2]].v gone == {IdOf(a[i]) : i \in 3..Len(a)} \cap EntIds(v)
         IN Out(RInt(Cardinality(gone)), PutS(K, a[2], [v EXCEPT !.ents = SelectSeq(@, LAMBDA e : e.id \notin gone)]))

(* XTRIM key MAXLEN n *)
CmdXTRIM(a, K) ==
  IF Len(a) < 4 THEN Fail(K)
  ELSE IF Upper(a[3]) = L_MINID THEN Unspec(K)
  ELSE IF Upper(a[3]) # L_MAXLEN THEN Fail(K)
  ELSE IF Len(a) > 4 THEN Unspec(K)                \* "~" / "=" / LIMIT forms
  ELSE IF ~IsInt(a[4]) \/ IntOf(a[4]).neg THEN Fail(K)
  ELSE IF WrongT(K, a[2], "stream") THEN Fail(K)
  ELSE IF ~Has(K, a[2]) THEN Out(RInt(0), K)
  ELSE LET v == K[a[2]].v n == SmallOf(a[4]) len == Len(v.ents)
       IN IF len <= n THEN Out(RInt(0), K)
          ELSE Out(RInt(len - n), PutS(K, a[2], [v EXCEPT !.ents = Sub(@, len - n + 1, len)]))

=============================================================================
