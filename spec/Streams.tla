------------------------------- MODULE Streams -------------------------------
(***************************************************************************)
(* Streams (property C15) and consumer groups (property C16).              *)
(* Reference: Redis 6.2/7.0.                                               *)
(*                                                                         *)
(* A stream value is v = [ents, last, groups]:                             *)
(*   ents   : sequence of entries [id, f] in strictly increasing id order  *)
(*            (f = sequence of <<field, value>> pairs as given to XADD)    *)
(*   last   : greatest id ever added (never decreases, survives XDEL/XTRIM)*)
(*   groups : function group name -> [ld, pel, cons, skew]                 *)
(*            ld   = last delivered id                                     *)
(*            pel  = function id -> [c |-> owner, n |-> deliveries]        *)
(*            cons = function consumer name -> "yes" (exists) | "ver"      *)
(*                   (exists or not: Redis versions differ) | "dev"        *)
(*                   (exists; under the known defect                       *)
(*                   xreadgroup_consumer_not_created it may not).  One     *)
(*                   three-valued state instead of forking keeps trace     *)
(*                   validation linear.                                    *)
(*            skew = {} in every conforming behaviour; otherwise the names *)
(*                   of the known defects by which the implementation's    *)
(*                   pending-entry accounting of this group went wrong     *)
(* An id is a pair <<ms, seq>> of normalised DIGIT tuples (64-bit values   *)
(* do not fit TLC integers); compared with Bytes!MagCmp.                   *)
(* A stream that becomes empty still exists as a key.                      *)
(*                                                                         *)
(* Only the syntax forms the implementation under test accepts are         *)
(* prescribed; the others (NOMKSTREAM/MAXLEN on XADD, BLOCK, MINID,        *)
(* exclusive "(" bounds, incomplete ids such as "5", IDLE/TIME/RETRYCOUNT/ *)
(* FORCE on XCLAIM, XAUTOCLAIM ...) are Unspecified.                       *)
(***************************************************************************)
EXTENDS ZSets

U64MaxD == <<1,8,4,4,6,7,4,4,0,7,3,7,0,9,5,5,1,6,1,5>>
ZeroId == <<(<<0>>), (<<0>>)>>
MaxId == <<U64MaxD, U64MaxD>>

IdCmp(x, y) == LET c == MagCmp(x[1], y[1]) IN IF c # 0 THEN c ELSE MagCmp(x[2], y[2])
IdLt(x, y) == IdCmp(x, y) < 0
IdLe(x, y) == IdCmp(x, y) <= 0
IdMax2(x, y) == IF IdLt(x, y) THEN y ELSE x
NextId(x) == IF x[2] = U64MaxD THEN <<MagAdd(x[1], <<1>>), <<0>>>> ELSE <<x[1], MagAdd(x[2], <<1>>)>>

DigBytes(d) == [i \in 1..Len(d) |-> d[i] + 48]
IdBytes(x) == DigBytes(x[1]) \o <<45>> \o DigBytes(x[2])

(* ---- parsing "ms-seq" ---- *)
IsAlnum(c) == IsDigit(c) \/ (c >= 65 /\ c <= 90) \/ (c >= 97 /\ c <= 122)
DigitsOf(p) == Strip([i \in 1..Len(p) |-> p[i] - 48])
PartKind(p) == \* "num" (decimal u64) | "bad" (certainly refused) | "unspec"
  IF p = <<>> THEN "bad"
  ELSE IF \A i \in 1..Len(p) : IsDigit(p[i])
       THEN (IF MagCmp(DigitsOf(p), U64MaxD) <= 0 THEN "num" ELSE "bad")
  ELSE IF \A i \in 1..Len(p) : IsAlnum(p[i]) THEN "bad"
  ELSE "unspec"
DashPos(b) == LET ds == {i \in 1..Len(b) : b[i] = 45} IN IF ds = {} THEN 0 ELSE MinOf(ds)

(* "ok" complete id | "inc" incomplete (digits only) | "bad" refused | "unspec" not prescribed *)
IdKind(b) ==
  LET d == DashPos(b) IN
  IF d = 0 THEN (IF PartKind(b) = "num" THEN "inc" ELSE PartKind(b))
  ELSE LET k1 == PartKind(Sub(b, 1, d - 1)) k2 == PartKind(Sub(b, d + 1, Len(b))) IN
    IF k1 = "bad" \/ k2 = "bad" THEN "bad"
    ELSE IF k1 = "num" /\ k2 = "num" THEN "ok" ELSE "unspec"
IdOf(b) == LET d == DashPos(b) IN <<DigitsOf(Sub(b, 1, d - 1)), DigitsOf(Sub(b, d + 1, Len(b)))>>

(* kinds of a sequence of id arguments: refused as a whole / not prescribed / all fine *)
IdsKind(bs) ==
  LET ks == {IdKind(bs[i]) : i \in 1..Len(bs)} IN
  IF "bad" \in ks THEN "bad" ELSE IF ks \subseteq {"ok"} THEN "ok" ELSE "unspec"

(* range bounds: "-" and "+" are the smallest and the greatest id *)
L_minus == <<45>>
L_plus == <<43>>
L_dollar == <<36>>
L_star == <<42>>
L_gt == <<62>>
BoundKindX(b) == IF b = L_minus \/ b = L_plus THEN "ok" ELSE IdKind(b)
BoundOf(b) == IF b = L_minus THEN ZeroId ELSE IF b = L_plus THEN MaxId ELSE IdOf(b)

(* ---- values ---- *)
StreamE(v, exp) == Entry("stream", v, exp)
EmptyStream == [ents |-> <<>>, last |-> ZeroId, groups |-> <<>>]
SVal(K, k) == IF Has(K, k) THEN K[k].v ELSE EmptyStream
PutS(K, k, v) == Put(K, k, StreamE(v, ExpOf(K, k)))
NewGroup(id) == [ld |-> id, pel |-> <<>>, cons |-> <<>>, skew |-> {}]

(* ---- replies ---- *)
RFlds(f) == [t |-> "flds", v |-> f]          \* flat array field value ..., pairs in any order
REnt(e) == RArr(<<RBulk(IdBytes(e.id)), RFlds(e.f)>>)
REnts(es) == RArr([i \in 1..Len(es) |-> REnt(es[i])])
(* XPENDING extended form: rows <<id, consumer, deliveries>>; idle time is any non-negative integer *)
RPendExt(rows, ordered) == [t |-> "pendext", v |-> rows, ordered |-> ordered, pick |-> -1]
RPendPick(rows, n) == [t |-> "pendext", v |-> rows, ordered |-> FALSE, pick |-> n]     \* any n of the rows
(* XPENDING summary consumer list: pairs <<name, count>> in any order; count as bulk (intOK: or integer) *)
RPendCons(pairs, intOK) == [t |-> "pendcons", v |-> pairs, intOK |-> intOK]

FirstN(s, n) == IF n >= Len(s) THEN s ELSE Sub(s, 1, n)
InRange(es, lo, hi) == SelectSeq(es, LAMBDA e : IdLe(lo, e.id) /\ IdLe(e.id, hi))
After(es, id) == SelectSeq(es, LAMBDA e : IdLt(id, e.id))
EntIds(v) == {v.ents[i].id : i \in 1..Len(v.ents)}
EntOf(v, id) == v.ents[CHOOSE i \in 1..Len(v.ents) : v.ents[i].id = id]

(* an outcome that relies on several known defects at once *)
DevSet(names, r, K) == IF names # {} /\ names \subseteq Deviations THEN {[r |-> r, K |-> K, dv |-> names]} ELSE {}

-----------------------------------------------------------------------------
(* XADD key <* | id> field value [field value ...] *)
RECURSIVE PairsFrom(_, _)
PairsFrom(a, i) == IF i > Len(a) THEN <<>> ELSE <<(<<a[i], a[i + 1]>>)>> \o PairsFrom(a, i + 2)

(* known defect xadd_dup_fields_collapsed: only the last value of a repeated field survives *)
DedupF(f) == LET keep == {i \in 1..Len(f) : \A j \in (i + 1)..Len(f) : f[j][1] # f[i][1]}
             IN [n \in 1..Cardinality(keep) |-> f[SetToSortSeq(keep, <)[n]]]

AddEntry(K, k, id, f) ==
  LET v == SVal(K, k) IN PutS(K, k, [v EXCEPT !.ents = Append(@, [id |-> id, f |-> f]), !.last = id])

XAddAt(K, k, id, f) ==
  Out(RBulk(IdBytes(id)), AddEntry(K, k, id, f))
  \cup (IF DedupF(f) # f THEN Dev("xadd_dup_fields_collapsed", RBulk(IdBytes(id)), AddEntry(K, k, id, DedupF(f))) ELSE {})

CmdXADD(a, K, obs) ==
  IF Len(a) < 3 THEN Fail(K)
  ELSE IF Upper(a[3]) \in {L_NOMKSTREAM, L_MAXLEN, L_MINID, L_LIMIT} THEN Unspec(K)
  ELSE IF Len(a) < 5 \/ Len(a) % 2 = 0 THEN Fail(K)
  ELSE LET k == a[2] f == PairsFrom(a, 4) last == SVal(K, k).last IN
    IF a[3] = L_star THEN
      IF WrongT(K, k, "stream") THEN Fail(K)
      ELSE IF last = MaxId THEN Fail(K)            \* no greater id exists: refused
      ELSE (* any id greater than every id ever added; the observed reply picks it *)
           LET id == IF obs.t = "bulk" /\ IdKind(obs.v) = "ok" /\ IdBytes(IdOf(obs.v)) = obs.v /\ IdLt(last, IdOf(obs.v))
                     THEN IdOf(obs.v) ELSE NextId(last)
           IN XAddAt(K, k, id, f)
    ELSE LET kd == IdKind(a[3]) IN
      IF kd = "bad" THEN Fail(K)
      ELSE IF kd # "ok" THEN Unspec(K)
      ELSE IF WrongT(K, k, "stream") THEN Fail(K)
      ELSE IF ~IdLt(last, IdOf(a[3])) THEN Fail(K)  \* not greater than the last id (0-0 never addable)
      ELSE XAddAt(K, k, IdOf(a[3]), f)

CmdXLEN(a, K) ==
  IF Len(a) # 2 THEN Fail(K)
  ELSE IF WrongT(K, a[2], "stream") THEN Fail(K)
  ELSE Out(RInt(Len(SVal(K, a[2]).ents)), K)

(* XRANGE key start end [COUNT n] / XREVRANGE key end start [COUNT n] *)
RECURSIVE CmdXRANGE(_, _, _)
CmdXRANGE(a, K, rev) ==
  IF Len(a) < 4 THEN Fail(K)
  ELSE IF Len(a) > 6 THEN Unspec(K)
  ELSE IF Len(a) = 5 \/ (Len(a) = 6 /\ Upper(a[5]) # L_COUNT) THEN
         Fail(K) \cup (* known defect: arguments that are not a COUNT clause are ignored (XREVRANGE: a lone number counts) *)
                      Tag("xrange_trailing_args_ignored",
                          CmdXRANGE(IF rev /\ Len(a) = 5 /\ IsInt(a[5]) /\ ~IntOf(a[5]).neg
                                    THEN Sub(a, 1, 4) \o <<L_COUNT, a[5]>> ELSE Sub(a, 1, 4), K, rev))
  ELSE LET lob == IF rev THEN a[4] ELSE a[3] hib == IF rev THEN a[3] ELSE a[4]
           ks == {BoundKindX(lob), BoundKindX(hib)} IN
    IF "bad" \in ks THEN Fail(K)
    ELSE IF ks # {"ok"} THEN Unspec(K)
    ELSE IF Len(a) = 6 /\ ~IsInt(a[6]) THEN Fail(K)
    ELSE IF WrongT(K, a[2], "stream") THEN Fail(K)
    ELSE IF Len(a) = 6 /\ IntOf(a[6]).neg THEN Out(ROneOf({RErr, RArr(<<>>)}), K)   \* a negative COUNT is refused or counts as 0
    ELSE LET es == SVal(K, a[2]).ents lo == BoundOf(lob) hi == BoundOf(hib)
             n == IF Len(a) = 6 THEN SmallOf(a[6]) ELSE Clamp
             sel == InRange(es, lo, hi)
             res == FirstN(IF rev THEN Rev(sel) ELSE sel, n)
         IN Out(REnts(res), K)
            \cup (* known defect: an end bound below the first entry is clamped onto it *)
                 (IF es # <<>> /\ IdLt(hi, es[1].id) /\ IdLe(lo, es[1].id) /\ n > 0
                  THEN Dev("xrange_end_below_first", REnts(<<es[1]>>), K) ELSE {})
            \cup (* known defect: "+" as start / "-" as end are refused *)
                 (IF lob = L_plus \/ hib = L_minus THEN Dev("xrange_special_bounds_refused", RErr, K) ELSE {})

(* XREAD [COUNT n] STREAMS key [key ...] id [id ...]   (BLOCK: Unspecified) *)
ReadOptsInit == [ok |-> TRUE, unspec |-> FALSE, count |-> -1, noack |-> FALSE, at |-> 0]
RECURSIVE ReadOpts(_, _, _, _)
ReadOpts(a, i, grp, acc) == \* scans options from a[i]; at = index after STREAMS (0: none)
  IF i > Len(a) \/ ~acc.ok THEN acc
  ELSE LET w == Upper(a[i]) IN
    IF w = L_STREAMS THEN [acc EXCEPT !.at = i + 1]
    ELSE IF w = L_COUNT /\ i + 1 <= Len(a) THEN
      IF ~IsInt(a[i + 1]) THEN [acc EXCEPT !.ok = FALSE]
      ELSE IF IntOf(a[i + 1]).neg THEN [acc EXCEPT !.unspec = TRUE]
      ELSE ReadOpts(a, i + 2, grp, [acc EXCEPT !.count = SmallOf(a[i + 1])])
    ELSE IF w = L_BLOCK /\ i + 1 <= Len(a) THEN [acc EXCEPT !.unspec = TRUE]
    ELSE IF grp /\ w = L_NOACK THEN ReadOpts(a, i + 1, grp, [acc EXCEPT !.noack = TRUE])
    ELSE [acc EXCEPT !.ok = FALSE]

Limit(c) == IF c <= 0 THEN Clamp ELSE c        \* COUNT 0 (or absent) = no limit

CmdXREAD(a, K) ==
  IF Len(a) < 4 THEN Fail(K)
  ELSE LET o == ReadOpts(a, 2, FALSE, ReadOptsInit) IN
    IF o.unspec THEN Unspec(K)
    ELSE IF ~o.ok \/ o.at = 0 THEN Fail(K)
    ELSE LET rest == Len(a) - o.at + 1 nk == rest \div 2 IN
      IF rest = 0 \/ rest % 2 # 0 THEN Fail(K)
      ELSE LET key(j) == a[o.at + j - 1] idb(j) == a[o.at + nk + j - 1]
               kd(j) == IF idb(j) = L_dollar THEN "ok" ELSE IdKind(idb(j))
               ks == {kd(j) : j \in 1..nk} IN
        IF "bad" \in ks THEN Fail(K)
        ELSE IF ks # {"ok"} THEN Unspec(K)
        ELSE IF \E j \in 1..nk : WrongT(K, key(j), "stream") THEN Fail(K)
        ELSE LET from(j) == IF idb(j) = L_dollar THEN SVal(K, key(j)).last ELSE IdOf(idb(j))
                 got(j, lim) == FirstN(After(SVal(K, key(j)).ents, from(j)), lim)
                 reply(lim) ==
                   LET hit == SetToSortSeq({j \in 1..nk : got(j, lim) # <<>>}, <)
                   IN IF hit = <<>> THEN RNilArr
                      ELSE RArr([x \in 1..Len(hit) |-> RArr(<<RBulk(key(hit[x])), REnts(got(hit[x], lim))>>)])
                 r == reply(Limit(o.count))
             IN Out(r, K)
                \cup (IF r = RNilArr THEN Dev("xread_empty_not_nil", RArr(<<>>), K) ELSE {})
                \cup (* known defect: COUNT 0 delivers nothing instead of everything *)
                     (IF o.count = 0 /\ r # RNilArr
                      THEN DevSet({"xread_count0_empty", "xread_empty_not_nil"}, RArr(<<>>), K) ELSE {})

(* XDEL key id [id ...] *)
CmdXDEL(a, K) ==
  IF Len(a) < 3 THEN Fail(K)
  ELSE LET kd == IdsKind(Args(a, 3)) IN
    IF WrongT(K, a[2], "stream") THEN Fail(K)
    ELSE IF kd = "bad" THEN (IF Has(K, a[2]) THEN Fail(K) ELSE Out(ROneOf({RErr, RInt(0)}), K))
    ELSE IF kd # "ok" THEN Unspec(K)
    ELSE IF ~Has(K, a[2]) THEN Out(RInt(0), K)
    ELSE LET v == K[a[2]].v gone == {IdOf(a[i]) : i \in 3..Len(a)} \cap EntIds(v)
         IN Out(RInt(Cardinality(gone)), PutS(K, a[2], [v EXCEPT !.ents = SelectSeq(@, LAMBDA e : e.id \notin gone)]))

(* XTRIM key MAXLEN n *)
CmdXTRIM(a, K) ==
  IF Len(a) < 4 THEN Fail(K)
  ELSE IF Upper(a[3]) = L_MINID THEN Unspec(K)
  ELSE IF Upper(a[3]) # L_MAXLEN THEN Fail(K)
  ELSE IF Len(a) > 4 THEN Unspec(K)                \* "~" / "=" / LIMIT forms
  ELSE IF ~IsInt(a[4]) \/ IntOf(a[4]).neg THEN Fail(K)
  ELSE IF WrongT(K, a[2], "stream") THEN Fail(K)
  ELSE IF ~Has(K, a[2]) THEN Out(RInt(0), K)
  ELSE LET v == K[a[2]].v n == SmallOf(a[4]) len == Len(v.ents)
       IN IF len <= n THEN Out(RInt(0), K)
          ELSE Out(RInt(len - n), PutS(K, a[2], [v EXCEPT !.ents = Sub(@, len - n + 1, len)]))

-----------------------------------------------------------------------------
(* CONSUMER GROUPS (C16) *)
HasG(v, g) == g \in DOMAIN v.groups
PutG(K, k, g, grp) == LET v == K[k].v IN PutS(K, k, [v EXCEPT !.groups = (g :> grp) @@ @])
DropIds(pel, ids) == [x \in (DOMAIN pel) \ ids |-> pel[x]]
PelSeq(pel) == SetToSortSeq(DOMAIN pel, IdLt)
OwnedBy(pel, c) == {x \in DOMAIN pel : pel[x].c = c}
CountBytes(n) == IntBytes(n)

(* group start / SETID argument: "$" = the stream's last id *)
GIdKind(b) == IF b = L_dollar THEN "ok" ELSE IdKind(b)
GIdOf(b, v) == IF b = L_dollar THEN v.last ELSE IdOf(b)

(* XGROUP CREATE key group <id | $> [MKSTREAM] *)
CmdXGCREATE(a, K) ==
  IF Len(a) < 5 THEN Fail(K)
  ELSE IF Len(a) > 6 \/ (Len(a) = 6 /\ Upper(a[6]) # L_MKSTREAM) THEN Unspec(K)    \* ENTRIESREAD (7.0)
  ELSE LET k == a[3] g == a[4] kd == GIdKind(a[5]) IN
    IF kd = "bad" THEN
      Fail(K) \cup (* known defect: MKSTREAM creates the empty stream before the id is validated *)
                   (IF Len(a) = 6 /\ ~Has(K, k)
                    THEN Dev("xgroup_create_mkstream_not_atomic", RErr, PutS(K, k, EmptyStream)) ELSE {})
    ELSE IF kd # "ok" THEN Unspec(K)
    ELSE IF WrongT(K, k, "stream") THEN Fail(K)
    ELSE IF ~Has(K, k) /\ Len(a) = 5 THEN Fail(K)           \* the key must exist unless MKSTREAM
    ELSE LET v == SVal(K, k) id == GIdOf(a[5], v)
             with(x) == PutS(K, k, [v EXCEPT !.groups = (g :> NewGroup(x)) @@ @])
         IN IF HasG(v, g) THEN Fail(K)                       \* BUSYGROUP
            ELSE Out(ROk, with(id))
                 \cup (* known defect: the start position is ignored, every group starts at 0-0 *)
                      (IF id # ZeroId THEN Dev("xgroup_create_ignores_id", ROk, with(ZeroId)) ELSE {})

(* XGROUP DESTROY key group *)
CmdXGDESTROY(a, K) ==
  IF Len(a) # 4 THEN Fail(K)
  ELSE IF WrongT(K, a[3], "stream") THEN Fail(K)
  ELSE IF ~Has(K, a[3]) THEN Fail(K) \cup Dev("xgroup_missing_noerr", RInt(0), K)
  ELSE LET v == K[a[3]].v IN
    IF ~HasG(v, a[4]) THEN Out(RInt(0), K)
    ELSE Out(RInt(1), PutS(K, a[3], [v EXCEPT !.groups = [x \in (DOMAIN @) \ {a[4]} |-> @[x]]]))

(* XGROUP SETID key group <id | $> *)
CmdXGSETID(a, K) ==
  IF Len(a) < 5 THEN Fail(K)
  ELSE IF Len(a) > 5 THEN Unspec(K)
  ELSE LET kd == GIdKind(a[5]) IN
    IF kd \notin {"ok", "bad"} THEN Unspec(K)
    ELSE IF ~IsT(K, a[3], "stream") THEN Fail(K)
    ELSE LET v == K[a[3]].v IN
      IF ~HasG(v, a[4]) \/ kd = "bad" THEN Fail(K)
      ELSE Out(ROk, PutG(K, a[3], a[4], [v.groups[a[4]] EXCEPT !.ld = GIdOf(a[5], v)]))

CStat(grp, c) == IF c \in DOMAIN grp.cons THEN grp.cons[c] ELSE "no"
SetC(cons, c, st) == (c :> st) @@ cons
DelC(cons, c) == [x \in (DOMAIN cons) \ {c} |-> cons[x]]
(* after a request that must create consumer c; made = the implementation under test creates it as well *)
Seen(grp, c, made) == SetC(grp.cons, c, IF made \/ CStat(grp, c) = "yes" THEN "yes" ELSE "dev")

(* XGROUP CREATECONSUMER key group consumer *)
CmdXGCREATECONSUMER(a, K) ==
  IF Len(a) # 5 THEN Fail(K)
  ELSE IF ~IsT(K, a[3], "stream") THEN Fail(K)
  ELSE LET v == K[a[3]].v IN
    IF ~HasG(v, a[4]) THEN Fail(K)
    ELSE LET grp == v.groups[a[4]] IN
      LET st == CStat(grp, a[5]) K2 == PutG(K, a[3], a[4], [grp EXCEPT !.cons = SetC(@, a[5], "yes")]) IN
      CASE st = "yes" -> Out(RInt(0), K)
        [] st = "no" -> Out(RInt(1), K2)
        [] st = "ver" -> Out(ROneOf({RInt(0), RInt(1)}), K2)
        [] st = "dev" -> Out(RInt(0), K2) \cup Dev("xreadgroup_consumer_not_created", RInt(1), K2)

(* a group whose pending-entry accounting the implementation is known to have broken (only reachable through the
   deviations named in skew): what it reports about pending entries afterwards is not checked.  Such a group has
   ONE outcome per request (any reply, the reference effect): nothing can tell alternatives apart any more. *)
IsSkewed(grp) == grp.skew # {}
Skewed(grp, K) == DevSet(grp.skew, RAny, K)
OrSkewed(grp, K, outs) == IF IsSkewed(grp) THEN Skewed(grp, K) ELSE outs

(* XGROUP DELCONSUMER key group consumer -> number of pending entries the consumer had *)
CmdXGDELCONSUMER(a, K) ==
  IF Len(a) # 5 THEN Fail(K)
  ELSE IF WrongT(K, a[3], "stream") THEN Fail(K)
  ELSE IF ~Has(K, a[3]) THEN Fail(K) \cup Dev("xgroup_missing_noerr", RInt(0), K)
  ELSE LET v == K[a[3]].v IN
    IF ~HasG(v, a[4]) THEN Fail(K) \cup Dev("xgroup_missing_noerr", RInt(0), K)
    ELSE LET grp == v.groups[a[4]] mine == OwnedBy(grp.pel, a[5])
             K2 == PutG(K, a[3], a[4], [grp EXCEPT !.pel = DropIds(@, mine), !.cons = DelC(@, a[5])])
         IN OrSkewed(grp, K2, Out(RInt(Cardinality(mine)), K2))

CmdXGROUP(a, K) ==
  IF Len(a) < 2 THEN Fail(K)
  ELSE LET sub == Upper(a[2]) IN
    CASE sub = L_CREATE -> CmdXGCREATE(a, K)
      [] sub = L_DESTROY -> CmdXGDESTROY(a, K)
      [] sub = L_SETID -> CmdXGSETID(a, K)
      [] sub = L_CREATECONSUMER -> CmdXGCREATECONSUMER(a, K)
      [] sub = L_DELCONSUMER -> CmdXGDELCONSUMER(a, K)
      [] sub = L_HELP -> Unspec(K)
      [] OTHER -> Fail(K)

-----------------------------------------------------------------------------
(* XREADGROUP GROUP group consumer [COUNT n] [NOACK] STREAMS key <">" | id>                                  *)
(* ">"  : the entries after the group's last-delivered id, each to exactly one consumer; they become pending *)
(*        for that consumer (not with NOACK) and the group advances                                          *)
(* id   : the consumer's OWN pending entries after id (history); nothing new is delivered                    *)
RECURSIVE Deliver(_, _, _)
Deliver(pel, es, c) == \* entries es become pending for c with one delivery
  IF es = <<>> THEN pel ELSE Deliver((Head(es).id :> [c |-> c, n |-> 1]) @@ pel, Tail(es), c)

RHistRow(v, id) == IF id \in EntIds(v) THEN REnt(EntOf(v, id)) ELSE RArr(<<RBulk(IdBytes(id)), RNilArr>>)
RECURSIVE Redeliver(_, _, _)
Redeliver(pel, ids, v) == \* history read: one more delivery of the entries still present
  IF ids = <<>> THEN pel
  ELSE Redeliver(IF Head(ids) \in EntIds(v) THEN [pel EXCEPT ![Head(ids)].n = @ + 1] ELSE pel, Tail(ids), v)

CmdXREADGROUP(a, K) ==
  IF Len(a) < 7 THEN Fail(K)
  ELSE IF Upper(a[2]) # L_GROUP THEN Unspec(K)              \* GROUP after other options
  ELSE LET g == a[3] c == a[4] o == ReadOpts(a, 5, TRUE, ReadOptsInit) IN
    IF o.unspec THEN Unspec(K)
    ELSE IF ~o.ok \/ o.at = 0 THEN Fail(K)
    ELSE LET rest == Len(a) - o.at + 1 IN
      IF rest = 0 \/ rest % 2 # 0 THEN Fail(K)
      ELSE IF rest > 2 THEN Unspec(K)                         \* several streams in one request
      ELSE LET k == a[o.at] idb == a[o.at + 1]
               kd == IF idb = L_gt THEN "ok" ELSE IF idb = L_dollar THEN "bad" ELSE IdKind(idb) IN
        IF ~Has(K, k) /\ kd \in {"ok", "bad"}
        THEN Fail(K) \cup DevSet({"xgroupread_missing_noerr", "xread_empty_not_nil"}, RArr(<<>>), K)
        ELSE IF kd = "bad" THEN Fail(K)
        ELSE IF kd # "ok" THEN Unspec(K)
        ELSE IF WrongT(K, k, "stream") THEN Fail(K)
        ELSE LET v == K[k].v IN
          IF ~HasG(v, g) THEN Fail(K)
          ELSE LET grp == v.groups[g]
                   lim == Limit(o.count)
                   one(es) == RArr(<<RArr(<<RBulk(k), es>>)>>)
               IN IF idb = L_gt THEN
                 LET es == FirstN(After(v.ents, grp.ld), lim)
                     ld2 == IF es = <<>> THEN grp.ld ELSE es[Len(es)].id
                     (* the implementation under test, by its known defects *)
                     fes == IF o.count = 0 THEN <<>> ELSE es
                     fr == IF fes = <<>> THEN RArr(<<>>) ELSE one(REnts(fes))
                     facked == fes # <<>> /\ ~o.noack
                     g2 == [grp EXCEPT !.cons = Seen(grp, c, facked), !.ld = ld2,
                                       !.pel = IF o.noack THEN @ ELSE Deliver(@, es, c)]
                     r == IF es = <<>> THEN RNilArr ELSE one(REnts(es))
                     (* known defect: delivering an entry that is already pending (possible after SETID) re-assigns it
                        without updating the previous owner's counter and index *)
                     steal == IF facked /\ ~IsSkewed(grp) /\ \E i \in 1..Len(fes) : fes[i].id \in DOMAIN grp.pel
                              THEN {"xreadgroup_redelivery_skews_counters"} ELSE {}
                     fg == IF facked THEN [grp EXCEPT !.cons = Seen(grp, c, TRUE), !.ld = fes[Len(fes)].id,
                                                      !.pel = Deliver(@, fes, c), !.skew = @ \cup steal]
                           ELSE [grp EXCEPT !.cons = Seen(grp, c, FALSE)]
                     fdv == steal \cup (IF fes = <<>> THEN {"xread_empty_not_nil"} ELSE {})
                            \cup (IF fes # es THEN {"xread_count0_empty"} ELSE {})
                            \cup (IF fes # <<>> /\ o.noack THEN {"xreadgroup_noack_no_advance"} ELSE {})
                 IN Out(r, PutG(K, k, g, g2)) \cup DevSet(fdv, fr, PutG(K, k, g, fg))
               ELSE
                 LET from == IdOf(idb)
                     ids == FirstN(SelectSeq(PelSeq(grp.pel), LAMBDA x : grp.pel[x].c = c /\ IdLt(from, x)), lim)
                     r == one(RArr([i \in 1..Len(ids) |-> RHistRow(v, ids[i])]))
                     (* known defect xreadgroup_history_redelivers: an explicit id is treated as a position in the
                        STREAM: every entry after it is delivered (again) and becomes pending for this consumer *)
                     fes == IF o.count = 0 THEN <<>> ELSE FirstN(After(v.ents, from), lim)
                     fr == IF fes = <<>> THEN ROneOf({RArr(<<>>), one(RArr(<<>>))}) ELSE one(REnts(fes))
                     facked == fes # <<>> /\ ~o.noack
                     g2 == [grp EXCEPT !.cons = Seen(grp, c, facked), !.pel = Redeliver(@, ids, v)]
                     fg == IF facked
                           THEN [grp EXCEPT !.cons = Seen(grp, c, TRUE), !.ld = IdMax2(@, fes[Len(fes)].id), !.pel = Deliver(@, fes, c),
                                            !.skew = IF \E i \in 1..Len(fes) : fes[i].id \in DOMAIN grp.pel
                                                     THEN @ \cup {"xreadgroup_history_redelivers"} ELSE @]
                           ELSE [grp EXCEPT !.cons = Seen(grp, c, FALSE)]
                 IN IF IsSkewed(grp)
                    THEN (* the group's position stays checked: it is the reference one or the one the defect leaves *)
                         Skewed(grp, PutG(K, k, g, g2)) \cup Skewed(grp, PutG(K, k, g, [g2 EXCEPT !.ld = fg.ld]))
                    ELSE Out(r, PutG(K, k, g, g2)) \cup Dev("xreadgroup_history_redelivers", fr, PutG(K, k, g, fg))

(* XACK key group id [id ...] -> number of entries that were pending (each counted once) *)
CmdXACK(a, K) ==
  IF Len(a) < 4 THEN Fail(K)
  ELSE LET kd == IdsKind(Args(a, 4)) IN
    IF WrongT(K, a[2], "stream") THEN Fail(K)
    ELSE IF kd \notin {"ok", "bad"} THEN Unspec(K)
    ELSE IF ~Has(K, a[2]) \/ ~HasG(K[a[2]].v, a[3])
         THEN Out(IF kd = "bad" THEN ROneOf({RErr, RInt(0)}) ELSE RInt(0), K)
    ELSE IF kd = "bad" THEN Fail(K)
    ELSE LET grp == K[a[2]].v.groups[a[3]]
             hit == {IdOf(a[i]) : i \in 4..Len(a)} \cap DOMAIN grp.pel
             K2 == PutG(K, a[2], a[3], [grp EXCEPT !.pel = DropIds(@, hit)])
         IN OrSkewed(grp, K2, Out(RInt(Cardinality(hit)), K2))

(* XCLAIM key group consumer min-idle-time id [id ...] [JUSTID] *)
(* A pending entry whose stream entry was deleted: Redis 6.2 still transfers it and reports nil (the id with   *)
(* JUSTID); Redis 7.0 drops it from the pending list and reports nothing.  mode = "62" | "70" | "impl".        *)
RECURSIVE Claim(_, _, _, _, _, _, _, _)
Claim(ids, pel, acc, v, c, justid, S, mode) == \* S = the ids to claim (idle long enough); acc = reply rows
  IF ids = <<>> THEN [pel |-> pel, rows |-> acc]
  ELSE LET x == Head(ids) IN
    IF x \notin DOMAIN pel \/ x \notin S THEN Claim(Tail(ids), pel, acc, v, c, justid, S, mode)
    ELSE LET here == x \in EntIds(v)
             bump == mode = "impl" \/ ~justid
             moved == [pel EXCEPT ![x] = [c |-> c, n |-> IF bump THEN @.n + 1 ELSE @.n]]
         IN IF here THEN Claim(Tail(ids), moved, Append(acc, IF justid THEN RBulk(IdBytes(x)) ELSE REnt(EntOf(v, x))),
                               v, c, justid, S, mode)
            ELSE IF mode = "62" THEN Claim(Tail(ids), moved, Append(acc, IF justid THEN RBulk(IdBytes(x)) ELSE RNil),
                                           v, c, justid, S, mode)
            ELSE IF mode = "70" THEN Claim(Tail(ids), DropIds(pel, {x}), acc, v, c, justid, S, mode)
            ELSE Claim(Tail(ids), moved, acc, v, c, justid, S, mode)

ClaimOptWords == {L_IDLE, L_TIME, L_RETRYCOUNT, L_FORCE, L_LASTID}

CmdXCLAIM(a, K) ==
  IF Len(a) < 6 THEN Fail(K)
  ELSE LET idx == {i \in 6..Len(a) : IdKind(a[i]) = "ok"}
           nid == IF \E i \in 6..Len(a) : i \notin idx THEN MinOf({i \in 6..Len(a) : i \notin idx}) - 6 ELSE Len(a) - 5
           opts == {Upper(a[i]) : i \in (6 + nid)..Len(a)} IN
    IF ~IsInt(a[5]) \/ IntOf(a[5]).neg THEN Fail(K)
    ELSE IF \E i \in 6..Len(a) : IdKind(a[i]) = "inc" THEN Unspec(K)
    ELSE IF opts \cap ClaimOptWords # {} \/ nid = 0 THEN Unspec(K)
    ELSE IF opts \ {L_JUSTID} # {} THEN Fail(K)
    ELSE IF WrongT(K, a[2], "stream") THEN Fail(K)
    ELSE IF ~Has(K, a[2]) THEN Fail(K) \cup Dev("xgroupread_missing_noerr", RArr(<<>>), K)
    ELSE LET v == K[a[2]].v IN
      IF ~HasG(v, a[3]) THEN Fail(K)
      ELSE LET grp == v.groups[a[3]] c == a[4] justid == L_JUSTID \in opts
               ids == [i \in 1..nid |-> IdOf(a[5 + i])]
               cand == SeqSet(ids) \cap DOMAIN grp.pel
               (* min-idle-time 0 claims every pending id named; otherwise each may or may not be idle long enough *)
               choices == IF IntOf(a[5]) = BigZero THEN {cand} ELSE SUBSET cand
               result(S, mode) ==
                 LET cl == Claim(ids, grp.pel, <<>>, v, c, justid, S, mode)
                     mk(cons) == [r |-> RArr(cl.rows), K |-> PutG(K, a[2], a[3], [grp EXCEPT !.pel = cl.pel, !.cons = cons])]
                 IN IF cl.pel # grp.pel \/ cl.rows # <<>> THEN {mk(SetC(grp.cons, c, "yes"))}
                    ELSE (* nothing claimed: 6.2 does not create the consumer, 7.0 does *)
                         {mk(IF CStat(grp, c) = "no" THEN SetC(grp.cons, c, "ver") ELSE grp.cons)}
               conf == UNION {result(S, "62") \cup result(S, "70") : S \in choices}
               impl == UNION {result(S, "impl") : S \in choices}
               gone(S) == \E x \in S : x \notin EntIds(v)
               fdv(S) == (IF justid /\ S # {} THEN {"xclaim_justid_increments"} ELSE {})
                         \cup (IF gone(S) THEN {"xclaim_deleted_entry"} ELSE {})
           IN OrSkewed(grp, (CHOOSE x \in result(cand, "62") : TRUE).K,
                       {[r |-> x.r, K |-> x.K, dv |-> {}] : x \in conf}
                       \cup UNION {UNION {DevSet(fdv(S), x.r, x.K) : x \in result(S, "impl")} : S \in choices})

(* XPENDING key group [start end count [consumer]] *)
CmdXPENDING(a, K) ==
  IF Len(a) < 3 THEN Fail(K)
  ELSE IF WrongT(K, a[2], "stream") THEN Fail(K)
  ELSE IF ~Has(K, a[2]) \/ ~HasG(K[a[2]].v, a[3]) THEN Fail(K) \cup Dev("xgroupread_missing_noerr", RNilArr, K)
  ELSE IF Len(a) \in {4, 5} THEN Fail(K)
  ELSE IF Len(a) > 7 \/ (Len(a) > 3 /\ Upper(a[4]) = L_IDLE) THEN Unspec(K)
  ELSE LET grp == K[a[2]].v.groups[a[3]] pel == grp.pel ps == PelSeq(pel) IN
    IF IsSkewed(grp) THEN Skewed(grp, K)
    ELSE IF Len(a) = 3 THEN
      (IF ps = <<>> THEN Out(RArr(<<RInt(0), RNil, RNil, ROneOf({RNilArr, RArr(<<>>)})>>), K)
       ELSE LET cs == SetToSeq({pel[x].c : x \in DOMAIN pel})
                pairs == [i \in 1..Len(cs) |-> <<cs[i], CountBytes(Cardinality(OwnedBy(pel, cs[i])))>>]
                sum(intOK) == RArr(<<RInt(Len(ps)), RBulk(IdBytes(ps[1])), RBulk(IdBytes(ps[Len(ps)])), RPendCons(pairs, intOK)>>)
            IN Out(sum(FALSE), K)
               \cup (* known defect: per-consumer counts are sent as integers, not as bulk strings *)
                    Dev("xpending_count_not_bulk", sum(TRUE), K))
    ELSE LET ks == {BoundKindX(a[4]), BoundKindX(a[5])} IN
      IF "bad" \in ks THEN Fail(K)
      ELSE IF ks # {"ok"} THEN Unspec(K)
      ELSE IF ~IsInt(a[6]) THEN Fail(K)
      ELSE IF IntOf(a[6]).neg THEN Out(ROneOf({RErr, RArr(<<>>)}), K)
      ELSE LET lo == BoundOf(a[4]) hi == BoundOf(a[5]) n == SmallOf(a[6])
               row(x) == <<IdBytes(x), pel[x].c, CountBytes(pel[x].n)>>
               mine == IF Len(a) = 7 THEN SelectSeq(ps, LAMBDA x : pel[x].c = a[7]) ELSE ps
               sel == FirstN(SelectSeq(mine, LAMBDA x : IdLe(lo, x) /\ IdLe(x, hi)), n)
           IN Out(RPendExt([i \in 1..Len(sel) |-> row(sel[i])], TRUE), K)
              \cup (* known defect: with a consumer argument the id range is ignored and the order is that of delivery *)
                   (IF Len(a) = 7 /\ n > 0 /\ (sel # mine \/ Len(mine) > 1)
                    THEN Dev("xpending_consumer_ignores_range",
                             IF n >= Len(mine) THEN RPendExt([i \in 1..Len(mine) |-> row(mine[i])], FALSE)
                             ELSE RPendPick([i \in 1..Len(mine) |-> row(mine[i])], n), K)
                    ELSE {})

-----------------------------------------------------------------------------
(* XINFO STREAM key | GROUPS key | CONSUMERS key group — outside the listed properties' command lists, but a direct view of the
   state they talk about (length, last id, the groups' positions and pending counts, the consumers' shares).  Only the pairs
   named here are prescribed; FULL and HELP are not. *)
CmdXINFO(a, K) ==
  IF Len(a) < 3 THEN (IF Len(a) = 2 /\ Upper(a[2]) = L_HELP THEN Unspec(K) ELSE Fail(K))
  ELSE LET sub == Upper(a[2]) key == a[3] IN
    IF sub \notin {L_STREAM, L_GROUPS, L_CONSUMERS} THEN Fail(K)
    ELSE IF WrongT(K, key, "stream") THEN Fail(K)
    ELSE IF sub = L_STREAM THEN
      (IF Len(a) > 3 THEN Unspec(K)
       ELSE IF ~Has(K, key) THEN Fail(K)
       ELSE LET v == K[key].v n == Len(v.ents)
                ent(e) == IF n = 0 THEN ROneOf({RNil, RNilArr}) ELSE REnt(e)
                top == IF n = 0 THEN ZeroId ELSE v.ents[n].id
            IN Out(RInfoMap(<< <<L_length, RInt(n)>>,
                               (* the greatest id ever added; the id of the last PRESENT entry is admitted as well (XINFO is in
                                  no listed property, and ferrous answers that) *)
                               <<L_lastmgeneratedmid, ROneOf({RBulk(IdBytes(v.last)), RBulk(IdBytes(top))})>>,
                               <<L_groups, RInt(Cardinality(DOMAIN v.groups))>>,
                               <<L_firstmentry, ent(IF n = 0 THEN 0 ELSE v.ents[1])>>,
                               <<L_lastmentry, ent(IF n = 0 THEN 0 ELSE v.ents[n])>> >>), K))
    ELSE IF sub = L_GROUPS THEN
      (IF Len(a) # 3 THEN Fail(K)
       ELSE IF ~Has(K, key) THEN Out(ROneOf({RErr, RArr(<<>>)}), K)
       ELSE LET v == K[key].v gs == SetToSeq(DOMAIN v.groups)
                row(g) == LET grp == v.groups[g]
                              sure == Cardinality({c \in DOMAIN grp.cons : grp.cons[c] = "yes"})
                          IN RInfoMap(<< <<L_name, RBulk(g)>>,
                                         <<L_consumers, RIntRange(sure, Cardinality(DOMAIN grp.cons))>>,
                                         <<L_pending, IF IsSkewed(grp) THEN RAny ELSE RInt(Cardinality(DOMAIN grp.pel))>>,
                                         <<L_lastmdeliveredmid, RBulk(IdBytes(grp.ld))>> >>)
            IN Out(RMapSet([i \in 1..Len(gs) |-> row(gs[i])]), K))
    ELSE (* CONSUMERS *)
      IF Len(a) # 4 THEN Fail(K)
      ELSE IF ~Has(K, key) \/ ~HasG(K[key].v, a[4]) THEN Fail(K) \cup Dev("xgroupread_missing_noerr", ROneOf({RNilArr, RArr(<<>>)}), K)
      ELSE LET grp == K[key].v.groups[a[4]] cs == SetToSeq(DOMAIN grp.cons) IN
        IF IsSkewed(grp) \/ \E c \in DOMAIN grp.cons : grp.cons[c] # "yes" THEN Out(RAny, K)
        ELSE Out(RMapSet([i \in 1..Len(cs) |->
                   RInfoMap(<< <<L_name, RBulk(cs[i])>>, <<L_pending, RInt(Cardinality(OwnedBy(grp.pel, cs[i])))>> >>)]), K)

-----------------------------------------------------------------------------
StreamCommands == {"XADD", "XLEN", "XRANGE", "XREVRANGE", "XREAD", "XDEL", "XTRIM",
  "XGROUP", "XREADGROUP", "XACK", "XCLAIM", "XPENDING", "XINFO"}

StreamCmd0(name, a, K, obs) ==
  CASE name = "XADD" -> CmdXADD(a, K, obs)
    [] name = "XLEN" -> CmdXLEN(a, K)
    [] name = "XRANGE" -> CmdXRANGE(a, K, FALSE)
    [] name = "XREVRANGE" -> CmdXRANGE(a, K, TRUE)
    [] name = "XREAD" -> CmdXREAD(a, K)
    [] name = "XDEL" -> CmdXDEL(a, K)
    [] name = "XTRIM" -> CmdXTRIM(a, K)
    [] name = "XGROUP" -> CmdXGROUP(a, K)
    [] name = "XREADGROUP" -> CmdXREADGROUP(a, K)
    [] name = "XACK" -> CmdXACK(a, K)
    [] name = "XCLAIM" -> CmdXCLAIM(a, K)
    [] name = "XPENDING" -> CmdXPENDING(a, K)
    [] name = "XINFO" -> CmdXINFO(a, K)

(* known defect xid_lenient_parse: an id with an empty half ("1-", "-1", "-") reads that half as 0 and a half
   beyond 2^64-1 wraps around; the command then runs with the id so obtained *)
TwoTo64 == <<1,8,4,4,6,7,4,4,0,7,3,7,0,9,5,5,1,6,1,6>>
LenPart(p) == \* digits of the half as the implementation reads it, or <<>> when it refuses it too
  IF p = <<>> THEN <<0>>
  ELSE IF ~\A i \in 1..Len(p) : IsDigit(p[i]) THEN <<>>
  ELSE LET d == DigitsOf(p) IN
    IF MagCmp(d, U64MaxD) <= 0 THEN d
    ELSE IF Len(d) = 20 /\ MagCmp(MagSub(d, TwoTo64), U64MaxD) <= 0 THEN MagSub(d, TwoTo64) ELSE <<>>
Lenient(b) == \* bytes of the id the implementation reads a refused id as (b itself otherwise)
  LET d == DashPos(b) IN
  IF IdKind(b) # "bad" \/ d = 0 THEN b
  ELSE LET p1 == LenPart(Sub(b, 1, d - 1)) p2 == LenPart(Sub(b, d + 1, Len(b))) IN
    IF p1 = <<>> \/ p2 = <<>> THEN b ELSE IdBytes(<<p1, p2>>)
IdArgPos(name, a) ==
  CASE name = "XADD" -> {3}
    [] name \in {"XRANGE", "XREVRANGE"} -> {i \in {3, 4} : i <= Len(a) /\ a[i] # L_minus}
    [] name = "XDEL" -> 3..Len(a)
    [] name = "XACK" -> 4..Len(a)
    [] name = "XGROUP" -> IF Len(a) >= 5 /\ Upper(a[2]) \in {L_CREATE, L_SETID} THEN {5} ELSE {}
    [] name \in {"XREAD", "XREADGROUP"} ->
         LET st == {i \in 2..Len(a) : Upper(a[i]) = L_STREAMS} IN
         IF st = {} THEN {} ELSE LET at == MinOf(st) + 1 rest == Len(a) - at + 1 IN
           IF rest <= 0 \/ rest % 2 # 0 THEN {} ELSE (at + rest \div 2)..Len(a)
    [] OTHER -> {}
(* known defect group_name_not_binary_safe: group and consumer names go through a lossy UTF-8 conversion, so every
   byte that is not valid UTF-8 becomes U+FFFD and distinct binary names collide.  Modelled for names without valid
   multi-byte sequences (each byte >= 128 stands alone): the command runs with the converted names. *)
RECURSIVE Lossy(_)
Lossy(b) == IF b = <<>> THEN <<>> ELSE (IF Head(b) >= 128 THEN <<239, 191, 189>> ELSE <<Head(b)>>) \o Lossy(Tail(b))
NameArgPos(name, a) ==
  CASE name = "XGROUP" -> IF Len(a) >= 2 /\ Upper(a[2]) \in {L_CREATECONSUMER, L_DELCONSUMER} THEN {4, 5} ELSE {4}
    [] name = "XREADGROUP" -> {3, 4}
    [] name = "XACK" -> {3}
    [] name = "XCLAIM" -> {3, 4}
    [] name = "XPENDING" -> {3, 7}
    [] OTHER -> {}
StreamCmd1(name, a, K, obs) ==
  LET pos == IdArgPos(name, a)
      a2 == [i \in 1..Len(a) |-> IF i \in pos THEN Lenient(a[i]) ELSE a[i]]
      npos == NameArgPos(name, a)
      a3 == [i \in 1..Len(a) |-> IF i \in npos THEN Lossy(a[i]) ELSE a[i]]
  IN StreamCmd0(name, a, K, obs)
     \cup (IF a2 # a THEN Tag("xid_lenient_parse", StreamCmd0(name, a2, K, obs)) ELSE {})
     \cup (IF a3 # a THEN Tag("group_name_not_binary_safe", StreamCmd0(name, a3, K, obs)) ELSE {})

(* a known-defect alternative that ends in the same dataset as a conforming outcome matching the observed reply
   explains nothing: dropped, so that trace validation does not fork on it *)
StreamCmd(name, a, K, obs) ==
  LET outs == StreamCmd1(name, a, K, obs) IN
  IF obs.t = "noobs" THEN outs
  ELSE {o \in outs : o.dv = {} \/ ~\E p \in outs : p.dv = {} /\ p.K = o.K /\ Match(p.r, obs)}

=============================================================================
