------------------------------- MODULE Strings -------------------------------
(***************************************************************************)
(* String commands and the generic key-space commands (property C01), and  *)
(* the TTL commands (property C02).  a = argument vector (a[1] = command   *)
(* name as sent), K = key space of the selected database, tm = time        *)
(* bracket of the request.  Reference: Redis 6.2/7.0 command semantics;    *)
(* DESIGN.md Appendix B lists the decisions.                               *)
(***************************************************************************)
EXTENDS KS

StrE(v, exp) == Entry("string", v, exp)

(* value of a string key for read purposes: <<>> when missing *)
StrVal(K, k) == IF Has(K, k) THEN K[k].v ELSE <<>>

-----------------------------------------------------------------------------
(* SET key value [NX|XX] [EX s|PX ms] — options in any order and case.      *)
SetOptsInit == [ok |-> TRUE, nx |-> FALSE, xx |-> FALSE, ttl |-> -1, unspec |-> FALSE]
RECURSIVE SetOpts(_, _, _)
SetOpts(a, i, acc) ==
  IF i > Len(a) \/ ~acc.ok THEN acc
  ELSE LET w == Upper(a[i]) IN
    IF w = L_NX THEN SetOpts(a, i + 1, [acc EXCEPT !.nx = TRUE])
    ELSE IF w = L_XX THEN SetOpts(a, i + 1, [acc EXCEPT !.xx = TRUE])
    ELSE IF w = L_EX \/ w = L_PX THEN
      IF i + 1 > Len(a) \/ ~IsPosInt(a[i + 1]) THEN [acc EXCEPT !.ok = FALSE]
      ELSE LET n == SmallOf(a[i + 1])
               ms == IF w = L_EX THEN (IF n >= Horizon \div 1000 THEN Horizon ELSE n * 1000) ELSE n
           IN SetOpts(a, i + 2, [acc EXCEPT !.ttl = ms, !.unspec = acc.unspec \/ acc.ttl # -1])
    ELSE IF w = L_GET \/ w = L_KEEPTTL THEN [acc EXCEPT !.unspec = TRUE]
    ELSE [acc EXCEPT !.ok = FALSE]

CmdSET(a, K, tm) ==
  IF Len(a) < 3 THEN Fail(K)
  ELSE LET o == SetOpts(a, 4, SetOptsInit) k == a[2] IN
    IF o.unspec THEN Unspec(K)
    ELSE IF ~o.ok \/ (o.nx /\ o.xx) THEN Fail(K)
    ELSE IF (o.nx /\ Has(K, k)) \/ (o.xx /\ ~Has(K, k)) THEN Out(RNil, K)
    ELSE Out(ROk, Put(K, k, StrE(a[3], IF o.ttl = -1 THEN NoExp ELSE TtlExp(tm, o.ttl))))

CmdGET(a, K) ==
  IF Len(a) # 2 THEN Fail(K)
  ELSE IF ~Has(K, a[2]) THEN Out(RNil, K)
  ELSE IF K[a[2]].t # "string" THEN Fail(K)
  ELSE Out(RBulk(K[a[2]].v), K)

CmdSETNX(a, K) ==
  IF Len(a) # 3 THEN Fail(K)
  ELSE IF Has(K, a[2]) THEN Out(RInt(0), K)
  ELSE Out(RInt(1), Put(K, a[2], StrE(a[3], NoExp)))

(* SETEX key seconds value / PSETEX key ms value *)
CmdSETEX(a, K, tm, unit) ==
  IF Len(a) # 4 THEN Fail(K)
  ELSE IF ~IsPosInt(a[3]) THEN Fail(K)
  ELSE LET n == SmallOf(a[3])
           ms == IF unit = 1000 THEN (IF n >= Horizon \div 1000 THEN Horizon ELSE n * 1000) ELSE n
       IN Out(ROk, Put(K, a[2], StrE(a[4], TtlExp(tm, ms))))

CmdMGET(a, K) ==
  IF Len(a) < 2 THEN Fail(K)
  ELSE Out(RArr([i \in 1..(Len(a) - 1) |->
                  IF IsT(K, a[i + 1], "string") THEN RBulk(K[a[i + 1]].v) ELSE RNil]), K)

RECURSIVE MSetFrom(_, _, _)
MSetFrom(a, i, K) == IF i > Len(a) THEN K ELSE MSetFrom(a, i + 2, Put(K, a[i], StrE(a[i + 1], NoExp)))
CmdMSET(a, K) ==
  IF Len(a) < 3 \/ Len(a) % 2 = 0 THEN Fail(K) ELSE Out(ROk, MSetFrom(a, 2, K))

CmdGETSET(a, K) ==
  IF Len(a) # 3 THEN Fail(K)
  ELSE IF WrongT(K, a[2], "string") THEN Fail(K)
  ELSE Out(IF Has(K, a[2]) THEN RBulk(K[a[2]].v) ELSE RNil, Put(K, a[2], StrE(a[3], NoExp)))

CmdAPPEND(a, K) ==
  IF Len(a) # 3 THEN Fail(K)
  ELSE IF WrongT(K, a[2], "string") THEN Fail(K)
  ELSE LET nv == StrVal(K, a[2]) \o a[3]
       IN Out(RInt(Len(nv)), Put(K, a[2], StrE(nv, ExpOf(K, a[2]))))

CmdSTRLEN(a, K) ==
  IF Len(a) # 2 THEN Fail(K)
  ELSE IF WrongT(K, a[2], "string") THEN Fail(K)
  ELSE Out(RInt(Len(StrVal(K, a[2]))), K)

(* GETRANGE key start end — Redis getrangeCommand index normalisation *)
RangeOf(len, s0, e0) == \* -> [lo, hi] 1-based inclusive, lo > hi when empty
  IF s0 < 0 /\ e0 < 0 /\ s0 > e0 THEN [lo |-> 1, hi |-> 0]
  ELSE LET s1 == IF s0 < 0 THEN Max2(len + s0, 0) ELSE s0
           e1 == IF e0 < 0 THEN Max2(len + e0, 0) ELSE e0
           e2 == IF e1 >= len THEN len - 1 ELSE e1
       IN IF len = 0 \/ s1 > e2 THEN [lo |-> 1, hi |-> 0] ELSE [lo |-> s1 + 1, hi |-> e2 + 1]

CmdGETRANGE(a, K) ==
  IF Len(a) # 4 THEN Fail(K)
  ELSE IF ~IsInt(a[3]) \/ ~IsInt(a[4]) THEN Fail(K)
  ELSE IF WrongT(K, a[2], "string") THEN Fail(K)
  ELSE LET v == StrVal(K, a[2])
           r == RangeOf(Len(v), SmallOf(a[3]), SmallOf(a[4]))
       IN Out(RBulk(Sub(v, r.lo, r.hi)), K)

(* SETRANGE key offset value *)
MaxStr == 536870912
CmdSETRANGE(a, K) ==
  IF Len(a) # 4 THEN Fail(K)
  ELSE IF ~IsInt(a[3]) \/ IntOf(a[3]).neg THEN Fail(K)
  ELSE IF WrongT(K, a[2], "string") THEN Fail(K)
  ELSE LET off == SmallOf(a[3]) old == StrVal(K, a[2]) v == a[4] IN
    IF Len(v) = 0 THEN Out(RInt(Len(old)), K)
    ELSE IF off + Len(v) > MaxStr THEN Fail(K)
    ELSE LET padded == IF Len(old) < off THEN old \o Zeros(off - Len(old)) ELSE old
             nlen == Max2(Len(padded), off + Len(v))
             nv == [i \in 1..nlen |-> IF i > off /\ i <= off + Len(v) THEN v[i - off] ELSE padded[i]]
         IN Out(RInt(nlen), Put(K, a[2], StrE(nv, ExpOf(K, a[2]))))

(* INCR / DECR / INCRBY / DECRBY : delta is a big integer *)
IncrBy(K, k, delta) ==
  IF WrongT(K, k, "string") THEN Fail(K)
  ELSE IF Has(K, k) /\ ~IsInt(K[k].v) THEN Fail(K)
  ELSE LET cur == IF Has(K, k) THEN IntOf(K[k].v) ELSE BigZero
           nv == BigAdd(cur, delta)
       IN IF ~BigInI64(nv) THEN Fail(K)
          ELSE Out(RIntB(BigToBytes(nv)), Put(K, k, StrE(BigToBytes(nv), ExpOf(K, k))))

CmdINCR(a, K, sign) ==
  IF Len(a) # 2 THEN Fail(K) ELSE IncrBy(K, a[2], IF sign = 1 THEN BigOfInt(1) ELSE BigOfInt(-1))
CmdINCRBY(a, K, sign) ==
  IF Len(a) # 3 THEN Fail(K)
  ELSE IF ~IsInt(a[3]) THEN Fail(K)
  ELSE IF sign = -1 /\ IntOf(a[3]) = BigI64Min THEN Fail(K)
  ELSE IncrBy(K, a[2], IF sign = 1 THEN IntOf(a[3]) ELSE BigNeg(IntOf(a[3])))

-----------------------------------------------------------------------------
(* generic key-space commands *)
CmdDEL(a, K) ==
  IF Len(a) < 2 THEN Fail(K)
  ELSE LET ks == {a[i] : i \in 2..Len(a)} \cap DOMAIN K
       IN Out(RInt(Cardinality(ks)), DelAll(K, ks))

CmdEXISTS(a, K) ==
  IF Len(a) < 2 THEN Fail(K)
  ELSE Out(RInt(Cardinality({i \in 2..Len(a) : Has(K, a[i])})), K)

TypeName(t) == CASE t = "string" -> L_string [] t = "list" -> L_list [] t = "set" -> L_set
                 [] t = "hash" -> L_hash [] t = "zset" -> L_zset [] t = "stream" -> L_stream
CmdTYPE(a, K) ==
  IF Len(a) # 2 THEN Fail(K)
  ELSE Out(RSt(IF Has(K, a[2]) THEN TypeName(K[a[2]].t) ELSE L_none), K)

CmdRENAME(a, K) ==
  IF Len(a) # 3 THEN Fail(K)
  ELSE IF ~Has(K, a[2]) THEN Fail(K)
  ELSE IF a[2] = a[3] THEN Out(ROneOf({ROk, RErr}), K)
  ELSE Out(ROk, Put(Del(K, a[2]), a[3], K[a[2]]))

CmdRENAMENX(a, K) ==
  IF Len(a) # 3 THEN Fail(K)
  ELSE IF ~Has(K, a[2]) THEN Fail(K)
  ELSE IF Has(K, a[3]) THEN Out(RInt(0), K)
  ELSE Out(RInt(1), Put(Del(K, a[2]), a[3], K[a[2]]))

CmdKEYS(a, K) ==
  IF Len(a) # 2 THEN Fail(K)
  ELSE Out(RBulkBag(SetToSeq({k \in DOMAIN K : Glob(a[2], k)})), K)

CmdDBSIZE(a, K) == IF Len(a) # 1 THEN Fail(K) ELSE Out(RInt(Cardinality(DOMAIN K)), K)

CmdRANDOMKEY(a, K) ==
  IF Len(a) # 1 THEN Fail(K)
  ELSE IF DOMAIN K = {} THEN Out(RNil, K)
  ELSE Out(ROneOf({RBulk(k) : k \in DOMAIN K}), K)

CmdFLUSHDB(a, K) ==
  IF Len(a) = 1 \/ (Len(a) = 2 /\ Upper(a[2]) \in {L_ASYNC, L_SYNC}) THEN Out(ROk, EmptyK) ELSE Fail(K)

-----------------------------------------------------------------------------
(* TTL commands.  unit = 1000 for EXPIRE/TTL, 1 for PEXPIRE/PTTL *)
CmdEXPIRE(a, K, tm, unit) ==
  IF Len(a) < 3 THEN Fail(K)
  ELSE IF Len(a) > 3 THEN Unspec(K)            \* NX|XX|GT|LT options (Redis 7) not prescribed
  ELSE IF ~IsInt(a[3]) THEN Fail(K)
  ELSE IF ~Has(K, a[2]) THEN Out(RInt(0), K)
  ELSE LET n == SmallOf(a[3])
           ms == IF unit = 1000 THEN (IF n >= Horizon \div 1000 THEN Horizon ELSE n * 1000) ELSE n
       IN IF n <= 0 THEN Out(RInt(1), Del(K, a[2]))
          ELSE Out(RInt(1), [K EXCEPT ![a[2]].exp = TtlExp(tm, ms)])

CeilDiv(x, d) == (x + d - 1) \div d
CmdTTL(a, K, tm, unit) ==
  IF Len(a) # 2 THEN Fail(K)
  ELSE IF ~Has(K, a[2]) THEN Out(RInt(-2), K)
  ELSE LET e == K[a[2]] IN
    IF e.exp.k = "none" THEN Out(RInt(-1), K)
    ELSE IF e.exp.k = "far" THEN Out(RIntRange(Horizon \div unit - 1, 2000000000), K)
    ELSE Out(RIntRange(RemLo(e, tm) \div unit, CeilDiv(RemHi(e, tm), unit)), K)

CmdPERSIST(a, K) ==
  IF Len(a) # 2 THEN Fail(K)
  ELSE IF ~Has(K, a[2]) \/ K[a[2]].exp.k = "none" THEN Out(RInt(0), K)
  ELSE Out(RInt(1), [K EXCEPT ![a[2]].exp = NoExp])

-----------------------------------------------------------------------------
StringCommands == {"SET", "GET", "SETNX", "SETEX", "PSETEX", "MGET", "MSET", "GETSET", "APPEND",
  "STRLEN", "GETRANGE", "SETRANGE", "INCR", "DECR", "INCRBY", "DECRBY", "DEL", "EXISTS", "TYPE",
  "RENAME", "RENAMENX", "KEYS", "DBSIZE", "RANDOMKEY", "FLUSHDB", "EXPIRE", "PEXPIRE", "TTL",
  "PTTL", "PERSIST"}

StringCmd(name, a, K, tm) ==
  CASE name = "SET" -> CmdSET(a, K, tm)
    [] name = "GET" -> CmdGET(a, K)
    [] name = "SETNX" -> CmdSETNX(a, K)
    [] name = "SETEX" -> CmdSETEX(a, K, tm, 1000)
    [] name = "PSETEX" -> CmdSETEX(a, K, tm, 1)
    [] name = "MGET" -> CmdMGET(a, K)
    [] name = "MSET" -> CmdMSET(a, K)
    [] name = "GETSET" -> CmdGETSET(a, K)
    [] name = "APPEND" -> CmdAPPEND(a, K)
    [] name = "STRLEN" -> CmdSTRLEN(a, K)
    [] name = "GETRANGE" -> CmdGETRANGE(a, K)
    [] name = "SETRANGE" -> CmdSETRANGE(a, K)
    [] name = "INCR" -> CmdINCR(a, K, 1)
    [] name = "DECR" -> CmdINCR(a, K, -1)
    [] name = "INCRBY" -> CmdINCRBY(a, K, 1)
    [] name = "DECRBY" -> CmdINCRBY(a, K, -1)
    [] name = "DEL" -> CmdDEL(a, K)
    [] name = "EXISTS" -> CmdEXISTS(a, K)
    [] name = "TYPE" -> CmdTYPE(a, K)
    [] name = "RENAME" -> CmdRENAME(a, K)
    [] name = "RENAMENX" -> CmdRENAMENX(a, K)
    [] name = "KEYS" -> CmdKEYS(a, K)
    [] name = "DBSIZE" -> CmdDBSIZE(a, K)
    [] name = "RANDOMKEY" -> CmdRANDOMKEY(a, K)
    [] name = "FLUSHDB" -> CmdFLUSHDB(a, K)
    [] name = "EXPIRE" -> CmdEXPIRE(a, K, tm, 1000)
    [] name = "PEXPIRE" -> CmdEXPIRE(a, K, tm, 1)
    [] name = "TTL" -> CmdTTL(a, K, tm, 1000)
    [] name = "PTTL" -> CmdTTL(a, K, tm, 1)
    [] name = "PERSIST" -> CmdPERSIST(a, K)

=============================================================================
