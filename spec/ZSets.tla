-------------------------------- MODULE ZSets --------------------------------
(***************************************************************************)
(* Sorted sets (property C04).  A sorted set is a function member -> score.*)
(* Scores are exact decimals in units of 1/1000 (TLC has no floats):       *)
(*    [c |-> 0, n |-> 0] = -inf   [c |-> 1, n |-> scaled] finite           *)
(*    [c |-> 2, n |-> 0] = +inf                                            *)
(* The parser accepts [+-]?digits[.digits] with at most 6 integer digits   *)
(* and at most 3 significant fractional digits, and the inf forms; other   *)
(* float syntax (exponents, more digits) is outside the spec's domain and  *)
(* makes the command Unspecified.  NaN is recognised so that it can be     *)
(* REFUSED.  Order = (score, member bytes).                                *)
(* Scores in replies are compared numerically after rounding to 1/1000     *)
(* ("1", "1.0", "1.0000000000000000" all denote the same score).           *)
(***************************************************************************)
EXTENDS Colls, SequencesExt

ZE(v, exp) == Entry("zset", v, exp)
ZVal(K, k) == IF Has(K, k) THEN K[k].v ELSE <<>>

RScore(s) == [t |-> "score", s |-> s]

SLt(x, y) == x.c < y.c \/ (x.c = y.c /\ x.n < y.n)
SLe(x, y) == x = y \/ SLt(x, y)
ZLess(z, m1, m2) == SLt(z[m1], z[m2]) \/ (z[m1] = z[m2] /\ BLt(m1, m2))

(* members in (score, member) order *)
ZSeq(z) == SetToSortSeq(DOMAIN z, LAMBDA x, y : ZLess(z, x, y))

SAdd(x, y) == \* sum of two scores: a score, or "nan"
  IF x.c = 1 /\ y.c = 1 THEN Fin(x.n + y.n)
  ELSE IF x.c = 1 THEN y
  ELSE IF y.c = 1 THEN x
  ELSE IF x = y THEN x ELSE [c |-> 3, n |-> 0]
FinOK(s) == s.c # 1 \/ (s.n < 1000000000 /\ s.n > -1000000000)

-----------------------------------------------------------------------------
RECURSIVE ZAddFrom(_, _, _)
ZAddFrom(a, i, z) == IF i > Len(a) THEN z ELSE ZAddFrom(a, i + 2, (a[i + 1] :> ScoreOf(a[i])) @@ z)

CmdZADD(a, K) ==
  IF Len(a) < 4 THEN Fail(K)
  ELSE IF Len(a) % 2 # 0 THEN (IF ScoreKind(a[3]) \in {"ok", "nan", "unspec"} THEN Fail(K) ELSE Unspec(K))
  ELSE LET kinds == {ScoreKind(a[i]) : i \in {j \in 3..Len(a) : j % 2 = 1}} IN
    IF WrongT(K, a[2], "zset") THEN Fail(K)
    ELSE IF "bad" \in kinds \/ "nan" \in kinds THEN Fail(K)      \* refused as a whole: nothing is added
    ELSE IF "unspec" \in kinds THEN Unspec(K)      \* float syntax outside the spec's domain: never generated
    ELSE LET old == ZVal(K, a[2]) nz == ZAddFrom(a, 3, old)
         IN Out(RInt(Cardinality(DOMAIN nz) - Cardinality(DOMAIN old)), Put(K, a[2], ZE(nz, ExpOf(K, a[2]))))

CmdZREM(a, K) ==
  IF Len(a) < 3 THEN Fail(K)
  ELSE IF WrongT(K, a[2], "zset") THEN Fail(K)
  ELSE IF ~Has(K, a[2]) THEN Out(RInt(0), K)
  ELSE LET z == K[a[2]].v gone == SeqSet(Args(a, 3)) \cap DOMAIN z
           nz == [m \in (DOMAIN z) \ gone |-> z[m]]
       IN Out(RInt(Cardinality(gone)), PutOrDel(K, a[2], "zset", nz, DOMAIN nz = {}))

CmdZSCORE(a, K) ==
  IF Len(a) # 3 THEN Fail(K)
  ELSE IF WrongT(K, a[2], "zset") THEN Fail(K)
  ELSE LET z == ZVal(K, a[2]) IN
    IF a[3] \in DOMAIN z THEN Out(RScore(z[a[3]]), K) ELSE Out(RNil, K)

CmdZCARD(a, K) ==
  IF Len(a) # 2 THEN Fail(K)
  ELSE IF WrongT(K, a[2], "zset") THEN Fail(K)
  ELSE Out(RInt(Cardinality(DOMAIN ZVal(K, a[2]))), K)

IndexOf(s, x) == CHOOSE i \in 1..Len(s) : s[i] = x

CmdZRANK(a, K, rev) ==
  IF Len(a) # 3 THEN Fail(K)
  ELSE IF WrongT(K, a[2], "zset") THEN Fail(K)
  ELSE LET z == ZVal(K, a[2]) IN
    IF a[3] \notin DOMAIN z THEN Out(RNil, K)
    ELSE LET s == ZSeq(z) i == IndexOf(s, a[3])
         IN Out(RInt(IF rev THEN Len(s) - i ELSE i - 1), K)

(* members (optionally with scores) as a flat reply *)
ZReply(z, ms, ws) ==
  IF ws THEN RArr([i \in 1..(2 * Len(ms)) |->
                     IF i % 2 = 1 THEN RBulk(ms[(i + 1) \div 2]) ELSE RScore(z[ms[i \div 2]])])
  ELSE RBulks(ms)

IsWS(a, i) == Len(a) = i /\ Upper(a[i]) = L_WITHSCORES

CmdZRANGE(a, K, rev) ==
  IF Len(a) < 4 THEN Fail(K)
  ELSE IF Len(a) > 5 \/ (Len(a) = 5 /\ ~IsWS(a, 5)) THEN Unspec(K)    \* BYSCORE/REV/LIMIT forms
  ELSE IF ~IsInt(a[3]) \/ ~IsInt(a[4]) THEN Fail(K)
  ELSE IF WrongT(K, a[2], "zset") THEN Fail(K)
  ELSE LET z == ZVal(K, a[2])
           s == IF rev THEN Rev(ZSeq(z)) ELSE ZSeq(z)
           r == LRangeOf(Len(s), SmallOf(a[3]), SmallOf(a[4]))
       IN Out(ZReply(z, Sub(s, r.lo, r.hi), Len(a) = 5), K)

(* score bounds: plain scores only; "(" exclusive bounds and LIMIT are Unspecified *)
BoundKind(b) == IF Len(b) >= 1 /\ b[1] = 40 THEN "unspec" ELSE ScoreKind(b)

CmdZRANGEBYSCORE(a, K, rev) ==
  IF Len(a) < 4 THEN Fail(K)
  ELSE IF Len(a) > 5 \/ (Len(a) = 5 /\ ~IsWS(a, 5)) THEN Unspec(K)
  ELSE LET lob == IF rev THEN a[4] ELSE a[3] hib == IF rev THEN a[3] ELSE a[4]
           kinds == {BoundKind(lob), BoundKind(hib)} IN
    IF "unspec" \in kinds THEN Unspec(K)
    ELSE IF kinds # {"ok"} THEN Fail(K)
    ELSE IF WrongT(K, a[2], "zset") THEN Fail(K)
    ELSE LET z == ZVal(K, a[2]) lo == ScoreOf(lob) hi == ScoreOf(hib)
             s == SelectSeq(ZSeq(z), LAMBDA m : SLe(lo, z[m]) /\ SLe(z[m], hi))
         IN Out(ZReply(z, IF rev THEN Rev(s) ELSE s, Len(a) = 5), K)

CmdZCOUNT(a, K) ==
  IF Len(a) # 4 THEN Fail(K)
  ELSE LET kinds == {BoundKind(a[3]), BoundKind(a[4])} IN
    IF "unspec" \in kinds THEN Unspec(K)
    ELSE IF kinds # {"ok"} THEN Fail(K)
    ELSE IF WrongT(K, a[2], "zset") THEN Fail(K)
    ELSE LET z == ZVal(K, a[2]) lo == ScoreOf(a[3]) hi == ScoreOf(a[4])
         IN Out(RInt(Cardinality({m \in DOMAIN z : SLe(lo, z[m]) /\ SLe(z[m], hi)})), K)

CmdZINCRBY(a, K) ==
  IF Len(a) # 4 THEN Fail(K)
  ELSE LET kd == ScoreKind(a[3]) IN
    IF kd = "unspec" THEN Unspec(K)                      \* never generated
    ELSE IF kd # "ok" THEN Fail(K)
    ELSE IF WrongT(K, a[2], "zset") THEN Fail(K)
    ELSE LET z == ZVal(K, a[2])
             cur == IF a[4] \in DOMAIN z THEN z[a[4]] ELSE Fin(0)
             ns == SAdd(cur, ScoreOf(a[3]))
         IN IF ns.c = 3 THEN Fail(K)                       \* the sum is not a number: refused
            ELSE IF ~FinOK(ns) THEN Unspec(K)
            ELSE Out(RScore(ns), Put(K, a[2], ZE((a[4] :> ns) @@ z, ExpOf(K, a[2]))))

CmdZPOP(a, K, max) ==
  IF Len(a) < 2 \/ Len(a) > 3 THEN Fail(K)
  ELSE IF Len(a) = 3 /\ (~IsInt(a[3]) \/ IntOf(a[3]).neg) THEN Fail(K)
  ELSE IF WrongT(K, a[2], "zset") THEN
         (IF Len(a) = 3 /\ SmallOf(a[3]) = 0 THEN Out(ROneOf({RErr, RArr(<<>>), RNilArr}), K) ELSE Fail(K))
  ELSE IF ~Has(K, a[2]) THEN Out(ROneOf({RArr(<<>>), RNilArr}), K)
  ELSE LET z == K[a[2]].v
           s == IF max THEN Rev(ZSeq(z)) ELSE ZSeq(z)
           n == IF Len(a) = 3 THEN Min2(SmallOf(a[3]), Len(s)) ELSE 1
           ms == Sub(s, 1, n)
           nz == [m \in (DOMAIN z) \ SeqSet(ms) |-> z[m]]
       IN IF n = 0 THEN Out(ROneOf({RArr(<<>>), RNilArr}), K)
          ELSE Out(ZReply(z, ms, TRUE), PutOrDel(K, a[2], "zset", nz, DOMAIN nz = {}))

-----------------------------------------------------------------------------
ZSetCommands == {"ZADD", "ZREM", "ZSCORE", "ZCARD", "ZRANK", "ZREVRANK", "ZRANGE", "ZREVRANGE",
  "ZRANGEBYSCORE", "ZREVRANGEBYSCORE", "ZCOUNT", "ZINCRBY", "ZPOPMIN", "ZPOPMAX"}

ZSetCmd(name, a, K) ==
  CASE name = "ZADD" -> CmdZADD(a, K)
    [] name = "ZREM" -> CmdZREM(a, K)
    [] name = "ZSCORE" -> CmdZSCORE(a, K)
    [] name = "ZCARD" -> CmdZCARD(a, K)
    [] name = "ZRANK" -> CmdZRANK(a, K, FALSE)
    [] name = "ZREVRANK" -> CmdZRANK(a, K, TRUE)
    [] name = "ZRANGE" -> CmdZRANGE(a, K, FALSE)
    [] name = "ZREVRANGE" -> CmdZRANGE(a, K, TRUE)
    [] name = "ZRANGEBYSCORE" -> CmdZRANGEBYSCORE(a, K, FALSE)
    [] name = "ZREVRANGEBYSCORE" -> CmdZRANGEBYSCORE(a, K, TRUE)
    [] name = "ZCOUNT" -> CmdZCOUNT(a, K)
    [] name = "ZINCRBY" -> CmdZINCRBY(a, K)
    [] name = "ZPOPMIN" -> CmdZPOP(a, K, FALSE)
    [] name = "ZPOPMAX" -> CmdZPOP(a, K, TRUE)

=============================================================================
