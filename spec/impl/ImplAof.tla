------------------------------- MODULE ImplAof -------------------------------
(***************************************************************************)
(* The logging design of the append-only file (property C11), shaped like  *)
(* src/network/server.rs: which requests are appended, in which form, and  *)
(* where a SELECT is inserted.  Command effects come from the reference    *)
(* semantics (Ferrous.tla); the logger below decides the entries; TLC      *)
(* checks, over every interleaving of a few connections sending a finite   *)
(* catalogue, that re-executing the file always reproduces the live        *)
(* dataset (Faithful) and that the file never holds an entry for a request *)
(* that changed nothing it did not have to (Frames).                       *)
(*                                                                         *)
(* Design = "fixed"  : the repaired design (what the tree does now)        *)
(* Design = "pinned" : the design of the pinned commit (verbatim SPOP, no  *)
(*                     SELECT, GETSET/HMSET/PEXPIRE not in the write set,  *)
(*                     served blocking pops unlogged) — TLC finds the      *)
(*                     counterexamples that became findings F0xx.          *)
(* WriteSet is compared with the list in Server::is_write_command by the   *)
(* check (lib/props/c11.py) so that the transcription cannot drift.        *)
(***************************************************************************)
EXTENDS Ferrous, Cats

CONSTANTS Conns, Catalogue, MaxPath, MaxQueue, Design

VARIABLES S,       \* live server state (reference semantics)
          R,       \* set of datasets obtained by re-executing the file so far: [dbs, db, scripts]
          logdb,   \* database the file is positioned on (-1: unknown, a SELECT comes first)
          file,    \* the entries appended so far (only their number matters for the bound)
          steps
vars == <<S, R, logdb, file, steps>>

Tm0 == [t0 |-> 0, t1 |-> 0]

WriteSet ==
  {"SET", "DEL", "EXPIRE", "INCR", "DECR", "INCRBY", "DECRBY", "SETNX", "SETEX", "PSETEX", "FLUSHDB", "FLUSHALL",
   "LPUSH", "RPUSH", "LPOP", "RPOP", "LSET", "LREM", "LTRIM", "SADD", "SREM", "SPOP", "HSET", "HDEL", "HINCRBY",
   "ZADD", "ZREM", "ZINCRBY", "ZPOPMIN", "ZPOPMAX", "XADD", "XTRIM", "XDEL", "XGROUP", "XACK", "XCLAIM", "XREADGROUP",
   "MSET", "APPEND", "SETRANGE", "RENAME", "RENAMENX", "PERSIST", "EVAL", "EVALSHA", "GETSET", "HMSET", "PEXPIRE"}
PinnedWriteSet == WriteSet \ {"GETSET", "HMSET", "PEXPIRE"}

L_SREMb == <<83, 82, 69, 77>>
L_LPOPb == <<76, 80, 79, 80>>
L_RPOPb == <<82, 80, 79, 80>>
L_SELECTb == <<83, 69, 76, 69, 67, 84>>

(* entries for ONE executed command `a` with (concrete) reply r *)
Entries(a, r) ==
  LET name == NameOf(a) IN
  IF Design = "pinned"
  THEN (IF name \in PinnedWriteSet THEN <<a>> ELSE <<>>)
  ELSE IF name = "SPOP" THEN
         (IF r.t = "bulk" /\ Len(a) >= 2 THEN << <<L_SREMb, a[2], r.v>> >> ELSE <<>>)     \* by outcome
  ELSE IF name \in {"BLPOP", "BRPOP"} THEN
         (IF r.t = "arr" /\ Len(r.v) = 2 THEN << <<IF name = "BLPOP" THEN L_LPOPb ELSE L_RPOPb, r.v[1].v>> >> ELSE <<>>)
  ELSE IF name \in WriteSet THEN <<a>>                                                      \* verbatim, before dispatch
  ELSE <<>>

(* with the SELECT the fixed design puts in front when the file is positioned on another database *)
WithSelect(es, db, ldb) ==
  IF es = <<>> \/ Design = "pinned" \/ db = ldb THEN es
  ELSE << <<L_SELECTb, IntBytes(db)>> >> \o es

(* the requests of an EXEC are logged one by one as they run: db moves with queued SELECTs that succeeded *)
RECURSIVE ExecEntries(_, _, _, _, _)
ExecEntries(q, rs, i, db, ldb) ==  \* -> [es, ldb]
  IF i > Len(q) THEN [es |-> <<>>, ldb |-> ldb]
  ELSE LET a == q[i] r == rs[i]
           mine == WithSelect(Entries(a, r), db, ldb)
           ldb2 == IF mine = <<>> \/ Design = "pinned" THEN ldb ELSE db
           db2 == IF NameOf(a) = "SELECT" /\ r = ROk /\ Len(a) = 2 /\ IsInt(a[2]) THEN SmallOf(a[2]) ELSE db
           rest == ExecEntries(q, rs, i + 1, db2, ldb2)
       IN [es |-> mine \o rest.es, ldb |-> rest.ldb]

Logged(S0, c, a, r) ==   \* -> [es, ldb]
  LET cn == S0.conns[c] name == NameOf(a) IN
  IF cn.multi /\ name \notin TxnControl THEN [es |-> <<>>, ldb |-> logdb]            \* only queued
  ELSE IF name = "EXEC" THEN
         (IF cn.multi /\ r.t = "arr" /\ Len(r.v) = Len(cn.queue) THEN ExecEntries(cn.queue, r.v, 1, cn.db, logdb)
          ELSE [es |-> <<>>, ldb |-> logdb])
  ELSE LET mine == WithSelect(Entries(a, r), cn.db, logdb)
       IN [es |-> mine, ldb |-> IF mine = <<>> \/ Design = "pinned" THEN logdb ELSE cn.db]

Init ==
  /\ S = [InitS EXCEPT !.conns = [c \in Conns |-> NewConn(InitS)]]
  /\ R = {[dbs |-> [d \in DBs |-> EmptyK], db |-> 0, scripts |-> {}]}
  /\ logdb = -1
  /\ file = 0
  /\ steps = 0

Concrete(r) == r.t \in {"st", "int", "bulk", "nil", "nilarr", "err"}
              \/ (r.t = "arr" /\ \A i \in 1..Len(r.v) : r.v[i].t \in {"st", "int", "bulk", "nil", "nilarr", "err", "arr"})

Do(c, a) ==
  /\ steps < MaxPath
  /\ \E o \in Step(S, c, a, Tm0, NoObs) :
       /\ o.dv = {}
       /\ o.r.t # "blocks"                         \* waiting clients are the subject of MC_Blocking
       /\ Len(o.S.conns[c].queue) <= MaxQueue
       /\ LET lg == Logged(S, c, a, o.r)
              req == [a |-> a, obs |-> NoObs]
          IN /\ S' = o.S
             /\ R' = AofApply(R, lg.es, 1, Tm0, req)
             /\ logdb' = lg.ldb
             /\ file' = file + Len(lg.es)
             /\ steps' = steps + 1

Next == \E c \in Conns : \E a \in Catalogue : Do(c, a)
Spec == Init /\ [][Next]_vars

(* C11: re-executing the file gives the live dataset — whichever way the entries re-execute *)
Faithful == R # {} /\ \A x \in R : SameData(x.dbs, S.dbs)
=============================================================================
