----------------------------- MODULE ImplBgsave -----------------------------
(***************************************************************************)
(* The snapshot discipline of src/storage/rdb.rs (property C10), shaped    *)
(* like the code: a save takes the key list, then reads key after key      *)
(* (value and TTL under ONE lock acquisition), writes into ITS OWN         *)
(* temporary file and renames it over the dump at the end; any write may   *)
(* fail; a background save runs on its own thread next to the command      *)
(* thread (client writes, a foreground SAVE) and is guarded by a flag; the *)
(* process may die at any step.  TLC explores every interleaving of the    *)
(* save steps with client commands, every failure point and every crash    *)
(* point and checks:                                                       *)
(*   Complete   the dump is absent or the result of ONE finished save      *)
(*   PerKey     every key in the dump has a (value, ttl) pair the key       *)
(*              really had at one instant of that save's window, and a key *)
(*              that is missing was absent at some instant of the window   *)
(*   FlagSound  the background-save flag is set only while a background    *)
(*              save is running (a failed save does not wedge BGSAVE)      *)
(*   OwnTemp    two saves never write into the same temporary file         *)
(* Design = "pinned" reproduces the design of the pinned commit (one       *)
(* shared temporary file, value and TTL read in two steps, flag not        *)
(* cleared on failure); TLC then finds the schedules that became F0xx.     *)
(* The schedules are forced on the real code through the RDB sync points   *)
(* (hook H7) by lib/props/c10.py and validated by the trace spec.          *)
(***************************************************************************)
EXTENDS Naturals, Sequences, FiniteSets, TLC

CONSTANTS Keys, Vals, Ttls, MaxWrites, MaxSaves, Design

Absent == [v |-> 0, t |-> 0]                      \* 0 is not in Vals / Ttls
Entry == [v : Vals, t : Ttls] \cup {Absent}

VARIABLES mem,      \* key -> Entry: the live dataset
          disk,     \* [k |-> "none"] or [k |-> "dump", data: key -> Entry (only present keys), by: save id]
          temp,     \* temp file name -> partial content (function on a subset of Keys) ; names: save id or "shared"
          saves,    \* save id -> [kind, todo (seq of keys), got (key -> Entry), half (a value read whose TTL is not read yet), st]
          flag,     \* background save in progress
          hist,     \* save id -> key -> set of entries the key had since that save started (ghost)
          done,     \* save id -> the content it renamed into place (ghost)
          nw, ns
vars == <<mem, disk, temp, saves, flag, hist, done, nw, ns>>

NoDump == [k |-> "none"]
Ids == 1..MaxSaves
Active == {i \in DOMAIN saves : saves[i].st = "run"}
TempOf(i) == IF Design = "pinned" THEN 0 ELSE i        \* pinned: every save writes <dump>.tmp
KeySeq == CHOOSE s \in [1..Cardinality(Keys) -> Keys] : \A k \in Keys : \E j \in DOMAIN s : s[j] = k
Present(m) == {k \in Keys : m[k] # Absent}
SeqOfPresent(m) == LET RECURSIVE F(_)
                       F(j) == IF j > Len(KeySeq) THEN <<>>
                               ELSE (IF m[KeySeq[j]] # Absent THEN <<KeySeq[j]>> ELSE <<>>) \o F(j + 1)
                   IN F(1)

Init ==
  /\ mem = [k \in Keys |-> Absent]
  /\ disk = NoDump
  /\ temp = <<>>
  /\ saves = <<>>
  /\ flag = FALSE
  /\ hist = <<>>
  /\ done = <<>>
  /\ nw = 0 /\ ns = 0

Observe(m2) == [i \in DOMAIN hist |-> IF i \in Active THEN [k \in Keys |-> hist[i][k] \cup {m2[k]}] ELSE hist[i]]

(* a client command changes one key (set with or without TTL, delete, expire) *)
ClientWrite(k, e) ==
  /\ nw < MaxWrites
  /\ mem[k] # e
  /\ mem' = [mem EXCEPT ![k] = e]
  /\ hist' = Observe(mem')
  /\ nw' = nw + 1
  /\ UNCHANGED <<disk, temp, saves, flag, done, ns>>

(* BGSAVE: refused while the flag is set; otherwise a save thread starts with the key list of this instant *)
StartBg ==
  /\ ns < MaxSaves
  /\ ~flag
  /\ LET i == ns + 1 IN
     /\ saves' = (i :> [kind |-> "bg", todo |-> SeqOfPresent(mem), got |-> <<>>, half |-> <<>>, st |-> "run"]) @@ saves
     /\ temp' = (TempOf(i) :> <<>>) @@ temp
     /\ hist' = (i :> [k \in Keys |-> {mem[k]}]) @@ hist
  /\ flag' = TRUE
  /\ ns' = ns + 1
  /\ UNCHANGED <<mem, disk, done, nw>>

(* SAVE: the command thread runs the whole save; only a background save thread can interleave *)
StartFg ==
  /\ ns < MaxSaves
  /\ LET i == ns + 1 IN
     /\ saves' = (i :> [kind |-> "fg", todo |-> SeqOfPresent(mem), got |-> <<>>, half |-> <<>>, st |-> "run"]) @@ saves
     /\ temp' = (TempOf(i) :> <<>>) @@ temp
     /\ hist' = (i :> [k \in Keys |-> {mem[k]}]) @@ hist
  /\ ns' = ns + 1
  /\ UNCHANGED <<mem, disk, flag, done, nw>>
FgRunning == \E i \in Active : saves[i].kind = "fg"

(* one key: value and TTL at one instant (fixed) / value now, TTL at a later step (pinned) *)
ReadKey(i) ==
  /\ i \in Active /\ saves[i].todo # <<>> /\ saves[i].half = <<>>
  /\ LET k == Head(saves[i].todo) e == mem[k] IN
     IF Design = "pinned" /\ e # Absent
     THEN /\ saves' = [saves EXCEPT ![i].half = <<k, e.v>>]
          /\ UNCHANGED temp
     ELSE /\ saves' = [saves EXCEPT ![i].todo = Tail(@), ![i].got = IF e = Absent THEN @ ELSE (k :> e) @@ @]
          /\ temp' = [temp EXCEPT ![TempOf(i)] = IF e = Absent THEN @ ELSE (k :> e) @@ @]
  /\ UNCHANGED <<mem, disk, flag, hist, done, nw, ns>>
ReadTtl(i) ==       \* pinned only: the TTL is looked up separately
  /\ i \in Active /\ saves[i].half # <<>>
  /\ LET k == saves[i].half[1] v == saves[i].half[2]
         e == [v |-> v, t |-> IF mem[k] = Absent THEN CHOOSE t \in Ttls : TRUE ELSE mem[k].t]
     IN /\ saves' = [saves EXCEPT ![i].todo = Tail(@), ![i].half = <<>>, ![i].got = (k :> e) @@ @]
        /\ temp' = [temp EXCEPT ![TempOf(i)] = (k :> e) @@ @]
  /\ UNCHANGED <<mem, disk, flag, hist, done, nw, ns>>

(* a write fails: the save ends, its temporary file is removed, the dump stays *)
Fail(i) ==
  /\ i \in Active
  /\ saves' = [saves EXCEPT ![i].st = "failed"]
  /\ temp' = [n \in (DOMAIN temp) \ {TempOf(i)} |-> temp[n]]
  /\ flag' = IF saves[i].kind = "bg" /\ Design # "pinned" THEN FALSE ELSE flag
  /\ UNCHANGED <<mem, disk, hist, done, nw, ns>>

(* everything written: the temporary file is renamed over the dump *)
Finish(i) ==
  /\ i \in Active /\ saves[i].todo = <<>> /\ saves[i].half = <<>>
  /\ TempOf(i) \in DOMAIN temp
  /\ disk' = [k |-> "dump", data |-> temp[TempOf(i)], by |-> i]
  /\ done' = (i :> saves[i].got) @@ done
  /\ temp' = [n \in (DOMAIN temp) \ {TempOf(i)} |-> temp[n]]
  /\ saves' = [saves EXCEPT ![i].st = "done"]
  /\ flag' = IF saves[i].kind = "bg" THEN FALSE ELSE flag
  /\ UNCHANGED <<mem, hist, nw, ns>>

(* the process dies and is started again: memory is what the dump holds, stale temporary files may remain *)
Crash ==
  /\ saves' = [i \in DOMAIN saves |-> IF i \in Active THEN [saves[i] EXCEPT !.st = "killed"] ELSE saves[i]]
  /\ flag' = FALSE
  /\ mem' = IF disk = NoDump THEN [k \in Keys |-> Absent]
            ELSE [k \in Keys |-> IF k \in DOMAIN disk.data THEN disk.data[k] ELSE Absent]
  /\ hist' = hist
  /\ UNCHANGED <<disk, temp, done, nw, ns>>

Next ==
  \/ (~FgRunning /\ \E k \in Keys : \E e \in Entry : ClientWrite(k, e))
  \/ (~FgRunning /\ StartBg)
  \/ (~FgRunning /\ StartFg)
  \/ \E i \in Ids : ReadKey(i) \/ ReadTtl(i) \/ Fail(i) \/ Finish(i)
  \/ (Active # {} /\ Crash)
Spec == Init /\ [][Next]_vars

-----------------------------------------------------------------------------
Complete == disk = NoDump \/ (disk.by \in DOMAIN done /\ disk.data = done[disk.by])
PerKey ==
  disk # NoDump =>
    LET i == disk.by IN
    /\ \A k \in DOMAIN disk.data : disk.data[k] \in hist[i][k]
    /\ \A k \in Keys \ DOMAIN disk.data : Absent \in hist[i][k]
FlagSound == flag => \E i \in Active : saves[i].kind = "bg"
OwnTemp == \A i, j \in Active : i # j => TempOf(i) # TempOf(j)
=============================================================================
