----------------------------- MODULE ImplBlocking -----------------------------
(***************************************************************************)
(* Implementation-shaped model of the blocking-pop MECHANISM (C13), as     *)
(* src/network/blocking.rs and the event loop of src/network/server.rs     *)
(* code it after the repairs:                                              *)
(*   registry[k]  FIFO of the clients registered on key k (one entry per   *)
(*                key of a multi-key call, same client record)             *)
(*   wakeq        queue of wake-up requests (a push enqueues the key when  *)
(*                the registry has a waiter for it)                        *)
(*   one pass of the loop = ProcessWakeups ; ProcessConnections (every     *)
(*   connection that is not Blocked executes the requests it has sent, a   *)
(*   Blocked one is only probed for a closed peer) ; ProcessTimeouts ;     *)
(*   Cleanup (closing connections are removed and unregistered).           *)
(* wake_client(k): WHILE the registry has a first waiter of k: if its      *)
(*   connection is no longer Blocked, drop its registrations and go on;    *)
(*   else pop an element of k (left or right as the waiter asked) — none:  *)
(*   stop — deliver it, the connection becomes ready again, and the        *)
(*   client leaves the queue of EVERY key it waited on.                    *)
(* Switches describe the design of the pinned commit, where TLC finds the  *)
(* schedules that became findings:                                         *)
(*   ServeLoop  = FALSE : one wake-up serves at most one waiter            *)
(*   LeaveAll   = FALSE : a served client leaves only the key it was       *)
(*                        served from                                      *)
(*   HoldBehind = FALSE : requests pipelined behind a blocking pop run     *)
(*                        while the client is blocked                      *)
(* Ghosts: pushed / delivered (conservation), order (FIFO).                *)
(***************************************************************************)
EXTENDS Naturals, Sequences, FiniteSets, TLC

CONSTANTS Clients, Keys, MaxElems, MaxSends, MaxTime, ServeLoop, LeaveAll, HoldBehind

VARIABLES lists,      \* key -> sequence of elements (head first)
          registry,   \* key -> sequence of client ids
          wakeq,      \* sequence of keys
          conn,       \* client -> [st: "ready"|"blocked"|"closing"|"gone", keys, left, deadline (0 = none), inbuf: requests sent and not yet executed, ord]
          phase,      \* "wake" | "conns" | "timeouts" | "cleanup"
          now, nextElem, sends, bseq,
          pushed, delivered, lastServed   \* ghosts
vars == <<lists, registry, wakeq, conn, phase, now, nextElem, sends, bseq, pushed, delivered, lastServed>>

Ready == [st |-> "ready", keys |-> <<>>, left |-> TRUE, deadline |-> 0, inbuf |-> <<>>, ord |-> 0]
SeqSet(s) == {s[i] : i \in 1..Len(s)}
Without(s, x) == SelectSeq(s, LAMBDA y : y # x)

Init ==
  /\ lists = [k \in Keys |-> <<>>] /\ registry = [k \in Keys |-> <<>>] /\ wakeq = <<>>
  /\ conn = [c \in Clients |-> Ready]
  /\ phase = "wake" /\ now = 0 /\ nextElem = 1 /\ sends = 0 /\ bseq = 1
  /\ pushed = {} /\ delivered = {} /\ lastServed = [c |-> 0, k |-> 0, before |-> {}]

(* requests: [op |-> "push", k, n, left] | [op |-> "pop", k, left] | [op |-> "bpop", keys, left, to] *)
(* (pushes at the tail, plain pops at the head: the mirrored forms add states, not behaviour) *)
Requests ==
  [op : {"push"}, k : Keys, n : {1, 2}, left : {FALSE}]
  \cup [op : {"pop"}, k : Keys, left : {TRUE}]
  \cup [op : {"bpop"}, keys : {<<k>> : k \in Keys} \cup {x \in Keys \X Keys : x[1] # x[2]}, left : BOOLEAN, to : {0, 1}]

(* a client writes a request to its socket (any time, also while blocked: pipelining) *)
Send(c, r) ==
  /\ sends < MaxSends /\ conn[c].st \in {"ready", "blocked"}
  /\ r.op = "push" => nextElem + r.n - 1 <= MaxElems
  /\ Len(conn[c].inbuf) < 2
  /\ conn' = [conn EXCEPT ![c].inbuf = Append(@, r)]
  /\ sends' = sends + 1
  /\ UNCHANGED <<lists, registry, wakeq, phase, now, nextElem, bseq, pushed, delivered, lastServed>>

Close(c) ==   \* the peer closes its socket; the server notices in ProcessConnections
  /\ conn[c].st \in {"ready", "blocked"}
  /\ conn' = [conn EXCEPT ![c].st = IF @ = "blocked" THEN "blockedclosed" ELSE "closing", ![c].inbuf = <<>>]
  /\ UNCHANGED <<lists, registry, wakeq, phase, now, nextElem, sends, bseq, pushed, delivered, lastServed>>

Tick == now < MaxTime /\ now' = now + 1 /\ UNCHANGED <<lists, registry, wakeq, conn, phase, nextElem, sends, bseq, pushed, delivered, lastServed>>

-----------------------------------------------------------------------------
Unregister(reg, c) == [k \in Keys |-> Without(reg[k], c)]

PopOf(l, left) == IF left THEN [x |-> Head(l), rest |-> Tail(l)] ELSE [x |-> l[Len(l)], rest |-> SubSeq(l, 1, Len(l) - 1)]

(* wake_client for key k: state = [lists, registry, conn, delivered, served] *)
RECURSIVE WakeKey(_, _, _)
WakeKey(k, st, fuel) ==
  IF fuel = 0 \/ st.registry[k] = <<>> THEN st
  ELSE LET c == Head(st.registry[k]) IN
    IF st.conn[c].st # "blocked"
    THEN WakeKey(k, [st EXCEPT !.registry = Unregister(@, c)], fuel - 1)
    ELSE IF st.lists[k] = <<>> THEN st
    ELSE LET p == PopOf(st.lists[k], st.conn[c].left)
             st2 == [st EXCEPT !.lists[k] = p.rest,
                               !.conn[c] = [Ready EXCEPT !.inbuf = st.conn[c].inbuf],
                               !.registry = IF LeaveAll THEN Unregister(@, c) ELSE [@ EXCEPT ![k] = Tail(@)],
                               !.delivered = @ \cup {p.x},
                               !.served = Append(@, [c |-> c, k |-> k, before |-> SeqSet(Tail(st.registry[k]))])]
         IN IF ServeLoop THEN WakeKey(k, st2, fuel - 1) ELSE st2

ProcessWakeups ==
  /\ phase = "wake"
  /\ LET RECURSIVE Run(_, _)
         Run(q, st) == IF q = <<>> THEN st ELSE Run(Tail(q), WakeKey(Head(q), st, 8))
         st0 == [lists |-> lists, registry |-> registry, conn |-> conn, delivered |-> delivered, served |-> <<>>]
         st1 == Run(wakeq, st0)
     IN /\ lists' = st1.lists /\ registry' = st1.registry /\ conn' = st1.conn /\ delivered' = st1.delivered
        /\ lastServed' = IF st1.served = <<>> THEN lastServed ELSE st1.served[Len(st1.served)]
  /\ wakeq' = <<>> /\ phase' = "conns"
  /\ UNCHANGED <<now, nextElem, sends, bseq, pushed>>

(* execute the requests connection c has sent, back to back, until it blocks *)
RECURSIVE Exec(_, _, _)
Exec(c, st, fuel) ==   \* st = [lists, registry, wakeq, conn, nextElem, bseq, pushed, delivered]
  IF fuel = 0 \/ st.conn[c].inbuf = <<>> \/ (st.conn[c].st = "blocked" /\ HoldBehind) \/ st.conn[c].st \notin {"ready", "blocked"} THEN st
  ELSE LET r == Head(st.conn[c].inbuf)
           st1 == [st EXCEPT !.conn[c].inbuf = Tail(@)]
       IN CASE r.op = "push" ->
                 LET els == [i \in 1..r.n |-> st.nextElem + i - 1]
                     nl == IF r.left THEN [i \in 1..r.n |-> els[r.n - i + 1]] \o st.lists[r.k] ELSE st.lists[r.k] \o els
                 IN Exec(c, [st1 EXCEPT !.lists[r.k] = nl, !.nextElem = @ + r.n, !.pushed = @ \cup SeqSet(els),
                                        !.wakeq = IF st.registry[r.k] # <<>> THEN Append(@, r.k) ELSE @], fuel - 1)
            [] r.op = "pop" ->
                 IF st.lists[r.k] = <<>> THEN Exec(c, st1, fuel - 1)
                 ELSE LET p == PopOf(st.lists[r.k], r.left)
                      IN Exec(c, [st1 EXCEPT !.lists[r.k] = p.rest, !.delivered = @ \cup {p.x}], fuel - 1)
            [] r.op = "bpop" ->
                 LET ready == {i \in 1..Len(r.keys) : st.lists[r.keys[i]] # <<>>} IN
                 IF ready # {}
                 THEN LET i == CHOOSE j \in ready : \A m \in ready : j <= m
                          p == PopOf(st.lists[r.keys[i]], r.left)
                      IN Exec(c, [st1 EXCEPT !.lists[r.keys[i]] = p.rest, !.delivered = @ \cup {p.x}], fuel - 1)
                 ELSE Exec(c, [st1 EXCEPT !.conn[c].st = "blocked", !.conn[c].keys = r.keys, !.conn[c].left = r.left,
                                          !.conn[c].deadline = IF r.to = 0 THEN 0 ELSE now + r.to, !.conn[c].ord = st.bseq,
                                          !.bseq = @ + 1,
                                          !.registry = [k \in Keys |-> IF k \in SeqSet(r.keys) /\ c \notin SeqSet(@[k]) THEN Append(@[k], c) ELSE @[k]]],
                           fuel - 1)

ProcessConnections ==
  /\ phase = "conns"
  /\ LET RECURSIVE Run(_, _)
         Run(cs, st) == IF cs = {} THEN st
                        ELSE LET c == CHOOSE x \in cs : \A y \in cs : x <= y IN Run(cs \ {c}, Exec(c, st, 4))
         probed == [c \in Clients |-> IF conn[c].st = "blockedclosed" THEN [conn[c] EXCEPT !.st = "closing"] ELSE conn[c]]
         st0 == [lists |-> lists, registry |-> registry, wakeq |-> wakeq, conn |-> probed, nextElem |-> nextElem, bseq |-> bseq,
                 pushed |-> pushed, delivered |-> delivered]
         st1 == Run({c \in Clients : probed[c].st = "ready" \/ (probed[c].st = "blocked" /\ ~HoldBehind)}, st0)
     IN /\ lists' = st1.lists /\ registry' = st1.registry /\ wakeq' = st1.wakeq /\ conn' = st1.conn /\ nextElem' = st1.nextElem
        /\ bseq' = st1.bseq /\ pushed' = st1.pushed /\ delivered' = st1.delivered
  /\ phase' = "timeouts"
  /\ UNCHANGED <<now, sends, lastServed>>

ProcessTimeouts ==
  /\ phase = "timeouts"
  /\ LET due == {c \in Clients : conn[c].st = "blocked" /\ conn[c].deadline # 0 /\ now >= conn[c].deadline
                                 /\ \E k \in Keys : c \in SeqSet(registry[k])}
     IN /\ registry' = [k \in Keys |-> SelectSeq(registry[k], LAMBDA x : x \notin due)]
        /\ conn' = [c \in Clients |-> IF c \in due THEN [Ready EXCEPT !.inbuf = conn[c].inbuf] ELSE conn[c]]
  /\ phase' = "cleanup"
  /\ UNCHANGED <<lists, wakeq, now, nextElem, sends, bseq, pushed, delivered, lastServed>>

Cleanup ==
  /\ phase = "cleanup"
  /\ LET gone == {c \in Clients : conn[c].st = "closing"}
     IN /\ registry' = [k \in Keys |-> SelectSeq(registry[k], LAMBDA x : x \notin gone)]
        /\ conn' = [c \in Clients |-> IF c \in gone THEN [Ready EXCEPT !.st = "gone"] ELSE conn[c]]
  /\ phase' = "wake"
  /\ UNCHANGED <<lists, wakeq, now, nextElem, sends, bseq, pushed, delivered, lastServed>>

Next == \/ \E c \in Clients, r \in Requests : Send(c, r)
        \/ \E c \in Clients : Close(c)
        \/ Tick \/ ProcessWakeups \/ ProcessConnections \/ ProcessTimeouts \/ Cleanup
Spec == Init /\ [][Next]_vars

-----------------------------------------------------------------------------
Remaining == UNION {SeqSet(lists[k]) : k \in Keys}
(* every pushed element is still in its list or was returned to exactly one client *)
Conservation == /\ pushed = delivered \cup Remaining /\ delivered \cap Remaining = {}
                /\ \A k \in Keys : Cardinality(SeqSet(lists[k])) = Len(lists[k])
(* registered <=> blocked on that key: no leftover registration, none missing (checked between passes) *)
NoLeftover == phase = "wake" =>
  \A k \in Keys, c \in Clients : (c \in SeqSet(registry[k])) <=> (conn[c].st \in {"blocked", "blockedclosed"} /\ k \in SeqSet(conn[c].keys))
(* registry queues hold each client once, in blocking order: the head, which wake_client serves, blocked first (FIFO service) *)
FifoQueues == \A k \in Keys : \A i, j \in 1..Len(registry[k]) : i < j => conn[registry[k][i]].ord < conn[registry[k][j]].ord
(* nobody is stranded: right after the wake-up phase of a pass with no wake-up pending, no blocked live client waits on a key that holds elements *)
NoneStranded == (phase = "conns" /\ wakeq = <<>>) =>
  \A c \in Clients : conn[c].st = "blocked" => \A i \in 1..Len(conn[c].keys) : lists[conn[c].keys[i]] = <<>>
=============================================================================
