----------------------------- MODULE ImplParser -----------------------------
(***************************************************************************)
(* Transcription of /repo/src/protocol/parser.rs (RespParser::parse and    *)
(* parse_frame with its helpers) as pure operators over byte sequences.    *)
(* Line numbers refer to parser.rs.                                        *)
(*                                                                         *)
(* A Rust slice `data` (0-based) is a TLA+ sequence d (1-based):           *)
(*   data[i] = d[i + 1],  &data[n..] = Drop(d, n).                         *)
(* Result of parse_frame / one call of RespParser::parse on the bytes      *)
(* behind `position`:                                                      *)
(*   [k |-> "none"]                     Ok(None)  need more data           *)
(*   [k |-> "err"]                      Err(Protocol(..))                  *)
(*   [k |-> "ok", f |-> tree, n |-> c]  Ok(Some(frame)), c bytes consumed  *)
(*                                      (position advanced by c)           *)
(* Frame trees are those of RespCodec.tla.  A double whose text is not in  *)
(* RespCodec!DblTab is kept as [t |-> "dbltext", v |-> text] (the numeric  *)
(* value of arbitrary decimal text is outside this model).                 *)
(*                                                                         *)
(* Not modelled: the sizes passed to Vec::with_capacity (checked on the    *)
(* real code through peak_alloc), the recursion depth (ditto, deep nests), *)
(* and buffer compaction (l.83-86; no effect on results).  usize           *)
(* arithmetic is exact here; `header_consumed + len + 2` cannot wrap on a  *)
(* 64-bit target because len <= i64::MAX.  Declared lengths beyond 10^9    *)
(* are clamped (they exceed every buffer of the bounded model).            *)
(*                                                                         *)
(* FixedPing = FALSE is the code as it is.  FixedPing = TRUE is the        *)
(* obvious repair of the raw-PING special case: when the bytes behind the  *)
(* skipped white space are a proper prefix of "PING", ask for more data.   *)
(***************************************************************************)
EXTENDS RespCodec

CONSTANT FixedPing

SP == 32
TAB == 9
PING == <<80, 73, 78, 71>>

None == [k |-> "none"]
Err == [k |-> "err"]
Ok(f, n) == [k |-> "ok", f |-> f, n |-> n]

(* parse_line(data, 1), l.339-351 *)
NoLine == [ok |-> FALSE]
ParseLine(d) ==
  IF Len(d) < 3 THEN NoLine                                                  \* l.340
  ELSE LET js == {j \in 2..(Len(d) - 1) : d[j] = CR /\ d[j + 1] = LF}        \* l.344-345
       IN IF js = {} THEN NoLine                                             \* l.350
          ELSE LET j == MinOf(js) IN [ok |-> TRUE, line |-> Sub(d, 2, j - 1), n |-> j + 1]

(* str::parse::<i64>: optional '+' or '-', at least one digit, value in range *)
RustI64(b) == AllDigitsFrom(b, SignLen(b) + 1) /\ BigInI64(ParseBig(b))
(* str::parse::<usize>: optional '+', at least one digit, value <= 2^64-1 *)
U64MaxMag == <<1,8,4,4,6,7,4,4,0,7,3,7,0,9,5,5,1,6,1,5>>
RustUsize(b) ==
  LET s == IF Len(b) >= 1 /\ b[1] = 43 THEN 1 ELSE 0
  IN AllDigitsFrom(b, s + 1) /\ MagCmp(ParseBig(b).d, U64MaxMag) <= 0
MinusOne == [neg |-> TRUE, d |-> <<1>>]

RECURSIVE ParseFrame(_), ParseItems(_, _, _, _)

(* the loops `for _ in 0..len { match parse_frame(&data[total_consumed..])? {..} }` of parse_array (l.220),
   parse_set (l.325) and parse_map (l.285, two items per round): off = total_consumed, cnt = items left *)
ParseItems(d, off, cnt, acc) ==
  IF cnt = 0 THEN [k |-> "ok", fs |-> acc, n |-> off]
  ELSE LET r == ParseFrame(Drop(d, off))
       IN IF r.k # "ok" THEN r                      \* `?` propagates Err; None => return Ok(None)
          ELSE ParseItems(d, off + r.n, cnt - 1, Append(acc, r.f))

Lined(d, F(_)) == LET l == ParseLine(d) IN IF l.ok THEN F(l) ELSE None

(* parse_simple_string l.130, parse_error l.139 *)
ParseText(d, t) == LET F(l) == Ok([t |-> t, v |-> l.line], l.n) IN Lined(d, F)

(* parse_integer l.148 *)
ParseInteger(d) ==
  LET F(l) == IF RustI64(l.line) THEN Ok([t |-> "int", v |-> BigToBytes(ParseBig(l.line))], l.n) ELSE Err
  IN Lined(d, F)

(* parse_bulk_string l.161-194 *)
ParseBulk(d) ==
  LET F(l) ==
    IF ~RustI64(l.line) THEN Err                                              \* l.169
    ELSE LET big == ParseBig(l.line) IN
      IF big = MinusOne THEN Ok([t |-> "nil"], l.n)                           \* l.172
      ELSE IF big.neg THEN Err                                                \* l.176
      ELSE LET len == BigToIntClamped(big)
               total == l.n + len + 2                                         \* l.181
           IN IF Len(d) < total THEN None                                     \* l.183
              ELSE IF d[l.n + len + 1] # CR \/ d[l.n + len + 2] # LF THEN Err \* l.188
              ELSE Ok([t |-> "bulk", v |-> Sub(d, l.n + 1, l.n + len)], total)
  IN Lined(d, F)

(* parse_array l.197-231 *)
ParseArray(d) ==
  LET F(l) ==
    IF ~RustI64(l.line) THEN Err
    ELSE LET big == ParseBig(l.line) IN
      IF big = MinusOne THEN Ok([t |-> "nilarr"], l.n)
      ELSE IF big.neg THEN Err
      ELSE LET r == ParseItems(d, l.n, BigToIntClamped(big), <<>>)
           IN IF r.k = "ok" THEN Ok([t |-> "arr", v |-> r.fs], r.n) ELSE r
  IN Lined(d, F)

(* parse_set l.311-336 *)
ParseSet(d) ==
  LET F(l) ==
    IF ~RustUsize(l.line) THEN Err
    ELSE LET r == ParseItems(d, l.n, BigToIntClamped(ParseBig(l.line)), <<>>)
         IN IF r.k = "ok" THEN Ok([t |-> "set3", v |-> r.fs], r.n) ELSE r
  IN Lined(d, F)

(* parse_map l.271-308 *)
ParseMap(d) ==
  LET F(l) ==
    IF ~RustUsize(l.line) THEN Err
    ELSE LET len == BigToIntClamped(ParseBig(l.line))
             r == ParseItems(d, l.n, 2 * len, <<>>)
         IN IF r.k = "ok"
            THEN Ok([t |-> "map", v |-> [i \in 1..len |-> <<r.fs[2 * i - 1], r.fs[2 * i]>>]], r.n)
            ELSE r
  IN Lined(d, F)

(* parse_null l.234-243 *)
ParseNull(d) ==
  IF Len(d) < 3 THEN None
  ELSE IF d[2] = CR /\ d[3] = LF THEN Ok([t |-> "null3"], 3) ELSE Err

(* parse_boolean l.246-255 *)
ParseBool(d) ==
  IF Len(d) < 4 THEN None
  ELSE IF d[3] = CR /\ d[4] = LF /\ d[2] \in {116, 102}
       THEN Ok([t |-> "bool", v |-> IF d[2] = 116 THEN 1 ELSE 0], 4) ELSE Err

(* parse_double l.258-268 *)
F64Of(t) ==
  LET es == {e \in DblTab : t = e[2] \/ t \in e[3]}
  IN IF es # {} THEN [t |-> "dbl", v |-> (CHOOSE e \in es : TRUE)[1]] ELSE [t |-> "dbltext", v |-> t]
ParseDouble(d) ==
  LET F(l) == IF IsF64Text(l.line) THEN Ok(F64Of(l.line), l.n) ELSE Err IN Lined(d, F)

(* parse_frame l.107-127 *)
ParseFrame(d) ==
  IF d = <<>> THEN None
  ELSE LET c == d[1] IN
    CASE c = 43  -> ParseText(d, "st")
      [] c = 45  -> ParseText(d, "err")
      [] c = 58  -> ParseInteger(d)
      [] c = 36  -> ParseBulk(d)
      [] c = 42  -> ParseArray(d)
      [] c = 95  -> ParseNull(d)
      [] c = 35  -> ParseBool(d)
      [] c = 44  -> ParseDouble(d)
      [] c = 37  -> ParseMap(d)
      [] c = 126 -> ParseSet(d)
      [] OTHER   -> Err

(* number of leading bytes of b that are in W *)
Lead(b, W) ==
  LET stop == {i \in 1..Len(b) : b[i] \notin W}
  IN IF stop = {} THEN Len(b) ELSE MinOf(stop) - 1

IsProperPrefix(x, y) == Len(x) < Len(y) /\ \A i \in 1..Len(x) : x[i] = y[i]

PingFrame == [t |-> "arr", v |-> <<[t |-> "bulk", v |-> PING]>>]

(* RespParser::parse l.32-96 on a parser whose unconsumed bytes are b (position = 0).
   When the answer is "none" the code leaves `position` behind the skipped white space; skipping is
   idempotent, so carrying the whole of b over to the next call is equivalent. *)
Parse1(b) ==
  LET p == Lead(b, {SP, CR, LF, TAB})                                         \* l.38-44
      r == Drop(b, p)
  IN IF r = <<>> THEN None                                                    \* l.33, l.46
     ELSE IF Len(r) >= 4 /\ Sub(r, 1, 4) = PING                               \* l.51-52
     THEN Ok(PingFrame, p + 4 + Lead(Drop(r, 4), {SP, CR, LF}))               \* l.54-62
     ELSE IF FixedPing /\ IsProperPrefix(r, PING) THEN None                   \* the repair
     ELSE LET x == ParseFrame(r) IN                                           \* l.71
          IF x.k = "ok" THEN Ok(x.f, p + x.n + Lead(Drop(r, x.n), {CR, LF}))  \* l.73-81
          ELSE x

(* what a connection observes for the unconsumed bytes b: parse until none / err *)
Fr(f) == [k |-> "f", f |-> f]
RECURSIVE Drain(_, _)
Drain(b, acc) ==
  LET r == Parse1(b) IN
  IF r.k = "none" THEN [out |-> acc, rest |-> b, dead |-> FALSE]
  ELSE IF r.k = "err" THEN [out |-> Append(acc, Err), rest |-> b, dead |-> TRUE]
  ELSE Drain(Drop(b, r.n), Append(acc, Fr(r.f)))

Results(b) == Drain(b, <<>>).out

(* feed chunk after chunk; after each feed parse until none / err; an error ends the connection *)
RECURSIVE ChunkedFrom(_, _, _)
ChunkedFrom(buf, chunks, acc) ==
  IF chunks = <<>> THEN acc
  ELSE LET d == Drain(buf \o Head(chunks), acc)
       IN IF d.dead THEN d.out ELSE ChunkedFrom(d.rest, Tail(chunks), d.out)
Chunked(chunks) == ChunkedFrom(<<>>, chunks, <<>>)
=============================================================================
