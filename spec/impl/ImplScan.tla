------------------------------- MODULE ImplScan -------------------------------
(***************************************************************************)
(* Implementation-shaped model of the cursor mechanism behind SCAN/HSCAN/  *)
(* SSCAN/ZSCAN (C19).  Elements are numbers; their position in the walk    *)
(* order is the number itself (it stands for the element's hash).          *)
(*   HashCursor = TRUE : repaired design — the cursor is the order         *)
(*                position of the next element to visit                    *)
(*   HashCursor = FALSE: pinned design — the cursor is an INDEX into the   *)
(*                freshly sorted list of live elements                     *)
(* One client iterates with a fixed COUNT while another adds and deletes   *)
(* elements between calls.  Guarantee: when the cursor is back at 0 every  *)
(* element present during the whole iteration has been returned, nothing   *)
(* returned never existed, and the iteration terminates.                   *)
(***************************************************************************)
EXTENDS Naturals, FiniteSets, Sequences, TLC

CONSTANTS Universe, Count, HashCursor, MaxMut
VARIABLES live, cursor, phase, stable, ever, ret, muts, calls
vars == <<live, cursor, phase, stable, ever, ret, muts, calls>>

Sorted(S) == LET RECURSIVE F(_) F(T) == IF T = {} THEN <<>> ELSE LET m == CHOOSE x \in T : \A y \in T : x <= y IN <<m>> \o F(T \ {m}) IN F(S)

Init == /\ live \in SUBSET Universe /\ cursor = 0 /\ phase = "idle" /\ stable = {} /\ ever = {} /\ ret = {} /\ muts = 0 /\ calls = 0

Start == /\ phase = "idle" /\ phase' = "iter" /\ cursor' = 0 /\ stable' = live /\ ever' = live /\ ret' = {} /\ calls' = 0
         /\ UNCHANGED <<live, muts>>

Call ==
  /\ phase = "iter"
  /\ LET s == Sorted(live)
         start == IF HashCursor THEN Cardinality({x \in live : x < cursor}) ELSE cursor
         stop == IF start + Count < Len(s) THEN start + Count ELSE Len(s)
         got == {s[i] : i \in (start + 1)..stop}
         next == IF stop >= Len(s) THEN 0 ELSE IF HashCursor THEN s[stop + 1] ELSE stop
     IN /\ ret' = ret \cup got
        /\ cursor' = next
        /\ phase' = IF next = 0 THEN "done" ELSE "iter"
  /\ calls' = calls + 1
  /\ UNCHANGED <<live, stable, ever, muts>>

Add(x) == /\ phase = "iter" /\ muts < MaxMut /\ x \notin live /\ live' = live \cup {x} /\ ever' = ever \cup {x} /\ muts' = muts + 1
          /\ UNCHANGED <<cursor, phase, stable, ret, calls>>
Del(x) == /\ phase = "iter" /\ muts < MaxMut /\ x \in live /\ live' = live \ {x} /\ stable' = stable \ {x} /\ muts' = muts + 1
          /\ UNCHANGED <<cursor, phase, ever, ret, calls>>

Next == Start \/ Call \/ (\E x \in Universe : Add(x) \/ Del(x))
Spec == Init /\ [][Next]_vars /\ WF_vars(Call)

(* the same step stated with sets (ImplScanInd.tla, whose inductive invariant Apalache discharges): both formulations agree *)
CandS == {x \in live : x >= cursor}
GotS == {x \in CandS : Cardinality({y \in CandS : y < x}) < Count}
RestS == CandS \ GotS
CallAgrees == (HashCursor /\ phase = "iter") =>
  LET s == Sorted(live)
      start == Cardinality({x \in live : x < cursor})
      stop == IF start + Count < Len(s) THEN start + Count ELSE Len(s)
      got == {s[i] : i \in (start + 1)..stop}
      next == IF stop >= Len(s) THEN 0 ELSE s[stop + 1]
  IN got = GotS /\ next = (IF RestS = {} THEN 0 ELSE CHOOSE m \in RestS : \A y \in RestS : m <= y)

Guarantee == phase = "done" => (stable \subseteq ret /\ ret \subseteq ever)
Terminates == calls <= Cardinality(Universe) + MaxMut + 1
=============================================================================
