----------------------------- MODULE ImplScanInd -----------------------------
(***************************************************************************)
(* The cursor mechanism of the REPAIRED design of ImplScan.tla (cursor =   *)
(* walk-order position of the next element to visit), restated without     *)
(* sequences so that Apalache can discharge an inductive invariant:        *)
(*   a call returns the Count smallest live elements at or behind the      *)
(*   cursor; the new cursor is the smallest live element behind them, or 0 *)
(* ImplScan.tla states the same step with a sorted sequence; that the two  *)
(* formulations agree is checked by TLC there (invariant CallAgrees).      *)
(*                                                                         *)
(* IndInv: during an iteration every element that has been present         *)
(* throughout (stable) and lies in front of the cursor has been returned,  *)
(* and nothing was returned that never existed.  It implies Guarantee.     *)
(* Discharged for ANY number of additions and deletions between calls and  *)
(* any Count (TLC: two mutations, Count = 2), over a universe of eight      *)
(* positions.  Termination is not part of it.                              *)
(***************************************************************************)
EXTENDS Naturals, FiniteSets, Apalache

CONSTANTS
  \* @type: Set(Int);
  Universe,
  \* @type: Int;
  Count

VARIABLES
  \* @type: Set(Int);
  live,
  \* @type: Int;
  cursor,
  \* @type: Str;
  phase,
  \* @type: Set(Int);
  stable,
  \* @type: Set(Int);
  ever,
  \* @type: Set(Int);
  ret

CInit == Universe = 1..8 /\ Count \in 1..8

Init == /\ live \in SUBSET Universe /\ cursor = 0 /\ phase = "idle" /\ stable = {} /\ ever = {} /\ ret = {}

Start == /\ phase = "idle" /\ phase' = "iter" /\ cursor' = 0 /\ stable' = live /\ ever' = live /\ ret' = {}
         /\ UNCHANGED live

Cand == {x \in live : x >= cursor}
Got == {x \in Cand : Cardinality({y \in Cand : y < x}) < Count}
Rest == Cand \ Got

Call ==
  /\ phase = "iter"
  /\ ret' = ret \cup Got
  /\ IF Rest = {} THEN cursor' = 0 /\ phase' = "done"
     ELSE /\ \E m \in Rest : (\A y \in Rest : m <= y) /\ cursor' = m
          /\ phase' = "iter"
  /\ UNCHANGED <<live, stable, ever>>

Add(x) == /\ phase = "iter" /\ x \notin live /\ live' = live \cup {x} /\ ever' = ever \cup {x}
          /\ UNCHANGED <<cursor, phase, stable, ret>>
Del(x) == /\ phase = "iter" /\ x \in live /\ live' = live \ {x} /\ stable' = stable \ {x}
          /\ UNCHANGED <<cursor, phase, ever, ret>>

Next == Start \/ Call \/ (\E x \in Universe : Add(x) \/ Del(x))

TypeOK ==
  /\ live \subseteq Universe /\ stable \subseteq Universe /\ ever \subseteq Universe /\ ret \subseteq Universe
  /\ cursor \in Universe \cup {0}
  /\ phase \in {"idle", "iter", "done"}

IndInv ==
  /\ TypeOK
  /\ phase \in {"iter", "done"} => (stable \subseteq live /\ live \subseteq ever /\ ret \subseteq ever)
  /\ phase = "iter" => \A x \in stable : x < cursor => x \in ret
  /\ phase = "done" => stable \subseteq ret

IndInit ==
  /\ live = Gen(8) /\ stable = Gen(8) /\ ever = Gen(8) /\ ret = Gen(8)
  /\ cursor = Gen(1) /\ phase = Gen(1)
  /\ IndInv

Guarantee == phase = "done" => (stable \subseteq ret /\ ret \subseteq ever)

(* vacuity control: a cursor that is an INDEX into the sorted live elements (the pinned design) - the same induction must fail *)
CallIndex ==
  /\ phase = "iter"
  /\ LET got == {x \in live : Cardinality({y \in live : y < x}) >= cursor /\ Cardinality({y \in live : y < x}) < cursor + Count}
         stop == cursor + Count
     IN /\ ret' = ret \cup got
        /\ IF stop >= Cardinality(live) THEN cursor' = 0 /\ phase' = "done" ELSE cursor' = stop /\ phase' = "iter"
  /\ UNCHANGED <<live, stable, ever>>
NextPinned == Start \/ CallIndex \/ (\E x \in Universe : Add(x) \/ Del(x))
=============================================================================
