----------------------------- MODULE ImplSweeper -----------------------------
(***************************************************************************)
(* Implementation-shaped model of ferrous' expiry MECHANISM (C02):         *)
(*   data[k]  = NoKey | [v, exp]      the stored value and its own deadline*)
(*   index[k] = NoIdx | deadline      the per-shard `expiring_keys` hint   *)
(*   sweeper  = two phases: Collect (read lock: copy the keys whose INDEX  *)
(*              deadline passed) and Delete (write lock, one key at a time)*)
(* Client operations are written as the engine codes them: which of them   *)
(* maintain the index, which of them look at the deadline.                 *)
(* Two switches describe the repairs made in /repo:                        *)
(*   Recheck  - Delete re-reads the stored deadline under the write lock   *)
(*   LazyAll  - every keyed operation first drops a key past its deadline  *)
(* With both FALSE (the pinned design) TLC finds the schedules that delete *)
(* live keys and show expired ones; with both TRUE the properties hold.    *)
(* Ghost `ref` is the reference meaning: key -> [v, exp] with exact expiry.*)
(***************************************************************************)
EXTENDS Naturals, FiniteSets, Sequences, TLC

CONSTANTS
  \* @type: Set(Str);
  Keys,
  \* @type: Int;
  MaxTime,
  \* @type: Bool;
  Recheck,
  \* @type: Bool;
  LazyAll
(* (the type annotations are for Apalache, which discharges the inductive invariant of ImplSweeperInd.tla; TLC ignores them) *)
NoKey == [v |-> 0, exp |-> 0, live |-> FALSE]
NoIdx == 0          \* deadlines are >= 1
NoExp == 0

VARIABLES
  \* @type: Str -> { v: Int, exp: Int, live: Bool };
  data,
  \* @type: Str -> Int;
  index,
  \* @type: Int;
  now,
  \* @type: Str;
  pc,
  \* @type: Set(Str);
  collected,
  \* @type: Str -> { v: Int, exp: Int, live: Bool };
  ref,
  \* @type: { k: Str, seen: Bool, should: Bool };
  lastObs
vars == <<data, index, now, pc, collected, ref, lastObs>>

Vals == {1, 2}
Init ==
  /\ data = [k \in Keys |-> NoKey]
  /\ index = [k \in Keys |-> NoIdx]
  /\ ref = [k \in Keys |-> NoKey]
  /\ now = 0 /\ pc = "idle" /\ collected = {}
  /\ lastObs = [k |-> "none", seen |-> FALSE, should |-> FALSE]

\* @type: ({ v: Int, exp: Int, live: Bool }, Int) => Bool;
Expired(e, t) == e.live /\ e.exp # NoExp /\ e.exp <= t
RefLive(k) == ref[k].live /\ ~(ref[k].exp # NoExp /\ ref[k].exp <= now)

(* the choke-point purge of the repaired design *)
Purged(k) == IF LazyAll /\ Expired(data[k], now) THEN [data EXCEPT ![k] = NoKey] ELSE data
PurgedIdx(k) == IF LazyAll /\ Expired(data[k], now) THEN [index EXCEPT ![k] = NoIdx] ELSE index
RefPurged == [k \in Keys |-> IF RefLive(k) THEN ref[k] ELSE NoKey]

(* SET k v [PX d]: set_value inserts an index entry only when a TTL is given, never removes one *)
Set(k, v, d) ==
  /\ data' = [Purged(k) EXCEPT ![k] = [v |-> v, exp |-> IF d = 0 THEN NoExp ELSE now + d, live |-> TRUE]]
  /\ index' = IF d = 0 THEN PurgedIdx(k) ELSE [PurgedIdx(k) EXCEPT ![k] = now + d]
  /\ ref' = [RefPurged EXCEPT ![k] = [v |-> v, exp |-> IF d = 0 THEN NoExp ELSE now + d, live |-> TRUE]]
  /\ UNCHANGED <<now, pc, collected, lastObs>>

(* EXPIRE k d / PERSIST k maintain the index; they act on whatever is stored *)
Expire(k, d) ==
  /\ Purged(k)[k].live
  /\ data' = [Purged(k) EXCEPT ![k].exp = now + d]
  /\ index' = [PurgedIdx(k) EXCEPT ![k] = now + d]
  /\ ref' = IF RefLive(k) THEN [RefPurged EXCEPT ![k].exp = now + d] ELSE RefPurged
  /\ UNCHANGED <<now, pc, collected, lastObs>>
Persist(k) ==
  /\ Purged(k)[k].live /\ Purged(k)[k].exp # NoExp
  /\ data' = [Purged(k) EXCEPT ![k].exp = NoExp]
  /\ index' = [PurgedIdx(k) EXCEPT ![k] = NoIdx]
  /\ ref' = IF RefLive(k) THEN [RefPurged EXCEPT ![k].exp = NoExp] ELSE RefPurged
  /\ UNCHANGED <<now, pc, collected, lastObs>>

(* RENAME a b moves the stored value with its deadline; the index entry stays on the old name *)
Rename(a, b) ==
  /\ a # b /\ Purged(a)[a].live
  /\ data' = [Purged(a) EXCEPT ![b] = Purged(a)[a], ![a] = NoKey]
  /\ index' = PurgedIdx(a)
  /\ ref' = IF RefLive(a) THEN [RefPurged EXCEPT ![b] = ref[a], ![a] = NoKey] ELSE RefPurged
  /\ UNCHANGED <<now, pc, collected, lastObs>>

(* a collection emptied by a pop: data.remove without touching the index; then re-created without TTL *)
EmptyAndRecreate(k, v) ==
  /\ Purged(k)[k].live
  /\ data' = [Purged(k) EXCEPT ![k] = [v |-> v, exp |-> NoExp, live |-> TRUE]]
  /\ index' = PurgedIdx(k)
  /\ ref' = [RefPurged EXCEPT ![k] = [v |-> v, exp |-> NoExp, live |-> TRUE]]
  /\ UNCHANGED <<now, pc, collected, lastObs>>

(* a read through a command WITHOUT its own deadline test (TYPE, INCR, LLEN, ...) *)
Observe(k) ==
  /\ lastObs' = [k |-> k, seen |-> Purged(k)[k].live, should |-> RefLive(k)]
  /\ data' = Purged(k) /\ index' = PurgedIdx(k) /\ ref' = RefPurged
  /\ UNCHANGED <<now, pc, collected>>

Tick == now < MaxTime /\ now' = now + 1 /\ UNCHANGED <<data, index, pc, collected, ref, lastObs>>

SweepCollect ==
  /\ pc = "idle"
  /\ collected' = {k \in Keys : index[k] # NoIdx /\ index[k] <= now}
  /\ pc' = "delete"
  /\ UNCHANGED <<data, index, now, ref, lastObs>>

SweepDelete(k) ==
  /\ pc = "delete" /\ k \in collected
  /\ collected' = collected \ {k}
  /\ IF Recheck /\ ~Expired(data[k], now)
     THEN /\ data' = data
          /\ index' = [index EXCEPT ![k] = IF data[k].live /\ data[k].exp # NoExp THEN data[k].exp ELSE NoIdx]
     ELSE /\ data' = [data EXCEPT ![k] = NoKey]
          /\ index' = [index EXCEPT ![k] = NoIdx]
  /\ UNCHANGED <<now, pc, ref, lastObs>>

SweepDone == pc = "delete" /\ collected = {} /\ pc' = "idle" /\ UNCHANGED <<data, index, now, collected, ref, lastObs>>

Next ==
  \/ \E k \in Keys, v \in Vals, d \in {0, 1, 3} : Set(k, v, d)
  \/ \E k \in Keys, d \in {1, 3} : Expire(k, d)
  \/ \E k \in Keys : Persist(k) \/ Observe(k) \/ SweepDelete(k)
  \/ \E a, b \in Keys : Rename(a, b)
  \/ \E k \in Keys, v \in Vals : EmptyAndRecreate(k, v)
  \/ Tick \/ SweepCollect \/ SweepDone
Spec == Init /\ [][Next]_vars

-----------------------------------------------------------------------------
(* never early, never spurious: whatever the reference says is live is stored with the same value *)
NeverEarlyNorSpurious == \A k \in Keys : RefLive(k) => (data[k].live /\ data[k].v = ref[k].v /\ data[k].exp = ref[k].exp)
(* never observable late: an observation agrees with the reference *)
NeverObservableLate == lastObs.seen = lastObs.should
(* action property: the sweeper only deletes what is really expired *)
NoSpuriousDelete == [][\A k \in Keys : (pc = "delete" /\ data[k].live /\ ~data'[k].live /\ UNCHANGED ref) => Expired(data[k], now)]_vars
=============================================================================
