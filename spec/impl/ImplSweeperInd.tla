---------------------------- MODULE ImplSweeperInd ----------------------------
(***************************************************************************)
(* An inductive invariant of the REPAIRED expiry mechanism (ImplSweeper    *)
(* with Recheck = LazyAll = TRUE), discharged by Apalache:                 *)
(*     Init => IndInv            (--init=Init    --inv=IndInv --length=0)  *)
(*     IndInv /\ Next => IndInv' (--init=IndInit --inv=IndInv --length=1)  *)
(* IndInv implies NeverEarlyNorSpurious and NeverObservableLate, so these  *)
(* hold in EVERY reachable state, for unbounded time (MaxTime is arbitrary)*)
(* and arbitrary deadlines - TLC explores the same model only up to        *)
(* MaxTime = 4.  The set of keys is fixed (three) because Apalache needs   *)
(* a concrete finite domain for the functions.                             *)
(*                                                                         *)
(* The invariant says: what is stored and not past its own deadline is     *)
(* exactly what the reference holds live, with equal value and deadline.   *)
(* Nothing about the index is needed: with the re-check under the write    *)
(* lock the index is a hint that can only delay a deletion, never cause    *)
(* one (which is why the pinned design, trusting the hint, was unsafe).    *)
(***************************************************************************)
EXTENDS ImplSweeper, Apalache

CInit ==
  /\ Keys = {"k1", "k2", "k3"}
  /\ MaxTime \in Nat
  /\ Recheck = TRUE
  /\ LazyAll = TRUE

(* the pinned design, for the vacuity control: the same induction must FAIL there *)
CInitPinned ==
  /\ Keys = {"k1", "k2", "k3"}
  /\ MaxTime \in Nat
  /\ Recheck = FALSE
  /\ LazyAll = FALSE

\* @type: ({ v: Int, exp: Int, live: Bool }) => Bool;
Fresh(e) == e.live /\ ~(e.exp # NoExp /\ e.exp <= now)

TypeOK ==
  /\ now \in Nat
  /\ pc \in {"idle", "delete"}
  /\ collected \subseteq Keys
  /\ DOMAIN data = Keys /\ DOMAIN ref = Keys /\ DOMAIN index = Keys
  /\ \A k \in Keys : data[k].exp \in Nat /\ ref[k].exp \in Nat /\ index[k] \in Nat
  /\ \A k \in Keys : ~data[k].live => data[k] = NoKey
  /\ \A k \in Keys : ~ref[k].live => ref[k] = NoKey

IndInv ==
  /\ TypeOK
  /\ \A k \in Keys : Fresh(data[k]) <=> Fresh(ref[k])
  /\ \A k \in Keys : Fresh(ref[k]) => data[k] = ref[k]
  /\ lastObs.seen = lastObs.should

(* an arbitrary state satisfying the invariant *)
IndInit ==
  /\ data = Gen(3) /\ ref = Gen(3) /\ index = Gen(3)
  /\ now = Gen(1) /\ pc = Gen(1) /\ collected = Gen(3) /\ lastObs = Gen(1)
  /\ IndInv

(* what the invariant is for *)
Safety == NeverEarlyNorSpurious /\ NeverObservableLate
=============================================================================
