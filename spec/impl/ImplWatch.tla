------------------------------- MODULE ImplWatch -------------------------------
(***************************************************************************)
(* Implementation-shaped model of the WATCH mechanism (C08), one action    *)
(* per critical section of the code:                                       *)
(*   storage/engine.rs  ShardWatchTracker {active_watchers, key_counters,  *)
(*                      global_counter}: register_watch / unregister_watch *)
(*                      / mark_key_modified (a no-op while the shard has   *)
(*                      no watcher) / was_modified_since; get_shard's lazy *)
(*                      expiry and the sweeper, which stamp what they      *)
(*                      remove; flush_db                                   *)
(*   storage/commands/transactions.rs  handle_watch / handle_unwatch       *)
(*   network/server.rs  handle_exec (compare every watched key's counter   *)
(*                      with its baseline, forget the watches)             *)
(* Switches keep the pinned design next to the repaired one:               *)
(*   FlushMarks = FALSE  FLUSHDB does not stamp the keys it removes        *)
(*   KeepFirst  = FALSE  watching a key again overwrites its baseline      *)
(*   WatchDb    = FALSE  EXEC looks the watched names up in the database   *)
(*                       selected NOW, not in the one of the WATCH         *)
(*   Release    = "never"  as coded: only UNWATCH gives registrations back *)
(*                         (EXEC / DISCARD / close leak them: the counter  *)
(*                         over-approximates, which is safe)               *)
(*              = "exact"  a repaired leak: every way of forgetting the    *)
(*                         watches gives them back                         *)
(*              = "shard"  a wrong repair (seeded change m17): forgetting  *)
(*                         resets the shard's count to zero                *)
(* Ghost: dirty[c] = the watched (db, key) pairs whose visible entry       *)
(* changed since c watched them.  Properties: an EXEC aborts iff its       *)
(* connection is dirty (Sound, Precise), and between steps the counters    *)
(* tell exactly that (DirtySeen, CleanUnseen); the registration count      *)
(* covers the live watches (ActiveCovers), which is why the fast path of   *)
(* mark_key_modified is safe.                                              *)
(* The binding to the code: C08 samples behaviours of this model           *)
(* (-simulate), replays each on the real server and validates the recorded *)
(* trace against the REFERENCE specification (FerrousTrace).               *)
(***************************************************************************)
EXTENDS Integers, FiniteSets, Sequences, TLC, Json

CONSTANTS Conns, Keys, Dbs, ShardOf, MaxOps, FlushMarks, KeepFirst, WatchDb, Release, Gen

VARIABLES eng,     \* [st: (db,key) -> "absent"|"live"|"ttl"|"due", active: (db,shard) -> Nat, cnt: (db,key) -> Nat, glob: (db,shard) -> Nat]
          conn,    \* c -> [db, multi, q, watch: (db,key) -> baseline or -1]
          dirty,   \* ghost
          last,    \* the last EXEC: [c, aborted, dirty]
          ops, path
vars == <<eng, conn, dirty, last, ops, path>>
View == <<eng, conn, dirty, last>>

ShardMap == [k \in Keys |-> IF k = 3 THEN 2 ELSE 1]      \* keys 1 and 2 share a shard, key 3 lives in another
DK == Dbs \X Keys
Shards == {ShardOf[k] : k \in Keys}
DS == Dbs \X Shards
ShOf(w) == <<w[1], ShardOf[w[2]]>>
NoWatch == [w \in DK |-> -1]
Fresh == [db |-> 0, multi |-> FALSE, q |-> 0, watch |-> NoWatch]
Watched(c) == {w \in DK : conn[c].watch[w] # -1}
Present(E, w) == E.st[w] \in {"live", "ttl"}

Init ==
  /\ eng = [st |-> [w \in DK |-> "absent"], active |-> [s \in DS |-> 0], cnt |-> [w \in DK |-> 0], glob |-> [s \in DS |-> 0]]
  /\ conn = [c \in Conns |-> Fresh]
  /\ dirty = [c \in Conns |-> {}]
  /\ last = [c |-> 0, aborted |-> FALSE, dirty |-> FALSE]
  /\ ops = 0 /\ path = <<>>

(* mark_key_modified: nothing happens while the shard has no registered watcher *)
Mark(E, w) == IF E.active[ShOf(w)] = 0 THEN E
              ELSE LET g == E.glob[ShOf(w)] + 1 IN [E EXCEPT !.glob[ShOf(w)] = g, !.cnt[w] = g]
(* get_shard: a key past its deadline is removed (and stamped) before the operation looks at it *)
Touch(E, w) == IF E.st[w] = "due" THEN Mark([E EXCEPT !.st[w] = "absent"], w) ELSE E
RECURSIVE TouchAll(_, _)
TouchAll(E, W) == IF W = {} THEN E ELSE LET w == CHOOSE x \in W : TRUE IN TouchAll(Touch(E, w), W \ {w})

(* ghost: every watcher of w sees a change *)
Soil(D, w) == [c \in Conns |-> IF conn[c].watch[w] # -1 THEN D[c] \cup {w} ELSE D[c]]
RECURSIVE SoilAll(_, _)
SoilAll(D, W) == IF W = {} THEN D ELSE LET w == CHOOSE x \in W : TRUE IN SoilAll(Soil(D, w), W \ {w})

(* forgetting c's watches: what happens to the registration counts *)
GiveBack(E, c) == [E EXCEPT !.active = [s \in DS |-> @[s] - Cardinality({w \in Watched(c) : ShOf(w) = s})]]
Forget(E, c, byUnwatch) ==
  IF byUnwatch \/ Release = "exact" THEN GiveBack(E, c)
  ELSE IF Release = "shard" THEN [E EXCEPT !.active = [s \in DS |-> IF \E w \in Watched(c) : ShOf(w) = s THEN 0 ELSE @[s]]]
  ELSE E

Step(ev) == /\ ops < MaxOps /\ ops' = ops + 1 /\ path' = Append(path, ev)
            /\ (Gen /\ ops' = MaxOps => PrintT(<<"GEN", ToJson(path')>>))

Watch(c, k) ==
  /\ ~conn[c].multi
  /\ LET w == <<conn[c].db, k>>
         E1 == Touch(eng, w)
         E2 == [E1 EXCEPT !.active[ShOf(w)] = @ + 1]
     IN IF conn[c].watch[w] # -1 /\ KeepFirst
        THEN eng' = E1 /\ UNCHANGED conn
        ELSE eng' = E2 /\ conn' = [conn EXCEPT ![c].watch[w] = E1.cnt[w]]
  /\ UNCHANGED <<dirty, last>>
  /\ Step([a |-> "watch", c |-> c, k |-> k])

Unwatch(c) ==
  /\ eng' = Forget(eng, c, TRUE)
  /\ conn' = [conn EXCEPT ![c].watch = NoWatch]
  /\ dirty' = [dirty EXCEPT ![c] = {}]
  /\ UNCHANGED last
  /\ Step([a |-> "unwatch", c |-> c])

Multi(c, qk) ==
  /\ ~conn[c].multi
  /\ conn' = [conn EXCEPT ![c].multi = TRUE, ![c].q = qk]
  /\ UNCHANGED <<eng, dirty, last>>
  /\ Step([a |-> "multi", c |-> c, k |-> qk])

(* a write of the entry w by anybody: stamp it, and every watcher's view of it has changed *)
WriteE(E, w, newst) == Mark([Touch(E, w) EXCEPT !.st[w] = newst], w)

Exec(c) ==
  /\ conn[c].multi
  /\ LET W == Watched(c)
         At(w) == IF WatchDb THEN w ELSE <<conn[c].db, w[2]>>
         E1 == TouchAll(eng, {At(w) : w \in W})
         aborted == \E w \in W : E1.cnt[At(w)] > conn[c].watch[w]
         E2 == Forget(E1, c, FALSE)
         qw == <<conn[c].db, conn[c].q>>
         run == ~aborted /\ conn[c].q # 0
         D1 == [dirty EXCEPT ![c] = {}]
     IN /\ last' = [c |-> c, aborted |-> aborted, dirty |-> dirty[c] # {}]
        /\ conn' = [conn EXCEPT ![c].multi = FALSE, ![c].q = 0, ![c].watch = NoWatch]
        /\ eng' = IF run THEN WriteE(E2, qw, "live") ELSE E2
        /\ dirty' = IF run THEN [x \in Conns |-> IF x # c /\ conn[x].watch[qw] # -1 THEN D1[x] \cup {qw} ELSE D1[x]] ELSE D1
  /\ Step([a |-> "exec", c |-> c])

Discard(c) ==
  /\ conn[c].multi
  /\ eng' = Forget(eng, c, FALSE)
  /\ conn' = [conn EXCEPT ![c].multi = FALSE, ![c].q = 0, ![c].watch = NoWatch]
  /\ dirty' = [dirty EXCEPT ![c] = {}]
  /\ UNCHANGED last
  /\ Step([a |-> "discard", c |-> c])

(* the connection goes away; the next action of c belongs to a new connection *)
Close(c) ==
  /\ conn[c] # Fresh
  /\ eng' = Forget(eng, c, FALSE)
  /\ conn' = [conn EXCEPT ![c] = Fresh]
  /\ dirty' = [dirty EXCEPT ![c] = {}]
  /\ UNCHANGED last
  /\ Step([a |-> "close", c |-> c])

Select(c, d) ==
  /\ ~conn[c].multi /\ conn[c].db # d
  /\ conn' = [conn EXCEPT ![c].db = d]
  /\ UNCHANGED <<eng, dirty, last>>
  /\ Step([a |-> "select", c |-> c, d |-> d])

Write(c, k) ==         \* SET k v: creates or overwrites, discards a time to live
  /\ ~conn[c].multi
  /\ LET w == <<conn[c].db, k>> IN eng' = WriteE(eng, w, "live") /\ dirty' = Soil(dirty, w)
  /\ UNCHANGED <<conn, last>>
  /\ Step([a |-> "write", c |-> c, k |-> k])

Del(c, k) ==
  /\ ~conn[c].multi
  /\ LET w == <<conn[c].db, k>> E1 == Touch(eng, w) IN
       IF Present(E1, w) THEN eng' = Mark([E1 EXCEPT !.st[w] = "absent"], w) /\ dirty' = Soil(dirty, w)
       ELSE eng' = E1 /\ UNCHANGED dirty
  /\ UNCHANGED <<conn, last>>
  /\ Step([a |-> "del", c |-> c, k |-> k])

Expire(c, k) ==        \* PEXPIRE k <ms> on a present key: its time to live changes
  /\ ~conn[c].multi
  /\ LET w == <<conn[c].db, k>> E1 == Touch(eng, w) IN
       /\ Present(E1, w)
       /\ eng' = Mark([E1 EXCEPT !.st[w] = "ttl"], w) /\ dirty' = Soil(dirty, w)
  /\ UNCHANGED <<conn, last>>
  /\ Step([a |-> "expire", c |-> c, k |-> k])

Flush(c) ==
  /\ ~conn[c].multi
  /\ LET d == conn[c].db
         stored == {w \in DK : w[1] = d /\ eng.st[w] # "absent"}
         RECURSIVE MarkAll(_, _)
         MarkAll(E, W) == IF W = {} THEN E ELSE LET w == CHOOSE x \in W : TRUE IN MarkAll(Mark(E, w), W \ {w})
         E1 == IF FlushMarks THEN MarkAll(eng, stored) ELSE eng
     IN /\ eng' = [E1 EXCEPT !.st = [w \in DK |-> IF w[1] = d THEN "absent" ELSE @[w]]]
        /\ dirty' = SoilAll(dirty, {w \in stored : Present(eng, w)})
  /\ UNCHANGED <<conn, last>>
  /\ Step([a |-> "flush", c |-> c])

(* time: the deadline of a key passes — to every observer the key is gone from now on *)
Due(w) ==
  /\ eng.st[w] = "ttl"
  /\ eng' = [eng EXCEPT !.st[w] = "due"] /\ dirty' = Soil(dirty, w)
  /\ UNCHANGED <<conn, last>>
  /\ Step([a |-> "due", d |-> w[1], k |-> w[2]])

(* the sweeper removes a key past its deadline and stamps it *)
Sweep(w) ==
  /\ eng.st[w] = "due"
  /\ eng' = Mark([eng EXCEPT !.st[w] = "absent"], w)
  /\ UNCHANGED <<conn, dirty, last>>
  /\ Step([a |-> "sweep", d |-> w[1], k |-> w[2]])

Next ==
  \/ \E c \in Conns : \/ \E k \in Keys : Watch(c, k) \/ Write(c, k) \/ Del(c, k) \/ Expire(c, k)
                      \/ \E qk \in Keys \cup {0} : Multi(c, qk)
                      \/ \E d \in Dbs : Select(c, d)
                      \/ Unwatch(c) \/ Exec(c) \/ Discard(c) \/ Close(c) \/ Flush(c)
  \/ \E w \in DK : Due(w) \/ Sweep(w)
Spec == Init /\ [][Next]_vars

-----------------------------------------------------------------------------
Sound == last.dirty => last.aborted
Precise == last.aborted => last.dirty
DirtySeen == \A c \in Conns : \A w \in dirty[c] : eng.cnt[w] > conn[c].watch[w] \/ eng.st[w] = "due"
CleanUnseen == \A c \in Conns : \A w \in Watched(c) \ dirty[c] : eng.cnt[w] = conn[c].watch[w] /\ eng.st[w] # "due"
ActiveCovers == \A s \in DS : eng.active[s] >= Cardinality({cw \in Conns \X DK : conn[cw[1]].watch[cw[2]] # -1 /\ ShOf(cw[2]) = s})
ActiveExact == \A s \in DS : eng.active[s] = Cardinality({cw \in Conns \X DK : conn[cw[1]].watch[cw[2]] # -1 /\ ShOf(cw[2]) = s})
GhostWatched == \A c \in Conns : dirty[c] \subseteq Watched(c)
=============================================================================
