SPECIFICATION Spec
CONSTANTS
  Deviations = {}
  Conns = {1, 2}
  Catalogue <- Cat_Aof_quick
  MaxPath = 5
  MaxQueue = 2
  Design = "fixed"
INVARIANTS Faithful
CHECK_DEADLOCK FALSE
