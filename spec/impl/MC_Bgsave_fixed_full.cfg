SPECIFICATION Spec
CONSTANTS
  Keys = {"a", "b", "c"}
  Vals = {1, 2}
  Ttls = {1, 2}
  MaxWrites = 3
  MaxSaves = 2
  Design = "fixed"
INVARIANTS Complete PerKey FlagSound OwnTemp
CHECK_DEADLOCK FALSE
