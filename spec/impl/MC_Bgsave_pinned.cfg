SPECIFICATION Spec
CONSTANTS
  Keys = {"a", "b"}
  Vals = {1, 2}
  Ttls = {1, 2}
  MaxWrites = 3
  MaxSaves = 2
  Design = "pinned"
INVARIANTS Complete PerKey FlagSound OwnTemp
CHECK_DEADLOCK FALSE
