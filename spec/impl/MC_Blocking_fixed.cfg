SPECIFICATION Spec
CONSTANTS
  Clients = {1, 2, 3}
  Keys = {1, 2}
  MaxElems = 3
  MaxSends = 3
  MaxTime = 1
  ServeLoop = TRUE
  LeaveAll = TRUE
  HoldBehind = TRUE
INVARIANTS Conservation NoLeftover FifoQueues NoneStranded
CHECK_DEADLOCK FALSE
