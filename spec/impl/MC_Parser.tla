------------------------------ MODULE MC_Parser ------------------------------
(***************************************************************************)
(* Bounded instance for C20: every byte string over the protocol alphabet  *)
(* up to length N is one TLC state (Init: empty string, Next: append one   *)
(* symbol), so "distinct states" = number of strings examined.             *)
(*                                                                         *)
(*  Total            one call of parse answers none | err | ok with        *)
(*                   1 <= n <= Len(s); repeated calls terminate            *)
(*                   (any index error of the transcription = a panic of    *)
(*                   the code would surface as a TLC evaluation error).    *)
(*  PrefixStable     for every proper prefix x of s: parse(x) = none, or   *)
(*                   parse(x) and parse(s) are the same answer with the    *)
(*                   same frame, and the consumed counts differ only by    *)
(*                   trailing CR/LF/SP that parse(s) skipped in addition.  *)
(*  TrailNeutral     a leading white-space byte does not change the        *)
(*                   sequence of results (so the extra bytes above are     *)
(*                   immaterial).                                          *)
(*  PrefixStable + TrailNeutral over ALL strings imply, by induction on    *)
(*  the number of chunks, that every chunking of a stream produces the     *)
(*  results of the whole stream: the first answer other than none that a   *)
(*  chunked run obtains at some prefix is the answer of the whole feed,    *)
(*  and the two runs continue from remainders that differ by skipped       *)
(*  white space only.                                                      *)
(*  ChunkIndependent the same statement checked directly for all           *)
(*                   2^(n-1) chunkings of the strings of length <= NC.     *)
(*  PrefixStep       PrefixStable for the longest proper prefix only; over *)
(*                   a prefix-closed set of strings it is equivalent       *)
(*                   (the relation is transitive) and n times cheaper.     *)
(***************************************************************************)
EXTENDS ImplParser

CONSTANTS N, NC

\*            *   $   +   :   -   0   1   2   CR  LF  P   I   N   G   _   #   t
Alphabet == {42, 36, 43, 58, 45, 48, 49, 50, 13, 10, 80, 73, 78, 71, 95, 35, 116}

VARIABLE s

Init == s = <<>>
Next == Len(s) < N /\ \E c \in Alphabet : s' = Append(s, c)
Spec == Init /\ [][Next]_s

ResEq(x, y) == x.k = y.k /\ (x.k = "f" => FEq(x.f, y.f))
SeqEq(xs, ys) == Len(xs) = Len(ys) /\ \A i \in 1..Len(xs) : ResEq(xs[i], ys[i])

Total ==
  LET r == Parse1(s) IN
  /\ r.k \in {"none", "err", "ok"}
  /\ r.k = "ok" => r.n \in 1..Len(s)
  /\ Len(Results(s)) <= Len(s)

Same(rx, rs, str) ==
  /\ rx.k = rs.k
  /\ rx.k = "ok" => /\ FEq(rx.f, rs.f)
                    /\ rx.n <= rs.n
                    /\ \A i \in (rx.n + 1)..rs.n : str[i] \in {SP, CR, LF}

StableAt(str, i) == LET rx == Parse1(Sub(str, 1, i)) IN rx.k = "none" \/ Same(rx, Parse1(str), str)

PrefixStable == \A i \in 0..(Len(s) - 1) : StableAt(s, i)
PrefixStep == s # <<>> => StableAt(s, Len(s) - 1)

TrailNeutral == (s # <<>> /\ s[1] \in {SP, CR, LF, TAB}) => SeqEq(Results(s), Results(Tail(s)))

RECURSIVE Cut(_, _, _)
Cut(str, C, from) == \* the chunks of str for the set C of cut positions (a cut at c separates str[c] from str[c+1])
  LET nxt == {c \in C : c >= from}
  IN IF nxt = {} THEN <<Sub(str, from, Len(str))>>
     ELSE LET c == MinOf(nxt) IN <<Sub(str, from, c)>> \o Cut(str, C, c + 1)

ChunkIndependent ==
  Len(s) <= NC => \A C \in SUBSET (1..(Len(s) - 1)) : SeqEq(Chunked(Cut(s, C, 1)), Results(s))

(* extraction of test inputs: prints every string at which the answer changes after an answer other than
   none had been given for its longest proper prefix (never violated as an invariant) *)
CexReport == (~PrefixStep) => PrintT(<<"CEX", s>>)
=============================================================================
