SPECIFICATION Spec
CONSTANTS
  FixedPing = FALSE
  N = 5
  NC = 0
INVARIANTS Total CexReport
CHECK_DEADLOCK FALSE
