SPECIFICATION Spec
CONSTANTS
  FixedPing = FALSE
  N = 4
  NC = 4
INVARIANTS Total PrefixStable TrailNeutral ChunkIndependent
CHECK_DEADLOCK FALSE
