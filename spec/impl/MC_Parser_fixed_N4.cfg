SPECIFICATION Spec
CONSTANTS
  FixedPing = TRUE
  N = 4
  NC = 4
INVARIANTS Total PrefixStable TrailNeutral ChunkIndependent
CHECK_DEADLOCK FALSE
