SPECIFICATION Spec
CONSTANTS
  FixedPing = TRUE
  N = 5
  NC = 5
INVARIANTS Total PrefixStable TrailNeutral ChunkIndependent
CHECK_DEADLOCK FALSE
