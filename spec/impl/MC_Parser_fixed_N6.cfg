SPECIFICATION Spec
CONSTANTS
  FixedPing = TRUE
  N = 6
  NC = 5
INVARIANTS Total PrefixStable TrailNeutral ChunkIndependent
CHECK_DEADLOCK FALSE
