SPECIFICATION Spec
CONSTANTS
  FixedPing = TRUE
INVARIANT RoundTrip
CHECK_DEADLOCK FALSE
