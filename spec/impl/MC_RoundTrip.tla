----------------------------- MODULE MC_RoundTrip -----------------------------
(***************************************************************************)
(* C20, round trip on the design: for every frame tree f of the bounded    *)
(* universe below (every RESP2/RESP3 type, both null forms, empty and      *)
(* binary payloads containing CR LF, extreme integers, pinned doubles      *)
(* incl. inf/nan/-0, nesting depth <= 3) and every suffix s:               *)
(*   parse_frame(Ser(f) \o s) = Ok(f) consuming exactly Len(Ser(f)),       *)
(*   every proper prefix of Ser(f) asks for more data,                     *)
(*   RespParser::parse returns f for Ser(f) and <<f, g>> for Ser(f)Ser(g), *)
(*   and the relation IsSer used by the trace spec agrees with Ser.        *)
(* One TLC state per tree (no transitions).                                *)
(***************************************************************************)
EXTENDS ImplParser

Lines == {<<>>, <<79, 75>>, <<32, 0, 255, 9>>}
Payloads == {<<>>, <<65>>, <<13, 10>>, <<36, 45, 49, 13, 10>>, <<0, 255, 13>>, <<80, 73, 78, 71>>}
Ints == {<<48>>, <<45, 49>>, <<55>>,
         <<57,50,50,51,51,55,50,48,51,54,56,53,52,55,55,53,56,48,55>>,
         <<45,57,50,50,51,51,55,50,48,51,54,56,53,52,55,55,53,56,48,56>>}

Leaves ==
  {[t |-> "st", v |-> x] : x \in Lines} \cup {[t |-> "err", v |-> x] : x \in Lines}
  \cup {[t |-> "int", v |-> x] : x \in Ints} \cup {[t |-> "bulk", v |-> x] : x \in Payloads}
  \cup {[t |-> "nil"], [t |-> "nilarr"], [t |-> "null3"]}
  \cup {[t |-> "bool", v |-> x] : x \in {0, 1}} \cup {[t |-> "dbl", v |-> e[1]] : e \in DblTab}

Lists(S, n) == UNION {[1..k -> S] : k \in 0..n}
Agg(S, n) == {[t |-> "arr", v |-> q] : q \in Lists(S, n)} \cup {[t |-> "set3", v |-> q] : q \in Lists(S, n)}

D2 == Agg(Leaves, 2) \cup {[t |-> "map", v |-> <<>>]} \cup {[t |-> "map", v |-> <<<<k, x>>>>] : k \in Leaves, x \in Leaves}
Some == CHOOSE x \in Leaves : x.t = "bulk"
D3 == Agg(D2, 1) \cup {[t |-> "map", v |-> <<<<k, Some>>, <<Some, k>>>>] : k \in D2}
Trees == Leaves \cup D2 \cup D3

Suffixes == {<<>>, <<13, 10>>, <<43>>, <<36, 49, 13, 10>>, <<42>>, <<80, 73, 78, 71>>, <<0, 255>>}

VARIABLE f
Init == f \in Trees
Next == UNCHANGED f
Spec == Init /\ [][Next]_f

Fixed == [t |-> "st", v |-> <<79, 75>>]

RoundTrip ==
  LET b == Ser(f) IN
  /\ IsSer(f, b)
  /\ \A s \in Suffixes : LET r == ParseFrame(b \o s) IN r.k = "ok" /\ FEq(r.f, f) /\ r.n = Len(b)
  /\ \A i \in 0..(Len(b) - 1) : ParseFrame(Sub(b, 1, i)).k = "none"
  /\ LET r == Results(b) IN Len(r) = 1 /\ r[1].k = "f" /\ FEq(r[1].f, f)
  /\ LET r == Results(b \o Ser(Fixed)) IN Len(r) = 2 /\ r[1].k = "f" /\ FEq(r[1].f, f) /\ FEq(r[2].f, Fixed)
  /\ LET r == Results(Ser(Fixed) \o b) IN Len(r) = 2 /\ r[2].k = "f" /\ FEq(r[2].f, f)
=============================================================================
