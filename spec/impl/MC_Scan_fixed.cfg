SPECIFICATION Spec
CONSTANTS
  Universe = {1, 2, 3, 4, 5, 6}
  Count = 2
  HashCursor = TRUE
  MaxMut = 2
INVARIANTS Guarantee Terminates CallAgrees
CHECK_DEADLOCK FALSE
