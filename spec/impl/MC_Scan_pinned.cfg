SPECIFICATION Spec
CONSTANTS
  Universe = {1, 2, 3, 4, 5, 6}
  Count = 2
  HashCursor = FALSE
  MaxMut = 2
INVARIANTS Guarantee Terminates
CHECK_DEADLOCK FALSE
