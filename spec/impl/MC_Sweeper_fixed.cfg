SPECIFICATION Spec
CONSTANTS
  Keys = {k1, k2}
  MaxTime = 4
  Recheck = TRUE
  LazyAll = TRUE
INVARIANTS NeverEarlyNorSpurious NeverObservableLate
PROPERTY NoSpuriousDelete
CHECK_DEADLOCK FALSE
