SPECIFICATION Spec
CONSTANTS
  Keys = {k1, k2}
  MaxTime = 4
  Recheck = FALSE
  LazyAll = FALSE
INVARIANTS NeverEarlyNorSpurious NeverObservableLate
PROPERTY NoSpuriousDelete
CHECK_DEADLOCK FALSE
