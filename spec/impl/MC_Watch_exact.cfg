SPECIFICATION Spec
CONSTANTS
  Conns = {1, 2}
  Keys = {1, 2}
  Dbs = {0, 1}
  ShardOf <- ShardMap
  MaxOps = 8
  FlushMarks = TRUE
  KeepFirst = TRUE
  WatchDb = TRUE
  Release = "exact"
  Gen = FALSE
VIEW View
INVARIANTS Sound Precise DirtySeen CleanUnseen ActiveCovers ActiveExact GhostWatched
CHECK_DEADLOCK FALSE
