SPECIFICATION Spec
CONSTANTS
  Conns = {1, 2}
  Keys = {1, 2}
  Dbs = {0, 1}
  ShardOf <- ShardMap
  MaxOps = 6
  FlushMarks = TRUE
  KeepFirst = TRUE
  WatchDb = TRUE
  Release = "never"
  Gen = FALSE
VIEW View
INVARIANTS Sound Precise DirtySeen CleanUnseen ActiveCovers GhostWatched
CHECK_DEADLOCK FALSE
