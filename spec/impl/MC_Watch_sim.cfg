SPECIFICATION Spec
CONSTANTS
  Conns = {1, 2, 3}
  Keys = {1, 2, 3}
  Dbs = {0, 1}
  ShardOf <- ShardMap
  MaxOps = 22
  FlushMarks = TRUE
  KeepFirst = TRUE
  WatchDb = TRUE
  Release = "never"
  Gen = TRUE
INVARIANTS Sound Precise DirtySeen CleanUnseen ActiveCovers GhostWatched
CHECK_DEADLOCK FALSE
