----------------------------- MODULE MC_Blocking -----------------------------
(***************************************************************************)
(* Bounded reference instance for blocking pops (C13): clients send        *)
(* commands of a catalogue (blocking pops, pushes, pops), the server       *)
(* serves (Served) or times out (TimedOut) blocked clients, clients may    *)
(* disconnect.  Ghost bags restate conservation independently of the list  *)
(* bookkeeping: every pushed element is in its list or was delivered to    *)
(* exactly one client.  Elements are made distinguishable by a counter.    *)
(***************************************************************************)
EXTENDS Ferrous, Cats, Json

CONSTANTS Conns, Catalogue, MaxPush, MaxPath
VARIABLES S, pushed, delivered, last, n, clock
vars == <<S, pushed, delivered, last, n, clock>>

Keys2 == {<<113>>, <<114>>}      \* "q", "r"
Tm == [t0 |-> clock, t1 |-> clock]

Init ==
  /\ S = [InitS EXCEPT !.conns = [c \in Conns |-> NewConn(InitS)]]
  /\ pushed = {} /\ delivered = {} /\ last = [c |-> 0, a |-> <<>>, r |-> RNil] /\ n = 0 /\ clock = 0

(* make pushed elements unique: the catalogue's element byte 0 is replaced by a fresh number *)
Fresh(a, base) == [i \in 1..Len(a) |-> IF i >= 3 /\ a[i] = <<0>> THEN <<48 + base + i>> ELSE a[i]]
IsPush(a) == NameOf(a) \in {"RPUSH", "LPUSH"}
PopName(a) == NameOf(a) \in {"LPOP", "RPOP", "BLPOP", "BRPOP"}

ElemsOf(r) == \* elements a reply hands to a client
  IF r.t = "bulk" THEN {r.v}
  ELSE IF r.t = "arr" /\ Len(r.v) = 2 /\ r.v[2].t = "bulk" THEN {r.v[2].v} ELSE {}

Do(c, a0) ==
  /\ n < MaxPath
  /\ ~S.conns[c].closing
  /\ LET a == IF IsPush(a0) THEN Fresh(a0, 3 * Cardinality(pushed)) ELSE a0 IN
     /\ (IsPush(a) => Cardinality(pushed) + Len(a) - 2 <= MaxPush)
     /\ \E o \in Step(S, c, a, Tm, [t |-> "noobs"]) :
          /\ S' = o.S
          /\ pushed' = IF IsPush(a) /\ o.r.t = "int" THEN pushed \cup {a[i] : i \in 3..Len(a)} ELSE pushed
          /\ delivered' = IF PopName(a) THEN delivered \cup ElemsOf(o.r) ELSE delivered
          /\ last' = [c |-> c, a |-> a, r |-> o.r]
  /\ n' = n + 1 /\ UNCHANGED clock

(* the server serves a blocked client: any <<key, element>> frame the reference relation allows.
   In the reference model the promise `r` is unknown when the client blocks, so it is set here. *)
Serve(c) ==
  /\ IsBlocked(S.conns[c])
  /\ \E key \in SeqSet(S.conns[c].blocked.keys) :
       /\ IsT(S.dbs[0], key, "list")
       /\ LET v == S.dbs[0][key].v
              x == IF S.conns[c].blocked.left THEN Head(v) ELSE v[Len(v)]
              frame == RArr(<<RBulk(key), RBulk(x)>>)
              S0 == [S EXCEPT !.conns[c].blocked.r = frame]
          IN \E S2 \in Served(S0, c, frame) :
               /\ S' = S2
               /\ delivered' = delivered \cup {x}
               /\ last' = [c |-> c, a |-> <<>>, r |-> frame]
  /\ UNCHANGED <<pushed, n, clock>>

Expire(c) ==
  /\ IsBlocked(S.conns[c]) /\ S.conns[c].blocked.to # 0
  /\ clock * 1000 >= S.conns[c].blocked.sent + S.conns[c].blocked.to
  /\ S' = [S EXCEPT !.conns[c].blocked = NotBlocked]
  /\ last' = [c |-> c, a |-> <<>>, r |-> RNilArr]
  /\ UNCHANGED <<pushed, delivered, n, clock>>

Tick == clock < 2 /\ clock' = clock + 1 /\ UNCHANGED <<S, pushed, delivered, last, n>>

Disconnect(c) ==
  /\ ~S.conns[c].closing
  /\ S' = [S EXCEPT !.conns[c].closing = TRUE, !.conns[c].blocked = NotBlocked]
  /\ last' = [c |-> 0, a |-> <<>>, r |-> RNil]
  /\ UNCHANGED <<pushed, delivered, n, clock>>

Next == \/ \E c \in Conns : \E a \in Catalogue : Do(c, a)
        \/ \E c \in Conns : Serve(c) \/ Expire(c) \/ Disconnect(c)
        \/ Tick
Spec == Init /\ [][Next]_vars

-----------------------------------------------------------------------------
Remaining == UNION {IF IsT(S.dbs[0], k, "list") THEN SeqSet(S.dbs[0][k].v) ELSE {} : k \in Keys2}
ListLen(k) == IF IsT(S.dbs[0], k, "list") THEN Len(S.dbs[0][k].v) ELSE 0

(* every pushed element is still in its list or was returned to exactly one client *)
C13_Conservation ==
  /\ pushed = delivered \cup Remaining
  /\ delivered \cap Remaining = {}
  /\ ListLen(<<113>>) + ListLen(<<114>>) = Cardinality(Remaining)      \* no duplicates inside the lists

(* a blocked client has sent nothing else; a client is blocked only on keys that were empty when it blocked *)
C13_BlockedOnlyIfNothingToPop ==
  \A c \in Conns : (last.c = c /\ last.a # <<>> /\ NameOf(last.a) \in {"BLPOP", "BRPOP"} /\ last.r.t = "blocks")
     => IsBlocked(S.conns[c])

(* whenever nothing can be served any more, nobody waits on a key that holds elements *)
CanServe == \E c \in Conns : ENABLED Serve(c)
C13_ServedOrNothingToServe == ~CanServe => NoneStranded(S)

(* FIFO: the client just served was the earliest waiter of that key (restated from the pre-state is not
   available here; the guard lives in Served — this invariant checks the order stamps stay distinct) *)
C13_OrderStampsDistinct ==
  \A c1, c2 \in Conns : (c1 # c2 /\ IsBlocked(S.conns[c1]) /\ IsBlocked(S.conns[c2]))
     => S.conns[c1].blocked.ord # S.conns[c2].blocked.ord
=============================================================================
