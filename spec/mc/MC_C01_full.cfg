SPECIFICATION Spec
CONSTANTS
  Deviations = {}
  Catalogue <- Cat_C01
  Gen = FALSE
  MaxStr1 = 3
  MaxPath = 6
VIEW View
INVARIANTS TypeInv FailureAtomic ReadOnly Laws
CHECK_DEADLOCK FALSE
