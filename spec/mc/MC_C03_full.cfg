SPECIFICATION Spec
CONSTANTS
  Deviations = {}
  Catalogue <- Cat_C03
  Gen = FALSE
  MaxStr1 = 2
  MaxPath = 5
VIEW View
INVARIANTS TypeInv FailureAtomic ReadOnly Laws
CHECK_DEADLOCK FALSE
