SPECIFICATION Spec
CONSTANTS
  Deviations = {}
  Catalogue <- Cat_C03_quick
  Gen = TRUE
  MaxStr1 = 2
  MaxPath = 3
VIEW View
CHECK_DEADLOCK FALSE
