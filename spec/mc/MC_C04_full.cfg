SPECIFICATION Spec
CONSTANTS
  Deviations = {}
  Catalogue <- Cat_C04
  Gen = FALSE
  MaxStr1 = 3
  MaxPath = 5
VIEW View
INVARIANTS TypeInv FailureAtomic ReadOnly Laws
CHECK_DEADLOCK FALSE
