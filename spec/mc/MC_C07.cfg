SPECIFICATION Spec
CONSTANTS
  Deviations = {}
  Conns = {1, 2}
  Catalogue <- Cat_Txn_quick
  Gen = FALSE
  MaxQueue = 2
  MaxPath = 7
  Password <- NoPass
VIEW View
INVARIANTS C07_QueueOnly C07_AllOrNothing C07_StateCleared C07_PerConnection C08_AbortWhenChanged C08_GhostAgrees C08_WatchDomain C08_NoFalseAbort C18_Frame C18_SelectRange
CHECK_DEADLOCK FALSE
