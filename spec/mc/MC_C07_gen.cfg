SPECIFICATION Spec
CONSTANTS
  Deviations = {}
  Conns = {1, 2}
  Catalogue <- Cat_Txn_quick
  Gen = TRUE
  MaxQueue = 2
  MaxPath = 5
  Password <- NoPass
VIEW View
CHECK_DEADLOCK FALSE
