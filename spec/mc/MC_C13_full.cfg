SPECIFICATION Spec
CONSTANTS
  Deviations = {}
  Conns = {1, 2, 3}
  Catalogue <- Cat_Blocking
  MaxPush = 3
  MaxPath = 6
INVARIANTS C13_Conservation C13_BlockedOnlyIfNothingToPop C13_ServedOrNothingToServe C13_OrderStampsDistinct
CHECK_DEADLOCK FALSE
