SPECIFICATION Spec
CONSTANTS
  Deviations = {}
  Conns = {1, 2}
  Catalogue <- Cat_PubSub_quick
  Gen = FALSE
  MaxInbox = 2
  MaxPath = 8
VIEW View
INVARIANTS C14_ExactlyOnce C14_FramesIntact C14_AckCounts C14_PerConnection
CHECK_DEADLOCK FALSE
