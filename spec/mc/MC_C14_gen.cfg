SPECIFICATION Spec
CONSTANTS
  Deviations = {}
  Conns = {1, 2}
  Catalogue <- Cat_PubSub_quick
  Gen = TRUE
  MaxInbox = 2
  MaxPath = 4
VIEW View

CHECK_DEADLOCK FALSE
