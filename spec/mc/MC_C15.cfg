SPECIFICATION Spec
CONSTANTS
  Deviations = {}
  Catalogue <- Cat_C15_quick
  Gen = FALSE
  MaxStr1 = 3
  MaxPath = 8
VIEW View
INVARIANTS TypeInv FailureAtomic ReadOnly Laws LastMono
CHECK_DEADLOCK FALSE
