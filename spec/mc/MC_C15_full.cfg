SPECIFICATION Spec
CONSTANTS
  Deviations = {}
  Catalogue <- Cat_C15
  Gen = FALSE
  MaxStr1 = 3
  MaxPath = 7
VIEW View
INVARIANTS TypeInv FailureAtomic ReadOnly Laws LastMono
CHECK_DEADLOCK FALSE
