SPECIFICATION Spec
CONSTANTS
  Deviations = {}
  Catalogue <- Cat_C15_quick
  Gen = TRUE
  MaxStr1 = 3
  MaxPath = 3
VIEW View

CHECK_DEADLOCK FALSE
