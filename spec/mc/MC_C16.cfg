SPECIFICATION Spec
CONSTANTS
  Deviations = {}
  Catalogue <- Cat_C16_quick
  Gen = FALSE
  MaxStr1 = 3
  MaxPath = 9
VIEW View
INVARIANTS TypeInv FailureAtomic ReadOnly Laws LastMono
CHECK_DEADLOCK FALSE
