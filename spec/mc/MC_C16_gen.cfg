SPECIFICATION Spec
CONSTANTS
  Deviations = {}
  Catalogue <- Cat_C16_quick
  Gen = TRUE
  MaxStr1 = 3
  MaxPath = 5
VIEW View

CHECK_DEADLOCK FALSE
