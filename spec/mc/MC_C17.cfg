SPECIFICATION Spec
CONSTANTS
  Deviations = {}
  Conns = {1, 2}
  Catalogue <- Cat_Auth
  Gen = FALSE
  MaxQueue = 2
  MaxPath = 6
  Password <- Pw
VIEW View
INVARIANTS C17_Gate C07_PerConnection C07_QueueOnly C07_AllOrNothing C07_StateCleared C18_Frame
CHECK_DEADLOCK FALSE
