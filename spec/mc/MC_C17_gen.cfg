SPECIFICATION Spec
CONSTANTS
  Deviations = {}
  Conns = {1, 2}
  Catalogue <- Cat_Auth
  Gen = TRUE
  MaxQueue = 2
  MaxPath = 3
  Password <- Pw
VIEW View
CHECK_DEADLOCK FALSE
