SPECIFICATION Spec
CONSTANTS
  Deviations = {}
  Conns = {1, 2}
  Catalogue <- Cat_C18
  Gen = FALSE
  MaxQueue = 2
  MaxPath = 6
  Password <- NoPass
VIEW View
INVARIANTS C18_Frame C18_SelectRange C07_PerConnection C07_QueueOnly C07_AllOrNothing
CHECK_DEADLOCK FALSE
