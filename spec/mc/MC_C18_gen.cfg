SPECIFICATION Spec
CONSTANTS
  Deviations = {}
  Conns = {1, 2}
  Catalogue <- Cat_C18
  Gen = TRUE
  MaxQueue = 2
  MaxPath = 4
  Password <- NoPass
VIEW View
CHECK_DEADLOCK FALSE
