------------------------------- MODULE MC_Data -------------------------------
(***************************************************************************)
(* Bounded instance of the data-command semantics on ONE database: the     *)
(* state is the key space, a step is any command of a finite Catalogue.    *)
(* Used (a) to model-check the laws that make the oracle self-consistent   *)
(* (failure atomicity, type invariant, cross-command laws) and (b) with    *)
(* Gen = TRUE to print one test per transition of the state graph: the     *)
(* shortest command sequence reaching each state followed by each          *)
(* catalogue command (history variable `path`, hidden by VIEW).            *)
(***************************************************************************)
EXTENDS Ferrous, Cats, Json

CONSTANTS Catalogue,   \* set of argument vectors
          Gen,         \* print tests?
          MaxStr1,     \* bound on string length / collection size kept in the model
          MaxPath

VARIABLES K, lastR, lastK, path
vars == <<K, lastR, lastK, path>>
View == K

Tm0 == [t0 |-> 0, t1 |-> 0]

Size(e) == IF e.t = "string" \/ e.t = "list" THEN Len(e.v)
           ELSE IF e.t = "set" THEN Cardinality(e.v)
           ELSE IF e.t \in {"hash", "zset"} THEN Cardinality(DOMAIN e.v)
           ELSE IF e.t = "stream" THEN Len(e.v.ents)
           ELSE 0
Small(KK) == \A k \in DOMAIN KK : Size(KK[k]) <= MaxStr1

Init == K = EmptyK /\ lastR = RNil /\ lastK = EmptyK /\ path = <<>>

Do(a) ==
  /\ Len(path) < MaxPath
  /\ \E o \in DataCmd(CmdName(Upper(a[1])), a, K, Tm0, NoObs) :
       /\ o.dv = {}
       /\ Small(o.K)
       /\ K' = o.K
       /\ lastR' = o.r
       /\ lastK' = K
       /\ path' = Append(path, a)
       /\ (Gen => PrintT(<<"GEN", ToJson(path')>>))

Next == \E a \in Catalogue : Do(a)
Spec == Init /\ [][Next]_vars

-----------------------------------------------------------------------------
(* the laws *)
WellFormed(e) ==
  /\ e.t \in {"string", "list", "set", "hash", "zset", "stream"}
  /\ e.t = "list" => Len(e.v) > 0
  /\ e.t = "set" => e.v # {}
  /\ e.t \in {"hash", "zset"} => DOMAIN e.v # {}
TypeInv == \A k \in DOMAIN K : WellFormed(K[k])

(* a refused command leaves the dataset exactly as it was *)
FailureAtomic == lastR.t = "err" => K = lastK

(* read-only commands never change the dataset *)
ReadOnlyNames == {"GET", "MGET", "STRLEN", "GETRANGE", "EXISTS", "TYPE", "KEYS", "DBSIZE", "RANDOMKEY",
                  "TTL", "PTTL", "LLEN", "LRANGE", "LINDEX", "SMEMBERS", "SISMEMBER", "SCARD", "SUNION",
                  "SINTER", "SDIFF", "SRANDMEMBER", "HGET", "HMGET", "HGETALL", "HLEN", "HEXISTS", "HKEYS",
                  "HVALS", "ZSCORE", "ZCARD", "ZRANK", "ZREVRANK", "ZRANGE", "ZREVRANGE", "ZRANGEBYSCORE",
                  "ZREVRANGEBYSCORE", "ZCOUNT", "XRANGE", "XREVRANGE", "XLEN", "XREAD", "XPENDING", "XINFO"}
ReadOnly == (path # <<>> /\ CmdName(Upper(path[Len(path)][1])) \in ReadOnlyNames) => K = lastK

(* cross-command laws evaluated in every reachable state *)
The(outs) == CHOOSE o \in outs : TRUE
R1(name, a) == The(DataCmd(name, a, K, Tm0, NoObs)).r
(* sorted-set laws (C04): every query agrees with the derived (score, member) order *)
ZLaws(k) ==
  LET z == K[k].v s == ZSeq(z) n == Len(s)
      all == R1("ZRANGE", <<L_ZRANGE, k, <<48>>, <<45, 49>>>>)
      rall == R1("ZREVRANGE", <<L_ZREVRANGE, k, <<48>>, <<45, 49>>>>)
  IN /\ all = RBulks(s)
     /\ rall = RBulks(Rev(s))
     /\ R1("ZCARD", <<L_ZCARD, k>>) = RInt(n)
     /\ \A i \in 1..n :
          /\ R1("ZRANK", <<L_ZRANK, k, s[i]>>) = RInt(i - 1)
          /\ R1("ZREVRANK", <<L_ZREVRANK, k, s[i]>>) = RInt(n - i)
          /\ R1("ZRANGE", <<L_ZRANGE, k, IntBytes(i - 1), IntBytes(i - 1)>>) = RBulks(<<s[i]>>)
          /\ R1("ZSCORE", <<L_ZSCORE, k, s[i]>>) = RScore(z[s[i]])
     /\ \A i \in 1..(n - 1) : ZLess(z, s[i], s[i + 1])
     /\ R1("ZCOUNT", <<L_ZCOUNT, k, L_minf, L_pinf>>) = RInt(n)
     /\ Len(R1("ZRANGEBYSCORE", <<L_ZRANGEBYSCORE, k, L_minf, L_pinf>>).v) = n

(* stream laws (C15): XLEN = number of entries, ids strictly increasing, last >= every id, full range = all entries,
   an id not greater than the last one is refused; consumer groups (C16): XPENDING's total, bounds and per-consumer
   counts equal the pending set, every owner is a consumer of the group *)
RECURSIVE SumCounts(_)
SumCounts(ps) == IF ps = <<>> THEN 0 ELSE SmallOf(Head(ps)[2]) + SumCounts(Tail(ps))
GroupLaws(k, g) ==
  LET grp == K[k].v.groups[g] pel == grp.pel n == Cardinality(DOMAIN pel)
      sum == R1("XPENDING", <<L_XPENDING, k, g>>)
      ext == R1("XPENDING", <<L_XPENDING, k, g, L_minus, L_plus, <<49, 48, 48>>>>)
  IN /\ sum.v[1] = RInt(n)
     /\ ext.t = "pendext" /\ Len(ext.v) = n
     /\ \A i \in 1..(n - 1) : IdLt(IdOf(ext.v[i][1]), IdOf(ext.v[i + 1][1]))
     /\ n > 0 => /\ sum.v[2] = RBulk(ext.v[1][1]) /\ sum.v[3] = RBulk(ext.v[n][1])
                 /\ SumCounts(sum.v[4].v) = n
                 /\ \A i \in 1..Len(sum.v[4].v) : SmallOf(sum.v[4].v[i][2]) > 0
     /\ \A x \in DOMAIN pel : CStat(grp, pel[x].c) \in {"yes", "dev"} /\ pel[x].n >= 1
     (* XINFO GROUPS shows the same pending total and the group's position *)
     /\ LET xg == R1("XINFO", <<L_XINFO, L_GROUPS, k>>) IN
          /\ xg.t = "mapset" /\ Len(xg.v) = Cardinality(DOMAIN K[k].v.groups)
          /\ \E i \in 1..Len(xg.v) : /\ xg.v[i].v[1][2] = RBulk(g) /\ xg.v[i].v[3][2] = RInt(n)
                                      /\ xg.v[i].v[4][2] = RBulk(IdBytes(grp.ld))
     /\ grp.skew = {}
     /\ \A c \in DOMAIN grp.cons :
          Len(R1("XPENDING", <<L_XPENDING, k, g, L_minus, L_plus, <<49, 48, 48>>, c>>).v) = Cardinality(OwnedBy(pel, c))
StreamLaws(k) ==
  LET v == K[k].v es == v.ents n == Len(es) IN
  /\ R1("XLEN", <<L_XLEN, k>>) = RInt(n)
  /\ \A i \in 1..(n - 1) : IdLt(es[i].id, es[i + 1].id)
  /\ \A i \in 1..n : IdLe(es[i].id, v.last) /\ es[i].id # ZeroId
  /\ R1("XRANGE", <<L_XRANGE, k, L_minus, L_plus>>) = REnts(es)
  (* XINFO STREAM shows the same length, the number of groups, and the first and last present entries *)
  /\ LET xi == R1("XINFO", <<L_XINFO, L_STREAM, k>>) IN
       /\ xi.t = "infomap" /\ xi.v[1][2] = RInt(n) /\ xi.v[3][2] = RInt(Cardinality(DOMAIN v.groups))
       /\ n > 0 => (xi.v[4][2] = REnt(es[1]) /\ xi.v[5][2] = REnt(es[n]))
       /\ Match(xi.v[2][2], [t |-> "bulk", v |-> IdBytes(v.last)])
  /\ R1("XREVRANGE", <<L_XREVRANGE, k, L_plus, L_minus>>) = REnts(Rev(es))
  /\ R1("XREAD", <<L_XREAD, L_STREAMS, k, <<48, 45, 48>>>>) = (IF n = 0 THEN RNilArr ELSE RArr(<<RArr(<<RBulk(k), REnts(es)>>)>>))
  /\ R1("XREAD", <<L_XREAD, L_STREAMS, k, L_dollar>>) = RNilArr
  /\ \A i \in 1..n : R1("XRANGE", <<L_XRANGE, k, IdBytes(es[i].id), IdBytes(es[i].id)>>) = REnts(<<es[i]>>)
  /\ DataCmd("XADD", <<L_XADD, k, IdBytes(v.last), <<97>>, <<49>>>>, K, Tm0, NoObs) = Fail(K)
  /\ \A o \in DataCmd("XADD", <<L_XADD, k, L_star, <<97>>, <<49>>>>, K, Tm0, NoObs) :
        o.r.t = "err" \/ IdLt(v.last, o.K[k].v.last)
  /\ \A g \in DOMAIN v.groups : GroupLaws(k, g)
(* the last id of a stream never decreases while stream commands act on it *)
LastMono ==
  (path # <<>> /\ CmdName(Upper(path[Len(path)][1])) \in StreamCommands) =>
     \A k \in DOMAIN K \cap DOMAIN lastK :
        (IsT(K, k, "stream") /\ IsT(lastK, k, "stream")) => IdLe(lastK[k].v.last, K[k].v.last)

Laws ==
  \A k \in DOMAIN K \cup {<<122>>} :
    /\ LET ex == R1("EXISTS", <<L_EXISTS, k>>) ty == R1("TYPE", <<L_TYPE, k>>)
       IN (ex = RInt(1)) <=> (ty # RSt(L_none))
    /\ IsT(K, k, "string") =>
         /\ R1("STRLEN", <<L_STRLEN, k>>) = RInt(Len(R1("GET", <<L_GET, k>>).v))
         /\ R1("GETRANGE", <<L_GETRANGE, k, <<48>>, <<45, 49>>>>) = R1("GET", <<L_GET, k>>)
    /\ IsT(K, k, "zset") => ZLaws(k)
    /\ IsT(K, k, "stream") => StreamLaws(k)
    /\ R1("DBSIZE", <<L_DBSIZE>>) = RInt(Len(R1("KEYS", <<L_KEYS, <<42>>>>).v))

=============================================================================
