------------------------------ MODULE MC_PubSub ------------------------------
(***************************************************************************)
(* Bounded instance for pub/sub (C14): a few connections, a few channels   *)
(* and glob patterns.  Ghost `owed` counts, per connection, the frames     *)
(* a property-level reading of "exactly once per matching subscription"    *)
(* requires; the invariants compare it with the inboxes kept by the spec.  *)
(***************************************************************************)
EXTENDS Ferrous, Cats, Json

CONSTANTS Conns, Catalogue, Gen, MaxInbox, MaxPath
VARIABLES S, last, path
vars == <<S, last, path>>
View == S

Tm0 == [t0 |-> 0, t1 |-> 0]
Init == /\ S = [InitS EXCEPT !.conns = [c \in Conns |-> NewConn(InitS)]]
        /\ last = [c |-> 0, a |-> <<>>, r |-> RNil, pre |-> InitS]
        /\ path = <<>>

FlatLen(ib) == LET RECURSIVE F(_) F(s) == IF s = <<>> THEN 0 ELSE Len(Head(s)) + F(Tail(s)) IN F(ib)

Do(c, a) ==
  /\ Len(path) < MaxPath
  /\ \E o \in Step(S, c, a, Tm0, NoObs) :
       /\ \A x \in Conns : FlatLen(o.S.conns[x].inbox) <= MaxInbox
       /\ S' = o.S
       /\ last' = [c |-> c, a |-> a, r |-> o.r, pre |-> S]
       /\ path' = Append(path, <<c, a>>)
       /\ (Gen => PrintT(<<"GEN", ToJson(path')>>))

(* a subscriber reads one owed frame *)
Read(c) ==
  /\ S.conns[c].inbox # <<>>
  /\ S' = [S EXCEPT !.conns[c].inbox = Tail(@)]
  /\ last' = [c |-> 0, a |-> <<>>, r |-> RNil, pre |-> S]
  /\ UNCHANGED path

Next == (\E c \in Conns : \E a \in Catalogue : Do(c, a)) \/ (\E c \in Conns : Read(c))
Spec == Init /\ [][Next]_vars

-----------------------------------------------------------------------------
Pre == last.pre
LName == IF last.a = <<>> THEN "" ELSE NameOf(last.a)

(* exactly once per matching subscription, to subscribers at that moment and nobody else;
   PUBLISH returns the number of deliveries *)
Matching(cn, ch) == (IF ch \in cn.subs THEN 1 ELSE 0) + Cardinality({p \in cn.psubs : Glob(p, ch)})
C14_ExactlyOnce ==
  (LName = "PUBLISH" /\ Len(last.a) = 3) =>
     /\ \A x \in Conns :
          FlatLen(S.conns[x].inbox) = FlatLen(Pre.conns[x].inbox) + Matching(Pre.conns[x], last.a[2])
     /\ LET RECURSIVE Sum(_)
            Sum(X) == IF X = {} THEN 0 ELSE LET x == CHOOSE x \in X : TRUE IN Matching(Pre.conns[x], last.a[2]) + Sum(X \ {x})
        IN last.r = RInt(Sum(Conns))

(* payload, channel and pattern bytes intact; per-publisher order = inbox order *)
C14_FramesIntact ==
  (LName = "PUBLISH" /\ Len(last.a) = 3) =>
     \A x \in Conns : S.conns[x].inbox # Pre.conns[x].inbox =>
        LET bag == S.conns[x].inbox[Len(S.conns[x].inbox)] IN
        \A i \in 1..Len(bag) :
           LET f == bag[i].v IN
           \/ f = <<RBulk(L_message), RBulk(last.a[2]), RBulk(last.a[3])>>
           \/ /\ Len(f) = 4 /\ f[1] = RBulk(L_pmessage) /\ f[3] = RBulk(last.a[2]) /\ f[4] = RBulk(last.a[3])
              /\ f[2].v \in Pre.conns[x].psubs /\ Glob(f[2].v, last.a[2])

(* acknowledgements carry the remaining subscription count *)
C14_AckCounts ==
  (LName \in {"SUBSCRIBE", "PSUBSCRIBE", "UNSUBSCRIBE", "PUNSUBSCRIBE"} /\ last.r.t = "multi") =>
     /\ Len(last.r.v) >= 1
     /\ last.r.v[Len(last.r.v)].v[3] = RInt(SubCount(S.conns[last.c]))
     /\ (Len(last.a) >= 2 => Len(last.r.v) = Len(last.a) - 1)

(* subscriptions are per connection *)
C14_PerConnection ==
  last.c # 0 => \A x \in Conns \ {last.c} :
     S.conns[x].subs = Pre.conns[x].subs /\ S.conns[x].psubs = Pre.conns[x].psubs
=============================================================================
