------------------------------- MODULE MC_Txn -------------------------------
(***************************************************************************)
(* Bounded instance for MULTI/EXEC/DISCARD (C07), WATCH (C08), database    *)
(* selection (C18) and requirepass (C17): a few connections send commands  *)
(* of a finite catalogue in every interleaving.  Ghost variables restate   *)
(* the properties independently of the bookkeeping inside Ferrous.tla.     *)
(* With Gen = TRUE every transition is printed as a test (see MC_Data).    *)
(***************************************************************************)
EXTENDS Ferrous, Cats, Json

CONSTANTS Conns, Catalogue, Gen, MaxQueue, MaxPath, Password

VARIABLES S,      \* server state
          last,   \* the step just taken: [c, a, r, pre]
          gw,     \* ghost: conn -> (<<db,key>> -> has the entry changed since it was watched)
          path
vars == <<S, last, gw, path>>
View == <<S, gw>>

Tm0 == [t0 |-> 0, t1 |-> 0]

Init ==
  /\ S = [InitS EXCEPT !.pass = Password,
                       !.conns = [c \in Conns |-> [NewConn(InitS) EXCEPT !.authed = (Password = NoPass)]]]
  /\ last = [c |-> 0, a |-> <<>>, r |-> RNil, pre |-> InitS, g |-> [c \in Conns |-> <<>>]]
  /\ gw = [c \in Conns |-> <<>>]
  /\ path = <<>>

SmallS(X) == \A c \in Conns : Len(X.conns[c].queue) <= MaxQueue

GhostNext(X, Y, c, a, r) ==
  LET name == NameOf(a)
      upd(g) == [w \in DOMAIN g |-> g[w] \/ EntryAt(X, w[1], w[2]) # EntryAt(Y, w[1], w[2])]
      g1 == [x \in Conns |-> upd(gw[x])]
      okr == r.t # "err"
  IN IF name = "WATCH" /\ okr /\ ~X.conns[c].multi
     THEN [g1 EXCEPT ![c] = [w \in (DOMAIN g1[c]) \cup {<<X.conns[c].db, a[i]>> : i \in 2..Len(a)} |->
                               IF w \in DOMAIN g1[c] THEN g1[c][w] ELSE FALSE]]
     ELSE IF (name \in {"UNWATCH", "DISCARD"} /\ okr) \/ (name = "EXEC" /\ X.conns[c].multi /\ Len(a) = 1)
     THEN [g1 EXCEPT ![c] = <<>>]
     ELSE g1

Do(c, a) ==
  /\ Len(path) < MaxPath
  /\ \E o \in Step(S, c, a, Tm0, NoObs) :
       /\ o.dv = {}
       /\ SmallS(o.S)
       /\ S' = o.S
       /\ last' = [c |-> c, a |-> a, r |-> o.r, pre |-> S, g |-> gw]
       /\ gw' = GhostNext(S, o.S, c, a, o.r)
       /\ path' = Append(path, <<c, a>>)
       /\ (Gen => PrintT(<<"GEN", ToJson(path')>>))

Next == \E c \in Conns : \E a \in Catalogue : Do(c, a)
Spec == Init /\ [][Next]_vars

-----------------------------------------------------------------------------
Pre == last.pre
LName == IF last.a = <<>> THEN "" ELSE NameOf(last.a)
InMultiBefore == last.c # 0 /\ Pre.conns[last.c].multi
Authed(X, c) == X.conns[c].authed

(* C07: between MULTI and EXEC commands are only queued *)
C07_QueueOnly ==
  (InMultiBefore /\ LName \notin TxnControl) =>
     /\ S.dbs = Pre.dbs
     /\ last.r \in {RSt(L_QUEUED), RErr}
     /\ (last.r = RSt(L_QUEUED) => S.conns[last.c].queue = Append(Pre.conns[last.c].queue, last.a))

(* C07: EXEC returns one reply per queued command, or nothing happened at all *)
C07_AllOrNothing ==
  (InMultiBefore /\ LName = "EXEC" /\ Len(last.a) = 1) =>
     \/ last.r.t = "arr" /\ Len(last.r.v) = Len(Pre.conns[last.c].queue)
     \/ last.r.t \in {"nilarr", "err"} /\ S.dbs = Pre.dbs

(* C07: EXEC and DISCARD clear the transaction state, of that connection only *)
C07_StateCleared ==
  (last.c # 0 /\ ((InMultiBefore /\ LName = "EXEC" /\ Len(last.a) = 1) \/ (LName = "DISCARD" /\ last.r = ROk))) =>
     LET cn == S.conns[last.c] IN ~cn.multi /\ cn.queue = <<>> /\ cn.watch = <<>>
C07_PerConnection ==
  last.c # 0 => \A x \in Conns \ {last.c} :
     /\ S.conns[x].multi = Pre.conns[x].multi
     /\ S.conns[x].queue = Pre.conns[x].queue
     /\ S.conns[x].db = Pre.conns[x].db
     /\ S.conns[x].authed = Pre.conns[x].authed

(* C08 (soundness): a watched entry changed since WATCH => EXEC answers nil and executes nothing *)
C08_AbortWhenChanged ==
  (InMultiBefore /\ LName = "EXEC" /\ Len(last.a) = 1 /\ ~Pre.conns[last.c].qerr
     /\ \E w \in DOMAIN last.g[last.c] : last.g[last.c][w])
  => (last.r = RNilArr /\ S.dbs = Pre.dbs)

(* ghost agrees with the bookkeeping: changed entries are exactly those the spec treats as "must"
   (up to by-name dirtiness of overwriting commands that store the same bytes) *)
C08_GhostAgrees ==
  \A c \in Conns : \A w \in DOMAIN gw[c] :
     /\ w \in DOMAIN S.conns[c].watch
     /\ gw[c][w] => S.conns[c].watch[w] = "must"
C08_WatchDomain == \A c \in Conns : DOMAIN gw[c] = DOMAIN S.conns[c].watch

(* C08 (no false abort): nobody addressed a watched key => EXEC executes *)
C08_NoFalseAbort ==
  (InMultiBefore /\ LName = "EXEC" /\ Len(last.a) = 1 /\ ~Pre.conns[last.c].qerr
     /\ \A w \in DOMAIN Pre.conns[last.c].watch : Pre.conns[last.c].watch[w] = "clean")
  => last.r.t = "arr"

(* C18: a step touches only the database selected on that connection (FLUSHALL excepted);
   inside EXEC the selection may move with queued SELECTs, so the frame is: only databases
   that were selected at some point of the step *)
C18_Frame ==
  (last.c # 0 /\ LName \notin {"FLUSHALL", "EXEC"}) =>
     \A d \in DBs : d # Pre.conns[last.c].db => S.dbs[d] = Pre.dbs[d]
C18_SelectRange ==
  (LName = "SELECT" /\ last.r = RErr) => S.conns[last.c].db = Pre.conns[last.c].db

(* C17: with a password, an unauthenticated connection changes nothing and learns nothing *)
C17_Gate ==
  (last.c # 0 /\ Pre.pass # NoPass /\ ~Authed(Pre, last.c)) =>
     /\ S.dbs = Pre.dbs
     /\ (LName \notin {"AUTH", "PING", "QUIT"} => last.r = RErr)
     /\ (Authed(S, last.c) => (LName = "AUTH" /\ Len(last.a) = 2 /\ last.a[2] = Pre.pass))
     /\ [S.conns[last.c] EXCEPT !.authed = FALSE] = Pre.conns[last.c]

=============================================================================
