#!/usr/bin/env python3
"""Development aid: run many short random histories of one generator, validate each trace in parallel,
and group the rejections by signature (command, expected, observed) to triage distinct findings quickly.
usage: explore.py <GenClass> [histories] [commands] [seed]"""
import sys, os, json, re, random, shutil, concurrent.futures as cf
sys.path.insert(0, '/verif/lib')
import runner, workloads, tlc, gens_streams
from session import Session, Trace, ServerDied
from server import Server

def main():
    gname = sys.argv[1]
    H = int(sys.argv[2]) if len(sys.argv) > 2 else 40
    M = int(sys.argv[3]) if len(sys.argv) > 3 else 120
    seed = int(sys.argv[4]) if len(sys.argv) > 4 else 1
    runner.build_harness()
    wd = os.environ.get('VERIF_EXPLORE_DIR', '/verif/out/explore')      # separate dirs let several people explore at once
    shutil.rmtree(wd, ignore_errors=True); os.makedirs(wd)
    devs = set(f['deviation'] for f in runner.load_findings().get('open', []) if f.get('deviation'))
    devs |= set(d for d in os.environ.get('VERIF_EXTRA_DEVS', '').split(',') if d)
    srv = Server(wd + '/srv').start()
    rnd = random.Random(seed)
    traces = []
    for h in range(H):
        g = (getattr(workloads, gname, None) or getattr(gens_streams, gname))(rnd)
        tr = Trace('%s/t%d.ndjson' % (wd, h))
        s = Session(srv, tr)
        try:
            c = s.open(); s.cmd(c, [b'FLUSHALL'])
            for j in range(M):
                c = workloads.ensure_conn(s, c)
                a = g.next()
                if isinstance(a, tuple) and a[0] == 'sleep':
                    import time as _t; _t.sleep(a[1] / 1000.0); continue
                s.cmd(c, a)
                if gname == 'ZSetGen' and a[0].upper() in workloads.ZMUT and len(a) > 1 and srv.alive():
                    res = srv.ctl.cmd('ZCHECK 0 ' + a[1].hex())
                    if res != 'NONE':
                        tr.emit({'k': 'chk', 'name': 'skiplist', 'ok': 1 if res == 'OK' else 0, 'detail': res[:200]})
            c = workloads.ensure_conn(s, c)
            workloads.dump_db(s, c)
        except (ServerDied, OSError):
            pass
        s.close_all(); tr.close()
        if not srv.alive():
            srv.restart()
        traces.append(tr.path)
    srv.kill()
    def val(p):
        return p, tlc.validate_trace(p, p + '.tlc', deviations=devs)
    sigs = {}
    with cf.ThreadPoolExecutor(8) as ex:
        for p, res in ex.map(val, traces):
            if res['ok']:
                continue
            if res['tool_error']:
                print('TOOL ERROR', p); print(res['out'][-1500:]); continue
            evs = [json.loads(l) for l in open(p)]
            ev = evs[res['rejected_at'] - 1]
            out = res['out']
            m = re.search(r'"EXPECTED-ONE-OF",\s*(.*?)>>\s*\n<<\s*"CONN', out, re.S)
            exp = re.sub(r'\s+', ' ', m.group(1))[:260] if m else out[-600:]
            name = bytes(ev['argv'][0]).upper() if ev.get('k') == 'cmd' and ev['argv'] else ev.get('k')
            sig = (name, runner.render_reply(ev['r'])[:60] if ev.get('k') == 'cmd' else '')
            sigs.setdefault(sig, []).append((p, res['rejected_at'], runner.render_event(ev), exp))
    print('%d/%d histories rejected; %d signatures' % (sum(len(v) for v in sigs.values()), H, len(sigs)))
    for sig, lst in sorted(sigs.items(), key=lambda x: -len(x[1])):
        p, at, evs, exp = lst[0]
        print('--- %dx %s' % (len(lst), sig))
        print('    %s @%d: %s' % (p, at, evs))
        print('    expected: %s' % exp)

main()
