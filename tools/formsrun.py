#!/usr/bin/env python3
"""Development aid: run the forms catalogue through one path and list the rejected segments.
usage: formsrun.py <direct|script-lit|script-keys|script-pcall|multi> [db] [odb]"""
import sys, os
sys.path.insert(0, '/verif/lib')
import runner, formspaths
from session import Session, ServerDied

def main():
    path = sys.argv[1]
    db = int(sys.argv[2]) if len(sys.argv) > 2 else 0
    odb = int(sys.argv[3]) if len(sys.argv) > 3 and sys.argv[3] != '-' else None
    ttl = sys.argv[4] if len(sys.argv) > 4 else None
    runner.build_harness()
    ctx = runner.Ctx('FORMS-' + path, 'quick', 1)
    srv = ctx.new_server()
    tr = ctx.new_trace('forms')
    s = Session(srv, tr)
    try:
        n = formspaths.run_forms(s, path, db, odb, ttl=ttl)
    except ServerDied:
        tr.emit({'k': 'crash', 'status': srv.exit_status()})
    s.close_all()
    ctx.validate_segments(tr, 'forms')
    ctx.cleanup()
    print('segments', n, 'violations', len(ctx.violations), 'devs fired', sorted(ctx.fired))
    for what, p in ctx.violations:
        print(what, p)

main()
