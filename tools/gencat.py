#!/usr/bin/env python3
"""Generate spec/mc/Cats.tla: finite catalogues of argument vectors for the bounded instances."""
import os, itertools

def lit(b):
    if isinstance(b, str):
        b = b.encode()
    return '<<' + ','.join(str(x) for x in b) + '>>'

def argv(*parts):
    return '<<' + ', '.join(lit(p) for p in parts) + '>>'

def cat(name, argvs):
    seen, out = set(), []
    for a in argvs:
        if a not in seen:
            seen.add(a); out.append(a)
    body = ',\n  '.join(out)
    return '%s == {\n  %s }\n' % (name, body)

K = ['k', 'l']
I64MAX = '9223372036854775807'
I64MIN = '-9223372036854775808'

def c01(full):
    V = ['', 'a', '10', '-1', I64MAX] + (['ab', I64MIN, '07'] if full else [])
    INTS = ['0', '1', '-1', '2', '-3', 'x', ''] + ([I64MAX, I64MIN, '100'] if full else [])
    A = []
    for k in K:
        for v in V:
            A += [argv('SET', k, v), argv('APPEND', k, v), argv('SETNX', k, v), argv('GETSET', k, v)]
        for v in V[:3]:
            A += [argv('SET', k, v, 'NX'), argv('SET', k, v, 'xx'), argv('SET', k, v, 'NX', 'XX'),
                  argv('SET', k, v, 'EX', '100'), argv('SET', k, v, 'PX', '0'), argv('SET', k, v, 'EX', 'x'),
                  argv('SET', k, v, 'BOGUS'), argv('SETEX', k, '100', v), argv('PSETEX', k, '-1', v),
                  argv('SETRANGE', k, '1', v), argv('SETRANGE', k, '0', v), argv('SETRANGE', k, '-1', v)]
        A += [argv('GET', k), argv('STRLEN', k), argv('INCR', k), argv('DECR', k), argv('DEL', k), argv('TYPE', k),
              argv('EXISTS', k), argv('EXISTS', k, k), argv('TTL', k), argv('PTTL', k), argv('PERSIST', k),
              argv('EXPIRE', k, '100'), argv('PEXPIRE', k, '0'), argv('EXPIRE', k, 'x'), argv('GET', k, k), argv('GET')]
        for i in INTS:
            A += [argv('INCRBY', k, i), argv('DECRBY', k, i)]
        for s, e in itertools.product(['0', '1', '-1', '-2', '5', '-9', 'x'] if full else ['0', '1', '-1', '-9'], repeat=2):
            A.append(argv('GETRANGE', k, s, e))
    A += [argv('MGET', 'k', 'l'), argv('MGET', 'k', 'z'), argv('MSET', 'k', 'a', 'l', '10'), argv('MSET', 'k', 'a', 'l'),
          argv('MSET', 'k', 'a', 'k', 'b'), argv('DEL', 'k', 'l', 'k'), argv('RENAME', 'k', 'l'), argv('RENAME', 'l', 'k'),
          argv('RENAME', 'k', 'k'), argv('RENAMENX', 'k', 'l'), argv('RENAMENX', 'l', 'k'), argv('RENAME', 'z', 'k'),
          argv('KEYS', '*'), argv('KEYS', 'k'), argv('KEYS', '?'), argv('KEYS', 'k*'), argv('KEYS', '[a-k]'), argv('KEYS', '[^k]'),
          argv('DBSIZE'), argv('RANDOMKEY'), argv('FLUSHDB'), argv('FLUSHDB', 'x', 'y'), argv('DBSIZE', 'x')]
    # wrong-type pre-states are created by these seeds (semantics in the list/set/hash modules)
    A += [argv('LPUSH', 'k', 'a'), argv('SADD', 'l', 'a'), argv('HSET', 'k', 'f', 'v')]
    return A

def c03(full):
    E = ['a', 'b']
    IDX = ['0', '1', '-1', '2', '-2', '-3', 'x'] if full else ['0', '1', '-1', '-3']
    A = []
    for k in K:
        for e in E:
            A += [argv('LPUSH', k, e), argv('RPUSH', k, e), argv('SADD', k, e), argv('SREM', k, e), argv('SISMEMBER', k, e),
                  argv('HSET', k, e, 'v'), argv('HSET', k, e, 'w'), argv('HDEL', k, e), argv('HGET', k, e), argv('HEXISTS', k, e),
                  argv('HINCRBY', k, e, '1')]
            for i in IDX[:4]:
                A += [argv('LSET', k, i, e), argv('LREM', k, i, e)]
        A += [argv('LPUSH', k, 'a', 'b'), argv('RPUSH', k, 'a', 'a'), argv('LPOP', k), argv('RPOP', k), argv('LLEN', k),
              argv('SADD', k, 'a', 'b', 'a'), argv('SMEMBERS', k), argv('SCARD', k), argv('SPOP', k), argv('SPOP', k, '2'),
              argv('SPOP', k, '0'), argv('SPOP', k, '-1'), argv('SRANDMEMBER', k), argv('SRANDMEMBER', k, '2'), argv('SRANDMEMBER', k, '-2'),
              argv('HSET', k, 'a', 'v', 'a', 'w'), argv('HSET', k, 'a'), argv('HMSET', k, 'a', '1', 'b', 'x'), argv('HMGET', k, 'a', 'z'),
              argv('HGETALL', k), argv('HLEN', k), argv('HKEYS', k), argv('HVALS', k), argv('HDEL', k, 'a', 'b'),
              argv('HINCRBY', k, 'a', I64MAX), argv('HINCRBY', k, 'a', 'x'), argv('DEL', k), argv('TYPE', k), argv('SET', k, 'v'),
              argv('EXPIRE', k, '100'), argv('TTL', k), argv('LPUSH', k), argv('SADD', k), argv('LRANGE', k, '0')]
        for i in IDX:
            A.append(argv('LINDEX', k, i))
            for j in IDX:
                A += [argv('LRANGE', k, i, j), argv('LTRIM', k, i, j)]
    A += [argv('SUNION', 'k', 'l'), argv('SINTER', 'k', 'l'), argv('SDIFF', 'k', 'l'), argv('SDIFF', 'l', 'k'), argv('SUNION', 'z', 'k'),
          argv('SINTER', 'z', 'k'), argv('SDIFF', 'z', 'k'), argv('SINTER', 'k', 'k'), argv('SUNION'), argv('KEYS', '*')]
    return A

def c04(full):
    M = ['a', 'b', 'c'] if full else ['a', 'b']
    SC = ['-inf', '-1', '0', '-0', '1', '1.001', 'inf'] if full else ['-inf', '0', '1', 'inf']
    A = []
    k = 'k'
    for m in M:
        for s in SC:
            A.append(argv('ZADD', k, s, m))
        A += [argv('ZREM', k, m), argv('ZSCORE', k, m), argv('ZRANK', k, m), argv('ZREVRANK', k, m),
              argv('ZINCRBY', k, '1', m), argv('ZINCRBY', k, '-inf', m), argv('ZINCRBY', k, 'inf', m), argv('ZINCRBY', k, 'nan', m),
              argv('ZADD', k, 'nan', m), argv('ZADD', k, 'x', m)]
    A += [argv('ZADD', k, '1', 'a', 'nan', 'b'), argv('ZADD', k, '1', 'a', '2', 'b'), argv('ZADD', k, '1', 'a', '1'), argv('ZCARD', k),
          argv('ZPOPMIN', k), argv('ZPOPMAX', k), argv('ZPOPMIN', k, '2'), argv('ZPOPMAX', k, '0'), argv('ZREM', k, 'a', 'b'),
          argv('SET', k, 'v'), argv('DEL', k), argv('TYPE', k)]
    IDX = ['0', '1', '-1', '-2', '5', '-5'] if full else ['0', '1', '-1', '5']
    for i in IDX:
        for j in IDX:
            A += [argv('ZRANGE', k, i, j), argv('ZREVRANGE', k, i, j, 'WITHSCORES')]
    B = ['-inf', '0', '1', 'inf', 'nan'] if full else ['-inf', '0', 'inf']
    for lo in B:
        for hi in B:
            A += [argv('ZRANGEBYSCORE', k, lo, hi), argv('ZREVRANGEBYSCORE', k, hi, lo, 'WITHSCORES'), argv('ZCOUNT', k, lo, hi)]
    return A

def c15(full):
    """streams: colliding explicit ids, auto ids, bounds below/inside/between/above, COUNT, XDEL/XTRIM to empty"""
    MAXID = '18446744073709551615-18446744073709551615'
    k = 'k'
    IDS = ['0-1', '1-0', '1-1', '2-0'] + (['5-3', MAXID] if full else [MAXID])
    B = ['-', '+', '0-0', '1-0', '1-1', '3-0'] + (['0-1', '2-0', MAXID] if full else [])
    A = []
    for i in IDS:
        A += [argv('XADD', k, i, 'a', '1'), argv('XDEL', k, i)]
    A += [argv('XADD', k, '*', 'a', '1'), argv('XADD', k, '*', 'a', '1', 'b', '2'), argv('XADD', k, '1-0', 'a', '1', 'a', '2'),
          argv('XADD', k, '0-0', 'a', '1'), argv('XADD', k, 'abc', 'a', '1'), argv('XADD', k, '1-0', 'a'), argv('XADD', k, '1-'),
          argv('XLEN', k), argv('XLEN', k, k), argv('XDEL', k, '1-0', '2-0', '1-0'), argv('XDEL', k, 'x'), argv('XDEL', k),
          argv('XTRIM', k, 'MAXLEN', '0'), argv('XTRIM', k, 'MAXLEN', '1'), argv('XTRIM', k, 'MAXLEN', '-1'), argv('XTRIM', k, 'MAXLEN', '5'),
          argv('XTRIM', k, 'BOGUS', '1'), argv('DEL', k), argv('SET', k, 'v'), argv('TYPE', k), argv('EXISTS', k),
          argv('XREAD', 'STREAMS', k, '0-0'), argv('XREAD', 'STREAMS', k, '1-0'), argv('XREAD', 'STREAMS', k, '$'),
          argv('XREAD', 'COUNT', '1', 'STREAMS', k, '0-0'), argv('XREAD', 'COUNT', '0', 'STREAMS', k, '0-0'),
          argv('XREAD', 'STREAMS', k, 'l', '0-0', '0-0'), argv('XREAD', 'STREAMS', k), argv('XREAD', 'STREAMS', k, 'x-1'),
          argv('XADD', 'l', '1-0', 'a', '1'), argv('XRANGE', k, '-', '+', 'COUNT'), argv('XRANGE', k, '-', '+', 'COUNT', 'x')]
    for lo in B:
        for hi in B:
            A += [argv('XRANGE', k, lo, hi), argv('XREVRANGE', k, hi, lo)]
            if full or lo in ('-', '1-0'):
                A += [argv('XRANGE', k, lo, hi, 'COUNT', '1'), argv('XREVRANGE', k, hi, lo, 'COUNT', '1'),
                      argv('XRANGE', k, lo, hi, 'COUNT', '0')]
    return A

def c16(full):
    """consumer groups: two consumers (three when full), one or two groups, reads with COUNT/NOACK, acks, claims, admin"""
    k = 'k'
    G = ['g', 'h'] if full else ['g']
    C = ['c', 'd']
    A = [argv('XADD', k, '1-0', 'a', '1'), argv('XADD', k, '2-0', 'a', '2'), argv('XADD', k, '3-0', 'a', '3'),
         argv('XDEL', k, '1-0'), argv('XDEL', k, '2-0'), argv('XTRIM', k, 'MAXLEN', '0'), argv('DEL', k), argv('SET', k, 'v'),
         argv('XLEN', k), argv('XGROUP'), argv('XGROUP', 'BOGUS', k, 'g')]
    for g in G:
        A += [argv('XGROUP', 'CREATE', k, g, '0-0'), argv('XGROUP', 'CREATE', k, g, '$'), argv('XGROUP', 'CREATE', k, g, '1-0'),
              argv('XGROUP', 'CREATE', k, g, '$', 'MKSTREAM'), argv('XGROUP', 'CREATE', k, g, 'bad'), argv('XGROUP', 'DESTROY', k, g),
              argv('XGROUP', 'SETID', k, g, '0-0'), argv('XGROUP', 'SETID', k, g, '$'), argv('XGROUP', 'SETID', k, g, '1-0'),
              argv('XPENDING', k, g), argv('XPENDING', k, g, '-', '+', '10'), argv('XPENDING', k, g, '2-0', '+', '1'),
              argv('XPENDING', k, g, '-', '+'), argv('XPENDING', k, g, '-', '1-0', '10'),
              argv('XACK', k, g, '1-0'), argv('XACK', k, g, '2-0'), argv('XACK', k, g, '1-0', '2-0', '1-0'), argv('XACK', k, g, '9-9'),
              argv('XACK', k, g), argv('XACK', k, g, 'x')]
        for c in C:
            A += [argv('XREADGROUP', 'GROUP', g, c, 'STREAMS', k, '>'), argv('XREADGROUP', 'GROUP', g, c, 'COUNT', '1', 'STREAMS', k, '>'),
                  argv('XREADGROUP', 'GROUP', g, c, 'NOACK', 'STREAMS', k, '>'), argv('XREADGROUP', 'GROUP', g, c, 'STREAMS', k, '0-0'),
                  argv('XREADGROUP', 'GROUP', g, c, 'COUNT', '1', 'STREAMS', k, '1-0'), argv('XREADGROUP', 'GROUP', g, c, 'STREAMS', k, '$'),
                  argv('XCLAIM', k, g, c, '0', '1-0'), argv('XCLAIM', k, g, c, '0', '1-0', '2-0', '9-9'),
                  argv('XCLAIM', k, g, c, '0', '2-0', 'JUSTID'), argv('XCLAIM', k, g, c, 'x', '1-0'),
                  argv('XGROUP', 'DELCONSUMER', k, g, c), argv('XGROUP', 'CREATECONSUMER', k, g, c),
                  argv('XPENDING', k, g, '-', '+', '10', c)]
    return A

def txn(full):
    A = [argv('MULTI'), argv('EXEC'), argv('DISCARD'), argv('WATCH', 'k'), argv('UNWATCH'),
         argv('SET', 'k', 'a'), argv('INCR', 'k'), argv('GET', 'k'), argv('DEL', 'k'), argv('NOSUCH', 'k'), argv('SELECT', '1')]
    if full:
        A += [argv('WATCH', 'k', 'l'), argv('SET', 'l', 'a'), argv('LPUSH', 'k', 'a'), argv('SELECT', '0'),
              argv('SELECT', '16'), argv('FLUSHDB'), argv('FLUSHALL'), argv('RENAME', 'k', 'l'), argv('SADD', 'k', 'a'),
              argv('EXPIRE', 'k', '100'), argv('PERSIST', 'k'), argv('SET', 'k', 'a', 'EX', '100'), argv('APPEND', 'k', ''),
              argv('MULTI', 'x'), argv('EXEC', 'x')]
    return A

def pubsub(full):
    CH = ['news', 'mews'] + (['n'] if full else [])
    PT = ['n*', '[mn]ews'] + (['*', '?ews'] if full else [])
    A = []
    for c in CH:
        A += [argv('SUBSCRIBE', c), argv('UNSUBSCRIBE', c), argv('PUBLISH', c, 'm')]
    for p in PT:
        A += [argv('PSUBSCRIBE', p), argv('PUNSUBSCRIBE', p)]
    A += [argv('UNSUBSCRIBE'), argv('PUNSUBSCRIBE'), argv('SUBSCRIBE', 'news', 'mews'), argv('SUBSCRIBE'), argv('PUBLISH', 'news'),
          argv('PUBLISH', 'news', '')]
    return A

def c18():
    return [argv('SELECT', '0'), argv('SELECT', '1'), argv('SELECT', '16'), argv('SELECT', 'x'), argv('SET', 'k', 'a'), argv('GET', 'k'),
            argv('DEL', 'k'), argv('FLUSHDB'), argv('FLUSHALL'), argv('MULTI'), argv('EXEC'), argv('LPUSH', 'k', 'a'), argv('KEYS', '*'),
            argv('DBSIZE'), argv('RENAME', 'k', 'l')]

def blocking():
    Z = b'\x00'
    return [argv('BLPOP', 'q', '0'), argv('BRPOP', 'q', '0'), argv('BLPOP', 'q', 'r', '0'), argv('BLPOP', 'r', '1'),
            argv('RPUSH', 'q', Z), argv('RPUSH', 'q', Z, Z), argv('LPUSH', 'r', Z), argv('LPOP', 'q'), argv('RPOP', 'r')]

def auth():
    return [argv('AUTH', 'pw'), argv('AUTH', 'p'), argv('AUTH', 'PW'), argv('AUTH'), argv('AUTH', 'pw', 'x'), argv('PING'),
            argv('SET', 'k', 'a'), argv('GET', 'k'), argv('MULTI'), argv('EXEC'), argv('FLUSHALL'), argv('SELECT', '1'),
            argv('WATCH', 'k'), argv('QUIT'), argv('NOSUCH')]

def aof(full):
    A = [argv('SET', 'k', 'a'), argv('SADD', 's', 'a', 'b'), argv('SPOP', 's'), argv('SELECT', '1'), argv('SELECT', '0'),
         argv('GETSET', 'k', 'b'), argv('RPUSH', 'l', 'a', 'b'), argv('BLPOP', 'm', 'l', '0'), argv('INCR', 'k'), argv('DEL', 'k', 's'),
         argv('MULTI'), argv('EXEC'), argv('GET', 'k')]
    if full:
        A += [argv('HMSET', 'h', 'f', 'a'), argv('PEXPIRE', 'k', '100000'), argv('PERSIST', 'k'), argv('BRPOP', 'l', '0'), argv('FLUSHDB'),
              argv('RENAME', 'k', 's'), argv('LPOP', 'l'), argv('SET', 'k', 'a', 'NX'), argv('EXPIRE', 'k', '0'), argv('DISCARD'),
              argv('SPOP', 'k'), argv('APPEND', 'k', 'x'), argv('ZADD', 'z', '1', 'a'), argv('ZPOPMIN', 'z')]
    return A

def main():
    out = ['-------------------------------- MODULE Cats --------------------------------',
           '(* GENERATED by tools/gencat.py — argument-vector catalogues of the bounded instances. *)', '']
    out.append(cat('Cat_C01', c01(True)))
    out.append(cat('Cat_C01_quick', c01(False)))
    out.append(cat('Cat_C03', c03(True)))
    out.append(cat('Cat_C03_quick', c03(False)))
    out.append(cat('Cat_C04', c04(True)))
    out.append(cat('Cat_C04_quick', c04(False)))
    out.append(cat('Cat_C15', c15(True)))
    out.append(cat('Cat_C15_quick', c15(False)))
    out.append(cat('Cat_C16', c16(True)))
    out.append(cat('Cat_C16_quick', c16(False)))
    out.append(cat('Cat_Txn', txn(True)))
    out.append(cat('Cat_Txn_quick', txn(False)))
    out.append(cat('Cat_C18', c18()))
    out.append(cat('Cat_Blocking', blocking()))
    out.append(cat('Cat_Auth', auth()))
    out.append(cat('Cat_PubSub', pubsub(True)))
    out.append(cat('Cat_PubSub_quick', pubsub(False)))
    out.append(cat('Cat_Aof', aof(True)))
    out.append(cat('Cat_Aof_quick', aof(False)))
    out.append('Pw == ' + lit('pw'))
    out.append('=============================================================================')
    p = os.path.join(os.path.dirname(os.path.abspath(__file__)), '..', 'spec', 'mc', 'Cats.tla')
    open(p, 'w').write('\n'.join(out) + '\n')

if __name__ == '__main__':
    main()
