#!/usr/bin/env python3
"""Confirm a seeded change independently and keep it under /verif/seeded/<name>/:
  seedcheck.py <dir with patch.diff demo.py meta.json> <name>
In a scratch worktree of /repo (removed afterwards): the patch applies, the crate builds, the repository's test suite
passes with it, the demonstration fails (exit 1) with it and passes (exit 0) without it."""
import json, os, shutil, subprocess, sys

def sh(cmd, cwd=None, timeout=1800):
    p = subprocess.run(cmd, shell=True, cwd=cwd, stdout=subprocess.PIPE, stderr=subprocess.STDOUT, timeout=timeout)
    return p.returncode, p.stdout.decode(errors='replace')

def main():
    src, name = sys.argv[1], sys.argv[2]
    wt = '/tmp/seedchk-' + name      # one scratch worktree per change: several confirmations can run side by side
    sh('git -C /repo worktree remove --force %s' % wt)
    shutil.rmtree(wt, ignore_errors=True)
    rc, out = sh('git -C /repo worktree add -q --detach %s HEAD' % wt)
    assert rc == 0, out
    res = {'name': name}
    try:
        orig = '/tmp/seedchk.orig'
        head = subprocess.run('git -C /repo rev-parse HEAD', shell=True, stdout=subprocess.PIPE).stdout.decode().strip()
        stamp = '/tmp/seedchk.orig.head'
        if not (os.path.exists(orig) and os.path.exists(stamp) and open(stamp).read() == head):
            rc, out = sh('cargo build --offline 2>&1 | tail -3', cwd=wt)
            shutil.copy(os.path.join(wt, 'target/debug/ferrous'), orig)
            open(stamp, 'w').write(head)
        rc, out = sh('git apply %s' % os.path.join(src, 'patch.diff'), cwd=wt)
        res['applies'] = rc == 0
        if rc != 0:
            print(out); print(json.dumps(res)); return 1
        rc, out = sh('cargo build --offline 2>&1 | tail -3', cwd=wt)
        res['builds'] = 'Finished' in out
        rc, out = sh('cargo test --workspace --no-fail-fast --offline 2>&1 | grep -E "^test result"', cwd=wt)
        passed = sum(int(l.split(' passed')[0].split()[-1]) for l in out.splitlines() if ' passed' in l)
        failed = sum(int(l.split(' failed')[0].split()[-1]) for l in out.splitlines() if ' failed' in l)
        res['tests'] = '%d passed, %d failed' % (passed, failed)
        rc1, out1 = sh('python3 %s %s' % (os.path.join(src, 'demo.py'), os.path.join(wt, 'target/debug/ferrous')), timeout=600)
        rc0, out0 = sh('python3 %s %s' % (os.path.join(src, 'demo.py'), orig), timeout=600)
        res['demo_with_change'] = rc1
        res['demo_without_change'] = rc0
        ok = res['builds'] and passed == 163 and failed == 0 and rc1 == 1 and rc0 == 0
        res['confirmed'] = ok
        if ok:
            dst = os.path.join('/verif/seeded', name)
            os.makedirs(dst, exist_ok=True)
            for f in ('patch.diff', 'demo.py'):
                shutil.copy(os.path.join(src, f), dst)
            meta = json.load(open(os.path.join(src, 'meta.json')))
            meta['confirmed_by_builder'] = {'tests': res['tests'], 'demo_with_change_exit': rc1, 'demo_without_change_exit': rc0,
                                            'base_commit': head, 'demo_output_with_change': out1[-600:]}
            json.dump(meta, open(os.path.join(dst, 'meta.json'), 'w'), indent=1)
        else:
            print(out1[-500:]); print(out0[-500:])
        print(json.dumps(res))
        return 0 if ok else 1
    finally:
        sh('git -C /repo worktree remove --force %s' % wt)
        shutil.rmtree(wt, ignore_errors=True)

sys.exit(main())
