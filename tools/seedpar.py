#!/usr/bin/env python3
"""Run a check against a kept seeded change WITHOUT touching /repo, so that several can run side by side:
  seedpar.py <name> <Cxx> [tier]
A scratch worktree of /repo gets the patch, a copy of the harness is built against it, and the check runs from a scratch
export of /verif's HEAD with VERIF_FVH pointing at that build.  Everything lives under /tmp/sp/<name> and is removed at the
end.  The verdict is appended to /verif/seeded/<name>/detection.json like tools/seedrun.py does."""
import json, os, re, shutil, subprocess, sys, time
name, prop = sys.argv[1], sys.argv[2]
tier = sys.argv[3] if len(sys.argv) > 3 else 'quick'
base = '/tmp/sp/%s' % name
wt, hd, vd = base + '/repo', base + '/harness', base + '/verif'

def sh(cmd, cwd=None, env=None):
    e = dict(os.environ); e.update(env or {})
    p = subprocess.run(cmd, shell=True, cwd=cwd, env=e, stdout=subprocess.PIPE, stderr=subprocess.STDOUT)
    return p.returncode, p.stdout.decode(errors='replace')

sh('git -C /repo worktree remove --force %s' % wt)
shutil.rmtree(base, ignore_errors=True)
os.makedirs(base)
verdict, lines, rc = 'TOOL-ERROR', [], 2
try:
    r, out = sh('git -C /repo worktree add -q --detach %s HEAD' % wt)
    assert r == 0, out
    patch = '/verif/seeded/%s/patch.diff' % name
    r, out = sh('git apply %s' % patch, cwd=wt)
    if r != 0:
        r, out = sh('git apply --3way %s' % patch, cwd=wt)
    assert r == 0, 'patch does not apply: ' + out
    os.makedirs(hd)
    for f in ('src', 'Cargo.toml', 'Cargo.lock', '.cargo'):
        s = os.path.join('/verif/harness', f)
        (shutil.copytree if os.path.isdir(s) else shutil.copy)(s, os.path.join(hd, f))
    t = open(hd + '/Cargo.toml').read().replace('path = "/repo"', 'path = "%s"' % wt)
    open(hd + '/Cargo.toml', 'w').write(t)
    r, out = sh('cargo build --offline --quiet 2>&1 | grep -E "^error" -A8 | head -30', cwd=hd, env={'CARGO_NET_OFFLINE': 'true'})
    assert os.path.exists(hd + '/target/debug/fvh'), 'harness build failed: ' + out
    os.makedirs(vd)
    r, out = sh('git -C /verif archive HEAD | tar -x -C %s' % vd)
    assert r == 0, out
    r, out = sh('python3 tools/genlit.py; python3 tools/gencat.py', cwd=vd)
    rc, out = sh('./check %s %s' % (prop, tier), cwd=vd, env={'VERIF_FVH': hd + '/target/debug/fvh', 'VERIF_NOBUILD': '1'})
    lines = [l for l in out.splitlines() if l.startswith(('VIOLATION', 'OK ', 'TOOL-ERROR', '  '))][:6]
    verdict = 'DETECTED' if rc == 1 and 'VIOLATION' in out else ('TOOL-ERROR' if rc == 2 else 'MISSED')
    keep = '/verif/out/seedpar/%s' % name
    shutil.rmtree(keep, ignore_errors=True)
    os.makedirs(keep, exist_ok=True)
    open(keep + '/check.out', 'w').write(out)
    if os.path.isdir(vd + '/out/violations'):
        shutil.copytree(vd + '/out/violations', keep + '/violations')
    lines = [l.replace(vd + '/out/violations', keep + '/violations') for l in lines]
except AssertionError as e:
    lines = [str(e)[:400]]
finally:
    sh('git -C /repo worktree remove --force %s' % wt)
    shutil.rmtree(base, ignore_errors=True)
print('\n'.join(lines))
print('%s %s by %s %s (exit %d)' % (verdict, name, prop, tier, rc))
rec = '/verif/seeded/%s/detection.json' % name
hist = json.load(open(rec)) if os.path.exists(rec) else []
hist.append({'check': prop, 'tier': tier, 'verdict': verdict, 'exit': rc, 'summary': lines[:3], 'how': 'seedpar (scratch worktree)',
             'repo_head': subprocess.run('git -C /repo rev-parse --short HEAD', shell=True, stdout=subprocess.PIPE).stdout.decode().strip(),
             'at': time.strftime('%Y-%m-%dT%H:%M:%SZ', time.gmtime())})
json.dump(hist, open(rec, 'w'), indent=1)
