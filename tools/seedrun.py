#!/usr/bin/env python3
"""Run a check against a kept seeded change: seedrun.py <name> <Cxx> [tier]  — applies /verif/seeded/<name>/patch.diff
to /repo, runs ./check, and undoes the change straight afterwards. Prints DETECTED / MISSED."""
import subprocess, sys, os, json
name, prop = sys.argv[1], sys.argv[2]
tier = sys.argv[3] if len(sys.argv) > 3 else 'quick'
patch = '/verif/seeded/%s/patch.diff' % name
st = subprocess.run('git -C /repo status --porcelain --untracked-files=no', shell=True, stdout=subprocess.PIPE).stdout.decode().strip()
assert st == '', '/repo has uncommitted changes: ' + st
import time
LOCK = '/tmp/ferrous-seedrun.lock'      # other checks (e.g. a thorough run in a snapshot of /verif) wait with their build
open(LOCK, 'w').write(name)
try:
    while subprocess.run("pgrep -f 'cargo buil[d] --offline --quiet' >/dev/null", shell=True).returncode == 0:
        time.sleep(1.0)                 # somebody is building from /repo right now
    rc = subprocess.run('git -C /repo apply ' + patch, shell=True).returncode
    if rc != 0:     # /repo has moved on since the change was made (later fix: commits): merge it in, keep the index clean
        rc = subprocess.run('git -C /repo apply --3way %s && git -C /repo reset -q' % patch, shell=True).returncode
        if rc != 0:
            subprocess.run('git -C /repo reset -q --hard HEAD', shell=True)     # a conflicted merge must not stay behind
    assert rc == 0, 'patch does not apply'
    p = subprocess.run('VERIF_SEEDRUN=1 ./check %s %s' % (prop, tier), shell=True, cwd='/verif', stdout=subprocess.PIPE, stderr=subprocess.STDOUT)
    out = p.stdout.decode(errors='replace')
finally:
    subprocess.run('git -C /repo checkout -- .', shell=True)
    os.remove(LOCK)
lines = [l for l in out.splitlines() if l.startswith(('VIOLATION', 'OK ', 'TOOL-ERROR', '  '))][:6]
print('\n'.join(lines))
verdict = 'DETECTED' if p.returncode == 1 and 'VIOLATION' in out else ('TOOL-ERROR' if p.returncode == 2 else 'MISSED')
print('%s %s by %s %s (exit %d)' % (verdict, name, prop, tier, p.returncode))
import time
rec = '/verif/seeded/%s/detection.json' % name
hist = json.load(open(rec)) if os.path.exists(rec) else []
hist.append({'check': prop, 'tier': tier, 'verdict': verdict, 'exit': p.returncode, 'summary': lines[:3],
             'repo_head': subprocess.run('git -C /repo rev-parse --short HEAD', shell=True, stdout=subprocess.PIPE).stdout.decode().strip(),
             'at': time.strftime('%Y-%m-%dT%H:%M:%SZ', time.gmtime())})
json.dump(hist, open(rec, 'w'), indent=1)
