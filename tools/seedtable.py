#!/usr/bin/env python3
"""Regenerate seeded/README.md from seeded/*/meta.json and seeded/*/detection.json."""
import json, os, glob
rows = []
for d in sorted(glob.glob('/verif/seeded/*/')):
    name = os.path.basename(d.rstrip('/'))
    if not os.path.exists(d + 'meta.json'):
        continue
    m = json.load(open(d + 'meta.json'))
    det = json.load(open(d + 'detection.json')) if os.path.exists(d + 'detection.json') else []
    last = {}
    for x in det:
        last[(x['check'], x['tier'])] = x
    verdicts = ', '.join('%s %s: %s' % (k[0], k[1], v['verdict']) for k, v in sorted(last.items())) or 'not run yet'
    rows.append((name, m.get('property', '?'), m.get('what', '').replace('|', '/'), m.get('needs', '').replace('|', '/'), verdicts))
out = ['# Seeded changes', '',
       'Each directory holds `patch.diff` (against /repo), `demo.py` (exits 1 with the change, 0 without), `meta.json` and',
       '`detection.json` (what `tools/seedrun.py` observed). None of these changes is ever committed to /repo.', '',
       '| name | property | what the change breaks | what it needs to manifest | checks |', '|---|---|---|---|---|']
for r in rows:
    out.append('| %s | %s | %s | %s | %s |' % (r[0], r[1], r[2][:220], r[3][:220], r[4]))
open('/verif/seeded/README.md', 'w').write('\n'.join(out) + '\n')
print('\n'.join(out[-len(rows):]))
