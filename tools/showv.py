#!/usr/bin/env python3
"""Show a violation file: the rejected event, a few events before it, and TLC's diagnostics (decoded)."""
import json, sys, re
sys.path.insert(0, '/verif/lib')
from runner import render_event

def dec(m):
    try:
        nums = [int(x) for x in m.group(1).split(',') if x.strip()]
        b = bytes(nums)
        return repr(b)
    except Exception:
        return m.group(0)

for p in sys.argv[1:]:
    info = json.load(open(p))
    print('==', p, info.get('label'), 'rejected_at', info.get('rejected_at'))
    if info.get('trace'):
        evs = [json.loads(l) for l in open(info['trace'])]
        at = info.get('rejected_at') or 1
        for i in range(max(0, at - 6), min(len(evs), at)):
            print('  %5d %s' % (i + 1, render_event(evs[i])))
    t = info.get('tlc', info.get('tlc_output_tail', ''))
    i = t.find('"EXPECTED-ONE-OF"')
    t = t[i - 3:] if i >= 0 else t
    t = re.sub(r'<<((?:\d+(?:, )?)+)>>', dec, t)
    print(t[:1800])
