#!/bin/bash
# tools/sweep.sh <tier> <seed> [props...] — run the checks one after the other with a given seed on the unchanged tree,
# log to out/sweep/<seed>/<Cxx>.log and print one verdict line each. A development aid for flakiness hunting.
tier=$1; seed=$2; shift 2
props=${@:-C01 C02 C03 C04 C05 C06 C07 C08 C09 C10 C11 C12 C13 C14 C15 C16 C17 C18 C19 C20}
cd "$(dirname "$0")/.."
mkdir -p out/sweep/$seed
for p in $props; do
  s=$(date +%s)
  VERIF_SEED=$seed ./check $p $tier > out/sweep/$seed/$p.log 2>&1
  rc=$?
  echo "$p seed=$seed tier=$tier rc=$rc $(( $(date +%s) - s ))s $(grep -E '^(OK|VIOLATION|TOOL-ERROR|KNOWN-FINDING)' out/sweep/$seed/$p.log | head -3 | tr '\n' ' ' | cut -c1-300)"
done
